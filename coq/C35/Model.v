(** C35: SSH binary packet protocol framing (src/twisted/conch/ssh/transport.py:
    SSHTransportBase.sendPacket / getPacket / dataReceived, SSHCiphers as oracles).

    Ciphers, MACs and zlib are NOT modelled: they are the Section variables [enc]/[dec] (stateful
    stream transformers: CBC/CTR state, or the identity for "none"), [mac]/[verify] and
    [comp]/[decomp] (stateful).  Modelled: padding and length computation, the receive buffer,
    the cached first block, the length / modulus / MAC / padding / decompression checks and their
    DISCONNECT codes, sequence numbers, and the version exchange (lines before the "SSH-" line,
    4 KB limit, supported versions) as repaired by fixes/C35-version-line-segmentation.patch.

    Two receivers are given:
      [data_received] — the code as written: getPacket caches the decrypted first block in
                        [cfirst] while it waits for the rest of the packet, and the dataReceived
                        loop stops at an empty payload ([while packet:]);
      [astep]         — a pure one-frame step (no cache) in the shape of TwLib.Seg's [Framed],
                        used as the specification the first is proved equal to. *)
From Coq Require Import List NArith Bool.
From TwLib Require Import Seg.
Import ListNotations.
Local Open Scope N_scope.

Definition bytes := list N.

Fixpoint take {A} (n : N) (l : list A) : list A :=
  match l with [] => [] | x :: r => if n =? 0 then [] else x :: take (N.pred n) r end.
Fixpoint drop {A} (n : N) (l : list A) : list A :=
  match l with [] => [] | x :: r => if n =? 0 then l else drop (N.pred n) r end.
Definition len {A} (l : list A) : N := N.of_nat (length l).
Definition is_nil {A} (l : list A) : bool := match l with [] => true | _ => false end.

Definition be32 (b : bytes) : N :=
  match b with [a; b; c; d] => ((a * 256 + b) * 256 + c) * 256 + d | _ => 0 end.
Definition enc32 (n : N) : bytes := [n / 16777216 mod 256; n / 65536 mod 256; n / 256 mod 256; n mod 256].

Fixpoint bytes_eqb (a b : bytes) : bool :=
  match a, b with
  | [], [] => true
  | x :: a', y :: b' => (x =? y) && bytes_eqb a' b'
  | _, _ => false
  end.

Inductive ev :=
| EVersion (v : bytes)        (* otherVersionString *)
| EDeliver (p : bytes)        (* dispatchMessage(p[0], p[1:]) *)
| EDisconnect (code : N).     (* sendDisconnect(code, ...) *)

(** ---------- version exchange ---------- *)
Definition is_ssh (l : bytes) : bool :=
  match l with 83 :: 83 :: 72 :: 45 :: _ => true | _ => false end.        (* b"SSH-" *)

(** first complete line starting with "SSH-" among the first [k] bytes; returns the line (without its
    "\n") and everything after the "\n" *)
Fixpoint scan (k : N) (acc : bytes) (b : bytes) : option (bytes * bytes) :=
  match b with
  | [] => None
  | x :: r => if k =? 0 then None
              else if x =? 10
                   then (if is_ssh (rev acc) then Some (rev acc, r) else scan (N.pred k) [] r)
                   else scan (N.pred k) (x :: acc) r
  end.

Fixpoint rstrip_cr_rev (r : bytes) : bytes :=          (* on the reversed line *)
  match r with 13 :: t => rstrip_cr_rev t | _ => r end.
Definition rstrip_cr (l : bytes) : bytes := rev (rstrip_cr_rev (rev l)).

(** p.split(b"-")[1] for a line that starts with "SSH-": the bytes after "SSH-" up to the next "-" *)
Fixpoint upto_dash (l : bytes) : bytes :=
  match l with [] => [] | x :: r => if x =? 45 then [] else x :: upto_dash r end.
Definition remote_version (l : bytes) : bytes := upto_dash (drop 4 l).
Definition supported (v : bytes) : bool :=
  bytes_eqb v [49; 46; 57; 57] || bytes_eqb v [50; 46; 48].               (* "1.99", "2.0" *)

(** ---------- sender ---------- *)
Definition pad_len (bs plen : N) : N :=
  let lp := bs - (5 + plen) mod bs in if lp <? 4 then lp + bs else lp.
(** SSHCiphers keeps the two directions apart: block size of the OUTGOING cipher (encBlockSize) and of the INCOMING
    one (decBlockSize); RFC 4253 section 7.1 negotiates them separately.  sendPacket pads to the outgoing one. *)
Record ciphers := mkcip { encBlock : N; decBlock : N }.
Definition send_pad (c : ciphers) (plen : N) : N := pad_len (encBlock c) plen.

(** packet = uint32 packet_length, byte padding_length, payload, padding *)
Definition frame (payload padding : bytes) : bytes :=
  enc32 (1 + len payload + len padding) ++ [len padding] ++ payload ++ padding.

Section Transport.
  Variables ES DS CS ZS : Type.
  Variable enc : ES -> bytes -> bytes * ES.
  Variable dec : DS -> bytes -> bytes * DS.
  Variable mac : N -> bytes -> bytes.                  (* makeMAC(seq, packet); [] for "none" *)
  Variable verify : N -> bytes -> bytes -> bool.       (* verify(seq, packet, mac) *)
  Variable comp : CS -> bytes -> bytes * CS.
  Variable decomp : ZS -> bytes -> option (bytes * ZS).
  Variables bs ms : N.                                 (* cipher block size, MAC size *)

  (** sendPacket: [payload] includes the message-type byte; [padding] are the secureRandom bytes *)
  Record sst := mks { oseq : N; es : ES; cs : CS }.
  Definition send_packet (s : sst) (payload padding : bytes) : bytes * sst :=
    let '(z, cs') := comp (cs s) payload in
    let packet := frame z padding in
    let '(ct, es') := enc (es s) packet in
    (ct ++ mac (oseq s) packet, mks (oseq s + 1) es' cs').

  (** ---------- receiver ---------- *)
  Record mode := mkm { gotv : bool; inseq : N; ds : DS; zs : ZS }.

  Definition version_step (x : mode) (b : bytes) : step_result N ev mode :=
    match scan 4096 [] b with
    | Some (line, rest) =>
        if supported (remote_version line)
        then Emit [EVersion (rstrip_cr line)] (mkm true (inseq x) (ds x) (zs x)) rest
        else Fail [EVersion (rstrip_cr line); EDisconnect 8]
    | None => if 4096 <? len b then Fail [EDisconnect 10] else Wait
    end.

  (** what getPacket does once the decrypted first block [f] and the decryptor state after it are known *)
  Inductive pres := PWait | PFail (code : N) | POk (p : bytes) (x' : mode) (rest : bytes).

  Definition packet_body (x : mode) (b f : bytes) (ds1 : DS) : pres :=
    let plen := be32 (take 4 f) in
    let padlen := nth 4 f 0 in
    if 1048576 <? plen then PFail 2 else
    if len b <? plen + 4 + ms then PWait else
    if negb ((plen + 4) mod bs =? 0) then PFail 2 else
    let encd := take (4 + plen) b in
    let b1 := drop (4 + plen) b in
    let '(rp, ds2) := dec ds1 (drop bs encd) in
    let packet := f ++ rp in
    if negb (len packet =? 4 + plen) then PFail 2 else
    let macd := take ms b1 in
    let b2 := drop ms b1 in
    if negb (ms =? 0) && negb (verify (inseq x) packet macd) then PFail 5 else
    let payload := if padlen =? 0 then [] else take (len packet - padlen - 5) (drop 5 packet) in
    match decomp (zs x) payload with
    | None => PFail 6
    | Some (p, zs') => POk p (mkm true (inseq x + 1) ds2 zs') b2
    end.

  (** the pure one-frame step (specification) *)
  Definition packet_step (x : mode) (b : bytes) : step_result N ev mode :=
    if len b <? bs then Wait else
    let '(f, ds1) := dec (ds x) (take bs b) in
    match packet_body x b f ds1 with
    | PWait => Wait
    | PFail c => Fail [EDisconnect c]
    | POk p x' rest => Emit [EDeliver p] x' rest
    end.

  Definition astep (x : mode) (b : bytes) : step_result N ev mode :=
    if gotv x then packet_step x b else version_step x b.

  (** the code as written *)
  Record cst := mkc { cbuf : bytes; cfirst : option bytes; cmode : mode; cdead : bool }.
  Inductive gres := GNone | GDisc (code : N) | GPacket (p : bytes).

  Definition with_ds (x : mode) (d : DS) : mode := mkm (gotv x) (inseq x) d (zs x).

  Definition get_packet (s : cst) : gres * cst :=
    let b := cbuf s in let x := cmode s in
    if len b <? bs then (GNone, s) else
    let '(f, ds1) := match cfirst s with Some f => (f, ds x) | None => dec (ds x) (take bs b) end in
    match packet_body x b f ds1 with
    | PWait => (GNone, mkc b (Some f) (with_ds x ds1) false)
    | PFail c => (GDisc c, mkc b None (with_ds x ds1) true)
    | POk p x' rest => (GPacket p, mkc rest None x' false)
    end.

  (** packet = getPacket(); while packet: dispatch; packet = getPacket() *)
  Fixpoint packet_loop (n : nat) (s : cst) : list ev * cst :=
    match n with
    | O => ([], s)
    | S n' =>
        match get_packet s with
        | (GNone, s') => ([], s')
        | (GDisc c, s') => ([EDisconnect c], s')
        | (GPacket p, s') =>
            if is_nil p then ([], s')
            else let '(evs, s'') := packet_loop n' s' in (EDeliver p :: evs, s'')
        end
    end.

  Definition data_received (s : cst) (data : bytes) : list ev * cst :=
    if cdead s then ([], s) else
    let b := cbuf s ++ data in
    if gotv (cmode s) then packet_loop (S (length b)) (mkc b (cfirst s) (cmode s) false)
    else match version_step (cmode s) b with
         | Wait => ([], mkc b None (cmode s) false)
         | Fail evs => (evs, mkc b None (cmode s) true)
         | Emit evs x' rest =>
             let '(evs', s') := packet_loop (S (length rest)) (mkc rest None x' false) in (evs ++ evs', s')
         end.

  Fixpoint feed_all (s : cst) (chunks : list bytes) : list ev * cst :=
    match chunks with
    | [] => ([], s)
    | c :: r => let '(e1, s1) := data_received s c in let '(e2, s2) := feed_all s1 r in (e1 ++ e2, s2)
    end.

  Definition cinit (d : DS) (z : ZS) : cst := mkc [] None (mkm false 0 d z) false.
End Transport.

(** ---------- the queue of sendPacket during a (re-)key exchange ----------
    One side of the connection.  [KStart] = this side's key-exchange state leaves NONE (sendKexInit, called by the
    application or in answer to the peer's KEXINIT; it raises and changes nothing when an exchange is already in
    progress); [KNewKeys] = MSG_NEWKEYS received (_newKeys: state back to NONE, queued messages flushed through
    sendPacket).  The key-exchange messages themselves are opaque and not part of the history.  [kwire] is the ghost
    list of application messages handed to the framing layer, in order. *)
Inductive kop := KSend (t : N) (p : bytes) | KStart | KNewKeys.
Record kst := mkk { inkex : bool; kq : list (N * bytes); kwire : list (N * bytes) }.

(** _allowedKeyExchangeMessageType *)
Definition allowed (t : N) : bool :=
  if (1 <=? t) && (t <=? 19) then negb ((t =? 5) || (t =? 6) || (t =? 7))
  else if (20 <=? t) && (t <=? 29) then negb (t =? 20)
  else (30 <=? t) && (t <=? 49).

Definition kstep (s : kst) (o : kop) : kst :=
  match o with
  | KSend t p => if inkex s && negb (allowed t) then mkk true (kq s ++ [(t, p)]) (kwire s)
                 else mkk (inkex s) (kq s) (kwire s ++ [(t, p)])
  | KStart => if inkex s then s else mkk true [] (kwire s)
  | KNewKeys => mkk false [] (kwire s ++ kq s)
  end.
Definition krun (ops : list kop) : kst := fold_left kstep ops (mkk false [] []).

Definition ksent (ops : list kop) : list (N * bytes) :=
  flat_map (fun o => match o with KSend t p => [(t, p)] | _ => [] end) ops.
Definition held (m : N * bytes) : bool := negb (allowed (fst m)).     (* must wait for the end of a key exchange *)

Definition deliveries (l : list ev) : list bytes :=
  flat_map (fun e => match e with EDeliver p => [p] | _ => [] end) l.
Definition disconnects (l : list ev) : list N :=
  flat_map (fun e => match e with EDisconnect c => [c] | _ => [] end) l.
