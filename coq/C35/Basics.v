(** C35: facts about the slicing helpers. *)
From Coq Require Import List NArith Bool Lia.
From C35 Require Import Model.
Import ListNotations.
Local Open Scope N_scope.

Lemma len_nil {A} : len (@nil A) = 0. Proof. reflexivity. Qed.
Lemma len_cons {A} (x : A) l : len (x :: l) = 1 + len l.
Proof. unfold len. cbn [length]. lia. Qed.
Lemma len_app {A} (a b : list A) : len (a ++ b) = len a + len b.
Proof. unfold len. rewrite app_length. lia. Qed.
Lemma len_0 {A} (l : list A) : len l = 0 -> l = [].
Proof. destruct l; [reflexivity|]. rewrite len_cons. lia. Qed.
Lemma len_length {A} (a b : list A) : len a < len b -> (length a < length b)%nat.
Proof. unfold len. lia. Qed.

Lemma take_drop {A} n (l : list A) : take n l ++ drop n l = l.
Proof.
  revert n. induction l as [|x r IH]; intro n; cbn; [reflexivity|].
  destruct (n =? 0); cbn; [reflexivity|]. now rewrite IH.
Qed.
Lemma len_take {A} n (l : list A) : len (take n l) = N.min n (len l).
Proof.
  revert n. induction l as [|x r IH]; intro n; cbn [take].
  - rewrite len_nil. lia.
  - destruct (N.eqb_spec n 0) as [->|Hn]; [rewrite len_nil; lia|]. rewrite !len_cons, IH. lia.
Qed.
Lemma len_drop {A} n (l : list A) : len (drop n l) = len l - n.
Proof.
  revert n. induction l as [|x r IH]; intro n; cbn [drop].
  - rewrite len_nil. lia.
  - destruct (N.eqb_spec n 0) as [->|Hn]; [lia|]. rewrite len_cons, IH. lia.
Qed.
Lemma take_all {A} n (l : list A) : len l <= n -> take n l = l.
Proof.
  intro H. pose proof (take_drop n l) as E. pose proof (len_drop n l) as L.
  assert (drop n l = []) as D by (apply len_0; lia). rewrite D, app_nil_r in E. exact E.
Qed.
Lemma drop_all {A} n (l : list A) : len l <= n -> drop n l = [].
Proof. intro H. apply len_0. rewrite len_drop. lia. Qed.

Lemma take_app_le {A} n (a c : list A) : n <= len a -> take n (a ++ c) = take n a.
Proof.
  revert n. induction a as [|x r IH]; intros n H.
  - rewrite len_nil in H. assert (n = 0) as -> by lia. destruct c; reflexivity.
  - cbn [app take]. destruct (N.eqb_spec n 0); [reflexivity|]. rewrite IH; [reflexivity|]. rewrite len_cons in H. lia.
Qed.
Lemma drop_app_le {A} n (a c : list A) : n <= len a -> drop n (a ++ c) = drop n a ++ c.
Proof.
  revert n. induction a as [|x r IH]; intros n H.
  - rewrite len_nil in H. assert (n = 0) as -> by lia. destruct c; reflexivity.
  - cbn [app drop]. destruct (N.eqb_spec n 0); [reflexivity|]. rewrite IH; [reflexivity|]. rewrite len_cons in H. lia.
Qed.
Lemma take_app_exact {A} (a c : list A) : take (len a) (a ++ c) = a.
Proof. rewrite take_app_le by lia. apply take_all. lia. Qed.
Lemma drop_app_exact {A} (a c : list A) : drop (len a) (a ++ c) = c.
Proof. rewrite drop_app_le by lia. rewrite drop_all by lia. reflexivity. Qed.

Lemma bytes_eqb_refl a : bytes_eqb a a = true.
Proof. induction a as [|x r IH]; [reflexivity|]. cbn. now rewrite N.eqb_refl, IH. Qed.

(** the version-line scanner is stable under appended bytes *)
Lemma scan_app k : forall b acc c l r, scan k acc b = Some (l, r) -> scan k acc (b ++ c) = Some (l, r ++ c).
Proof.
  intros b. revert k. induction b as [|x t IH]; intros k acc c l r H; [discriminate|].
  cbn [scan app] in *. destruct (k =? 0); [discriminate|].
  destruct (x =? 10).
  - destruct (is_ssh (rev acc)); [inversion H; reflexivity|]. apply IH, H.
  - apply IH, H.
Qed.
Lemma scan_none_app k : forall b acc c, scan k acc b = None -> k <= len b -> scan k acc (b ++ c) = None.
Proof.
  intros b. revert k. induction b as [|x t IH]; intros k acc c H Hk.
  - rewrite len_nil in Hk. assert (k = 0) as -> by lia. destruct c; reflexivity.
  - cbn [scan app] in *. destruct (N.eqb_spec k 0); [reflexivity|]. rewrite len_cons in Hk.
    destruct (x =? 10).
    + destruct (is_ssh (rev acc)); [discriminate|]. apply IH; [exact H|lia].
    + apply IH; [exact H|lia].
Qed.
Lemma scan_shrinks k : forall b acc l r, scan k acc b = Some (l, r) -> (length r < length b)%nat.
Proof.
  intros b. revert k. induction b as [|x t IH]; intros k acc l r H; [discriminate|].
  cbn [scan] in H. destruct (k =? 0); [discriminate|]. cbn [length].
  destruct (x =? 10).
  - destruct (is_ssh (rev acc)); [inversion H; subst; lia|]. apply IH in H. lia.
  - apply IH in H. lia.
Qed.
