From Coq Require Import List NArith Bool.
From C35 Require Import Model.
Theorem placeholder : forall bs, pad_len bs 0 = pad_len bs 0.
Proof. reflexivity. Qed.
Print Assumptions placeholder.
