(** C35 property theorems (partial: ciphers, MACs and zlib are oracles, see the hypotheses).

    [feed_all ... chunks] is the receiver AS WRITTEN (getPacket with its cached first block and stateful
    decryptor, the [while packet:] loop of dataReceived, the repaired version-line search) fed the deliveries
    [chunks]; [spec_parse] iterates a pure one-frame step over the WHOLE stream. *)
From Coq Require Import List NArith Bool.
From TwLib Require Import Seg.
From C35 Require Import Model Proofs Roundtrip Rekey.
Import ListNotations.
Local Open Scope N_scope.

(** For EVERY cipher/MAC/decompression oracle (no hypothesis on them at all), block size > 0, MAC size,
    start mode (before or after the version exchange) and EVERY way of cutting a byte stream into
    deliveries — banner lines, the version line, block boundaries and MACs may be split anywhere — the
    receiver's events (version string, payloads, DISCONNECT codes) are those of the whole-stream parse.
    Side condition: no packet of the stream decodes to an empty payload (dataReceived's [while packet:]
    stops at one; every packet sendPacket frames carries at least its message-type byte). *)
Theorem receiver_is_segmentation_invariant :
  forall (DS ZS : Type) (dec : DS -> bytes -> bytes * DS) (verify : N -> bytes -> bytes -> bool)
         (decomp : ZS -> bytes -> option (bytes * ZS)) (bs ms : N),
  0 < bs ->
  forall (x0 : mode DS ZS) (chunks : list bytes) (stream : bytes),
  concat chunks = stream ->
  astep DS ZS dec verify decomp bs ms x0 [] = Wait ->
  Forall (fun e => match e with EDeliver [] => False | _ => True end)
         (fst (spec_parse DS ZS dec verify decomp bs ms x0 stream)) ->
  fst (feed_all DS ZS dec verify decomp bs ms (mkc DS ZS [] None x0 false) chunks)
  = fst (spec_parse DS ZS dec verify decomp bs ms x0 stream).
Proof. exact any_segmentation. Qed.
Print Assumptions receiver_is_segmentation_invariant.

(** Full statement: for any payloads, any supported cipher x MAC x compression, any segmentation of the
    sender's stream INCLUDING banner lines and the version line, exactly the payloads are delivered in order.
    Proved here from the state reached after the version line ([gotv = true]); the version phase is covered
    by the previous theorem and by the correspondence run only.  Hypotheses: block size >= 8 (every cipher of
    the transport, and "none"), the three oracle contracts below, padding of the length sendPacket computes,
    packets within the receiver's 1 MiB limit, non-empty payloads. *)
Theorem payloads_delivered_in_order_any_segmentation_partial :
  forall (ES DS CS ZS : Type) (enc : ES -> bytes -> bytes * ES) (dec : DS -> bytes -> bytes * DS)
         (mac : N -> bytes -> bytes) (verify : N -> bytes -> bytes -> bool)
         (comp : CS -> bytes -> bytes * CS) (decomp : ZS -> bytes -> option (bytes * ZS)) (bs ms : N),
  8 <= bs ->
  forall (csync : ES -> DS -> Prop) (zsync : CS -> ZS -> Prop),
  (* cipher: dec (enc x) = x on synchronised states, first block decryptable on its own, length kept *)
  (forall e d x y e', csync e d -> enc e x = (y, e') -> bs <= len x -> len x mod bs = 0 ->
     len y = len x /\
     exists d1 d2, dec d (take bs y) = (take bs x, d1) /\ dec d1 (drop bs y) = (drop bs x, d2) /\ csync e' d2) ->
  (* MAC: a genuine MAC verifies and has the negotiated size *)
  (forall seq p, verify seq p (mac seq p) = true /\ len (mac seq p) = ms) ->
  (* compression: decompress is the streaming inverse of compress *)
  (forall c z x y c', zsync c z -> comp c x = (y, c') -> exists z', decomp z y = Some (x, z') /\ zsync c' z') ->
  forall (items : list (bytes * bytes)) (seq : N) e c d z (chunks : list bytes),
  csync e d -> zsync c z ->
  all_sendable ES CS enc mac comp bs (mks ES CS seq e c) items ->
  Forall (fun it => fst it <> []) items ->
  concat chunks = fst (send_all ES CS enc mac comp (mks ES CS seq e c) items) ->
  fst (feed_all DS ZS dec verify decomp bs ms (mkc DS ZS [] None (mkm DS ZS true seq d z) false) chunks)
  = map (fun it => EDeliver (fst it)) items.
Proof.
  intros ES DS CS ZS enc dec mac verify comp decomp bs ms Hbs csync zsync H1 H2 H3.
  exact (delivered_any_segmentation ES DS CS ZS enc dec mac verify comp decomp bs ms Hbs csync zsync H1 H2 H3).
Qed.
Print Assumptions payloads_delivered_in_order_any_segmentation_partial.

(** Full statement: altering any byte of a MAC-protected packet causes a disconnect and the altered payload
    is never delivered.  Proved: (1) a packet is delivered only if the MAC verified over the current sequence
    number and exactly the decrypted packet bytes, and the sequence number then advances by one; (2) if that
    verification fails the outcome is never a delivery: DISCONNECT 5 (MAC error), DISCONNECT 2 (the altered
    length field is inconsistent) or waiting for the bytes the altered length field asks for.  That an
    altered packet fails verification is the (cryptographic) ideal-MAC hypothesis, not a theorem. *)
Theorem tampered_packet_disconnects_and_not_delivered_partial :
  forall (DS ZS : Type) (dec : DS -> bytes -> bytes * DS) (verify : N -> bytes -> bytes -> bool)
         (decomp : ZS -> bytes -> option (bytes * ZS)) (bs ms : N) (x : mode DS ZS) (b f : bytes) (ds1 : DS),
  ms <> 0 ->
  let plen := be32 (take 4 f) in
  let packet := f ++ fst (dec ds1 (drop bs (take (4 + plen) b))) in
  let macd := take ms (drop (4 + plen) b) in
  (forall p x' rest, packet_body DS ZS dec verify decomp bs ms x b f ds1 = POk DS ZS p x' rest ->
     verify (inseq DS ZS x) packet macd = true /\ inseq DS ZS x' = inseq DS ZS x + 1) /\
  (verify (inseq DS ZS x) packet macd = false ->
     match packet_body DS ZS dec verify decomp bs ms x b f ds1 with
     | POk _ _ _ _ _ => False | PWait _ _ => True | PFail _ _ c => c = 2 \/ c = 5 end).
Proof.
  intros DS ZS dec verify decomp bs ms x b f ds1 Hms. cbv zeta. split.
  - intros p x' rest H. exact (delivered_mac_verified DS ZS dec verify decomp bs ms x b f ds1 p x' rest H Hms).
  - exact (mac_failure_disconnects DS ZS dec verify decomp bs ms x b f ds1 Hms).
Qed.
Print Assumptions tampered_packet_disconnects_and_not_delivered_partial.

(** once DISCONNECT has been sent nothing is delivered any more *)
Theorem nothing_delivered_after_disconnect :
  forall (DS ZS : Type) (dec : DS -> bytes -> bytes * DS) (verify : N -> bytes -> bytes -> bool)
         (decomp : ZS -> bytes -> option (bytes * ZS)) (bs ms : N) (c : cst DS ZS) (data : bytes),
  cdead DS ZS c = true -> data_received DS ZS dec verify decomp bs ms c data = ([], c).
Proof. exact dead_absorbs. Qed.
Print Assumptions nothing_delivered_after_disconnect.

(** sendPacket's framing (RFC 4253 section 6): total length a multiple of the block size, 4..bs+3 padding bytes *)
Theorem sender_framing_wellformed : forall bs n, 4 <= bs ->
  (5 + n + pad_len bs n) mod bs = 0 /\ 4 <= pad_len bs n /\ pad_len bs n <= bs + 3.
Proof. exact pad_len_ok. Qed.
Print Assumptions sender_framing_wellformed.

(** Re-keying: for every history of sendPacket calls, key-exchange starts and NEWKEYS arrivals on one side (any number
    of re-keys; the key-exchange messages themselves are opaque): the messages that have to wait for the end of a key
    exchange ([held]: every service message) go to the framing layer in exactly the order they were handed to
    sendPacket, those already sent followed by those still queued; the messages allowed during key exchange go out at
    once, in order; and whenever no key exchange is in progress nothing is queued. *)
Theorem payloads_sent_in_send_order_across_rekeys : forall ops,
  let s := krun ops in
  filter held (kwire s) ++ kq s = filter held (ksent ops) /\
  filter (fun m => negb (held m)) (kwire s) = filter (fun m => negb (held m)) (ksent ops) /\
  (inkex s = false -> kq s = [] /\ filter held (kwire s) = filter held (ksent ops)).
Proof.
  intros ops s. destruct (KInv_reach ops) as [Q I H F]. fold s in Q, I, H, F. repeat split; auto.
  rewrite (I H0), app_nil_r in H. exact H.
Qed.
Print Assumptions payloads_sent_in_send_order_across_rekeys.

(** The block size sendPacket pads to is that of the sender's OUTGOING cipher ([encBlock]); the incoming one
    ([decBlock]) plays no role: for every pair of block sizes, the framed packet is a whole number of outgoing
    cipher blocks, its packet_length field is its length minus 4, and it carries 4 .. encBlock+3 padding bytes. *)
Theorem packet_length_is_multiple_of_the_senders_enc_block : forall (c : ciphers) (z padding : bytes),
  4 <= encBlock c -> len padding = send_pad c (len z) -> len (frame z padding) < 4294967296 ->
  len (frame z padding) mod encBlock c = 0 /\
  be32 (take 4 (frame z padding)) + 4 = len (frame z padding) /\
  nth 4 (frame z padding) 0 = len padding /\ 4 <= len padding /\ len padding <= encBlock c + 3.
Proof. exact frame_enc_block. Qed.
Print Assumptions packet_length_is_multiple_of_the_senders_enc_block.

(** Re-keying: if at every NEWKEYS BOTH ends replace the cipher and the compression context of a direction by fresh,
    synchronised ones (sequence numbers running on), the payloads of all key generations are delivered in order.
    (Hypotheses as in payloads_delivered_in_order_any_segmentation_partial; [epochs_ok] asks synchronised contexts
    at the start of EVERY generation — a decompressor kept from the previous generation does not meet it, see
    Example stale_inflate_context_fails in Rekey.v.) *)
Theorem payloads_delivered_across_rekeys_partial :
  forall (ES DS CS ZS : Type) (enc : ES -> bytes -> bytes * ES) (dec : DS -> bytes -> bytes * DS)
         (mac : N -> bytes -> bytes) (verify : N -> bytes -> bytes -> bool)
         (comp : CS -> bytes -> bytes * CS) (decomp : ZS -> bytes -> option (bytes * ZS)) (bs ms : N),
  8 <= bs ->
  forall (csync : ES -> DS -> Prop) (zsync : CS -> ZS -> Prop),
  (forall e d x y e', csync e d -> enc e x = (y, e') -> bs <= len x -> len x mod bs = 0 ->
     len y = len x /\
     exists d1 d2, dec d (take bs y) = (take bs x, d1) /\ dec d1 (drop bs y) = (drop bs x, d2) /\ csync e' d2) ->
  (forall seq p, verify seq p (mac seq p) = true /\ len (mac seq p) = ms) ->
  (forall c z x y c', zsync c z -> comp c x = (y, c') -> exists z', decomp z y = Some (x, z') /\ zsync c' z') ->
  forall (eps : list (epoch ES DS CS ZS)) (seq : N),
  epochs_ok ES DS CS ZS enc mac comp bs csync zsync seq eps ->
  parse_epochs ES DS CS ZS enc dec mac verify comp decomp bs ms seq eps
  = flat_map (fun ep => map (fun it => EDeliver (fst it)) (ep_items ES DS CS ZS ep)) eps.
Proof.
  intros ES DS CS ZS enc dec mac verify comp decomp bs ms Hbs csync zsync H1 H2 H3.
  exact (epochs_roundtrip ES DS CS ZS enc dec mac verify comp decomp bs ms Hbs csync zsync H1 H2 H3).
Qed.
Print Assumptions payloads_delivered_across_rekeys_partial.
