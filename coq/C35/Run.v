(** C35: printers and the transcript instances of the oracles, used by the correspondence check only.
    The real decryptor / decompressor answers recorded by the harness are replayed in call order; the MAC oracle is
    the ideal MAC over the (seq, packet, MAC) triples the real sender produced. *)
From Coq Require Import List NArith Bool String.
From TwLib Require Import Show Seg.
From C35 Require Import Model.
Import ListNotations.
Local Open Scope N_scope.

Definition dec_t (st : list bytes) (ct : bytes) : bytes * list bytes :=
  match st with o :: r => (o, r) | [] => (ct, []) end.
Definition decomp_t (st : list (option bytes)) (p : bytes) : option (bytes * list (option bytes)) :=
  match st with
  | Some q :: r => Some (q, r)
  | None :: r => None
  | [] => Some (p, [])
  end.
Definition verify_t (tbl : list (N * bytes * bytes)) (seq : N) (data m : bytes) : bool :=
  existsb (fun t => let '(s, d, m') := t in (s =? seq) && bytes_eqb d data && bytes_eqb m' m) tbl.

Local Open Scope string_scope.
Definition show_ev (e : ev) : string :=
  match e with
  | EVersion v => "V" ++ show_hex v
  | EDeliver p => "P" ++ show_hex p
  | EDisconnect c => "X" ++ show_N c
  end.

(** [bs] = block size of the cipher of the direction under test (the sender's encBlockSize = the receiver's
    decBlockSize), [sdec] = the sender's OWN incoming block size (must not influence anything).
    case = ((bs, ms, sdec), (dec transcript, verify table, decomp transcript), sender items (z, padding), chunks) *)
Definition run_show
  (c : (N * N * N) * (list bytes * list (N * bytes * bytes) * list (option bytes)) * list (bytes * bytes) * list bytes)
  : string :=
  let '((bs, ms, sdec), (dt, vt, zt), items, chunks) := c in
  let frames := map (fun kit => "S" ++ show_hex (frame (fst (snd kit)) (snd (snd kit))) ++ ":"
                                ++ show_N (send_pad (mkcip bs sdec) (len (fst (snd kit)))) ++ ":" ++ show_nat (fst kit))
                    (combine (List.seq 0 (List.length items)) items) in
  let '(evs, s) := feed_all (list bytes) (list (option bytes)) dec_t (verify_t vt) decomp_t bs ms
                            (cinit (list bytes) (list (option bytes)) dt zt) chunks in
  String.concat " " (frames ++ map show_ev evs).

(** re-key cases: one history per side; prints what each side put on the wire (application messages, in order) *)
Definition show_msg (m : N * bytes) : string := show_N (fst m) ++ ":" ++ show_hex (snd m).
Definition show_side (ops : list kop) : string :=
  let s := krun ops in
  String.concat "," (map show_msg (kwire s)) ++ "|q=" ++ String.concat "," (map show_msg (kq s)).
Definition run_rekey (c : list kop * list kop) : string :=
  "c>" ++ show_side (fst c) ++ " s>" ++ show_side (snd c).

Definition run_any (c : ((N * N * N) * (list bytes * list (N * bytes * bytes) * list (option bytes)) * list (bytes * bytes) * list bytes)
                        + (list kop * list kop)) : string :=
  match c with inl a => run_show a | inr b => run_rekey b end.
