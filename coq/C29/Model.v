(** C29: the DATA-sending machinery of twisted.web._http2.H2Connection / H2Stream over the window bookkeeping the
    h2 library does for it:
      _sendPrioritisedData (one iteration = [run_iter]; parked on _sendingDeferred when every stream is blocked),
      writeDataToStream / endRequest (queue, unblock, wake a parked sender, flowControlBlocked),
      _handleWindowUpdate (stream and connection level), H2Stream.windowUpdated / flowControlBlocked with a
      registered push producer, _requestDone, SETTINGS_INITIAL_WINDOW_SIZE deltas (also below the bytes in flight),
      SETTINGS_MAX_FRAME_SIZE.
    Data is length-abstracted: a queued chunk is its length; [None] is the end-of-stream sentinel.
    Applications are scripted: a static response (all chunks written and finished while the request is rendered), a
    manual one (the history says when the next chunk is written and when the response is finished) or a push
    producer that writes chunks of one size while it is not paused and finishes after the last one.

    This is the model of the REPAIRED code: fix 1323982 (while the chosen stream's window is negative nothing is
    sent and the loop reschedules itself) and fixes/C29-window-reopen-wakes-sender.patch (a WINDOW_UPDATE wakes a
    parked sending loop; a SETTINGS_INITIAL_WINDOW_SIZE change is handled like a window update for all streams).  The priority tree is an oracle: [adv_on i] serves stream [i];
    [run_iter] uses the round-robin of the vendor/priority shim.  Not modelled: h2's framing and HPACK, header
    frames, the priority algorithm, transport back-pressure (_consumerBlocked), request bodies. *)
From Coq Require Import List ZArith Bool Arith.
Import ListNotations.
Local Open Scope Z_scope.

Record stream := mkS {
  sid : nat;
  q : list (option Z);
  swin : Z;
  blocked : bool;
  sent : Z;
  body : Z;
  finished : bool;
  hasprod : bool;
  producing : bool;
  pleft : nat;
  pchunk : Z;
  mleft : list Z;
  lazy : bool
}.

Definition set_q (v : list (option Z)) (x : stream) : stream := mkS (sid x) v (swin x) (blocked x) (sent x) (body x) (finished x) (hasprod x) (producing x) (pleft x) (pchunk x) (mleft x) (lazy x).
Definition set_swin (v : Z) (x : stream) : stream := mkS (sid x) (q x) v (blocked x) (sent x) (body x) (finished x) (hasprod x) (producing x) (pleft x) (pchunk x) (mleft x) (lazy x).
Definition set_blocked (v : bool) (x : stream) : stream := mkS (sid x) (q x) (swin x) v (sent x) (body x) (finished x) (hasprod x) (producing x) (pleft x) (pchunk x) (mleft x) (lazy x).
Definition set_sent (v : Z) (x : stream) : stream := mkS (sid x) (q x) (swin x) (blocked x) v (body x) (finished x) (hasprod x) (producing x) (pleft x) (pchunk x) (mleft x) (lazy x).
Definition set_body (v : Z) (x : stream) : stream := mkS (sid x) (q x) (swin x) (blocked x) (sent x) v (finished x) (hasprod x) (producing x) (pleft x) (pchunk x) (mleft x) (lazy x).
Definition set_finished (v : bool) (x : stream) : stream := mkS (sid x) (q x) (swin x) (blocked x) (sent x) (body x) v (hasprod x) (producing x) (pleft x) (pchunk x) (mleft x) (lazy x).
Definition set_hasprod (v : bool) (x : stream) : stream := mkS (sid x) (q x) (swin x) (blocked x) (sent x) (body x) (finished x) v (producing x) (pleft x) (pchunk x) (mleft x) (lazy x).
Definition set_producing (v : bool) (x : stream) : stream := mkS (sid x) (q x) (swin x) (blocked x) (sent x) (body x) (finished x) (hasprod x) v (pleft x) (pchunk x) (mleft x) (lazy x).
Definition set_pleft (v : nat) (x : stream) : stream := mkS (sid x) (q x) (swin x) (blocked x) (sent x) (body x) (finished x) (hasprod x) (producing x) v (pchunk x) (mleft x) (lazy x).
Definition set_pchunk (v : Z) (x : stream) : stream := mkS (sid x) (q x) (swin x) (blocked x) (sent x) (body x) (finished x) (hasprod x) (producing x) (pleft x) v (mleft x) (lazy x).
Definition set_mleft (v : list Z) (x : stream) : stream := mkS (sid x) (q x) (swin x) (blocked x) (sent x) (body x) (finished x) (hasprod x) (producing x) (pleft x) (pchunk x) v (lazy x).
Definition set_lazy (v : bool) (x : stream) : stream := mkS (sid x) (q x) (swin x) (blocked x) (sent x) (body x) (finished x) (hasprod x) (producing x) (pleft x) (pchunk x) (mleft x) v.

Inductive ev :=
| EData (i : nat) (n sw cw mf : Z)   (* DATA frame of n bytes on stream i; ghost: stream window, connection window,
                                        max frame size just before sending *)
| EEnd (i : nat) (snt bdy : Z)       (* END_STREAM on stream i; ghost: bytes sent, bytes written *)
| EPause (i : nat)                   (* producer.pauseProducing() of stream i *)
| EResume (i : nat).                 (* producer.resumeProducing() of stream i, called by windowUpdated *)

Record st := mk {
  streams : list stream;    (* insertion order of the priority tree and of H2Connection.streams *)
  cwin : Z;
  maxf : Z;
  iw : Z;                   (* the peer's SETTINGS_INITIAL_WINDOW_SIZE *)
  last : option nat;        (* scheduler state of the shim: stream served last *)
  scheduled : bool;         (* a callLater(0, _sendPrioritisedData) is pending *)
  log : list ev;            (* newest first *)
  tblocked : bool;          (* the transport has paused the connection (_consumerBlocked is set) *)
  chained : bool            (* the loop waits behind the transport (chained to _consumerBlocked); neither scheduled nor
                               chained = parked on _sendingDeferred *)
}.

(** what the application of a stream does *)
Inductive application :=
| Static (chunks : list Z)          (* writes every chunk and finishes while the request is rendered *)
| Manual (chunks : list Z)          (* writes / finishes when the history says so *)
| Producer (chunk : Z) (n : nat)    (* push producer registered and started while the request is rendered *)
| LazyProducer (pre chunk : Z) (n : nat)
      (* like PreProducer, but the producer checks whether it was paused BEFORE finishing: if its last write paused
         it, it finishes only when it is resumed (request.finish() from resumeProducing without writing) *)
| PreProducer (pre chunk : Z) (n : nat).
      (* writes [pre] bytes directly, THEN registers a push producer for the rest and starts it *)

Inductive op :=
| Adv                       (* the reactor runs the pending _sendPrioritisedData call *)
| WU (target : nat) (inc : Z)   (* WINDOW_UPDATE; target 0 = connection *)
| SetIW (v : Z)             (* SETTINGS_INITIAL_WINDOW_SIZE := v *)
| SetMF (v : Z)             (* SETTINGS_MAX_FRAME_SIZE := v *)
| AppWrite (i : nat)        (* the application of manual stream i writes its next chunk *)
| AppFinish (i : nat)       (* the application of manual stream i calls request.finish() *)
| Req (i : nat) (a : application)    (* the request for stream i arrives now (not before the loop first ran) *)
| TPause                    (* the transport calls pauseProducing() on the connection (ignored while already paused) *)
| TResume                   (* the transport calls resumeProducing() *)
| Drain.                    (* the reactor keeps running pending calls until the loop parks or nothing has been sent for
                               [quiet_limit] consecutive iterations (a stream with an exhausted window keeps the loop
                               spinning, so "no pending call" alone is not a quiescence test); at most 300 calls *)

Definition set_streams (l : list stream) (s : st) : st := mk l (cwin s) (maxf s) (iw s) (last s) (scheduled s) (log s) (tblocked s) (chained s).
Definition emit (e : ev) (s : st) : st := mk (streams s) (cwin s) (maxf s) (iw s) (last s) (scheduled s) (e :: log s) (tblocked s) (chained s).

Definition upd_stream (i : nat) (f : stream -> stream) (l : list stream) : list stream :=
  map (fun x => if Nat.eqb (sid x) i then f x else x) l.
Definition find_stream (i : nat) (l : list stream) : option stream :=
  find (fun x => Nat.eqb (sid x) i) l.
Definition remove_stream (i : nat) (l : list stream) : list stream :=
  filter (fun x => negb (Nat.eqb (sid x) i)) l.
Definition upd (i : nat) (f : stream -> stream) (s : st) : st := set_streams (upd_stream i f (streams s)) s.

Definition sum_data (l : list (option Z)) : Z :=
  fold_right (fun c acc => match c with Some n => n + acc | None => acc end) 0 l.

(** conn.local_flow_control_window(stream) and H2Connection.remainingOutboundWindow(stream) *)
Definition locwin (cw : Z) (x : stream) : Z := Z.min (swin x) cw.
Definition rem_out (cw : Z) (x : stream) : Z := locwin cw x - sum_data (q x).

(** H2Stream.flowControlBlocked *)
Definition flow_blocked (i : nat) (s : st) : st :=
  match find_stream i (streams s) with
  | Some x => if hasprod x && producing x then emit (EPause i) (upd i (set_producing false) s) else s
  | None => s
  end.

(** the DATA frame length the loop chooses for the head chunk of stream y *)
Definition frame_len (cw mf : Z) (y : stream) : Z :=
  match q y with
  | Some n :: _ => Z.min n (Z.max 0 (Z.min mf (locwin cw y)))
  | _ => 0
  end.

(** popleft, cut at the frame size, push the excess back, send_data, block when the queue is empty *)
Definition send_on (cw mf : Z) (y : stream) : stream :=
  match q y with
  | Some n :: rest =>
      let mfs := Z.max 0 (Z.min mf (locwin cw y)) in
      let n1 := Z.min n mfs in
      if Z.ltb 0 n1 then
        let rest1 := if Z.ltb mfs n then Some (n - mfs) :: rest else rest in
        set_sent (sent y + n1) (set_blocked (match rest1 with [] => true | _ => blocked y end)
          (set_swin (swin y - n1) (set_q rest1 y)))
      else y            (* nothing can be sent: the whole chunk is pushed back *)
  | _ => y
  end.

Definition resched (i : nat) (s : st) : st := mk (streams s) (cwin s) (maxf s) (iw s) (Some i) true (log s) (tblocked s) false.

(** one iteration of _sendPrioritisedData serving stream i *)
Definition adv_on (i : nat) (s : st) : st :=
  match find_stream i (streams s) with
  | None => resched i s                                     (* unreachable: the tree only knows open streams *)
  | Some x =>
      if Z.ltb (locwin (cwin s) x) 0 then resched i s     (* negative window: wait (fix 1323982) *)
      else
      match q x with
      | [] => resched i s                                   (* unreachable: an unblocked stream has a queue *)
      | None :: _ =>
          (* end_stream + _requestDone *)
          resched i (emit (EEnd i (sent x) (body x)) (set_streams (remove_stream i (streams s)) s))
      | Some _ :: _ =>
          let n1 := frame_len (cwin s) (maxf s) x in
          let s1 := if Z.ltb 0 n1
                    then mk (upd_stream i (send_on (cwin s) (maxf s)) (streams s)) (cwin s - n1) (maxf s) (iw s)
                            (last s) (scheduled s) (EData i n1 (swin x) (cwin s) (maxf s) :: log s) (tblocked s) (chained s)
                    else s in
          let s2 := match find_stream i (streams s1) with
                    | Some y => if Z.leb (rem_out (cwin s1) y) 0 then flow_blocked i s1 else s1
                    | None => s1
                    end in
          resched i s2
      end
  end.

(** the shim's round robin: first unblocked stream after the one served last, in insertion order *)
Fixpoint split_after (i : nat) (l : list stream) : option (list stream * list stream) :=
  match l with
  | [] => None
  | x :: r => if Nat.eqb (sid x) i then Some ([x], r)
              else match split_after i r with
                   | Some (a, b) => Some (x :: a, b)
                   | None => None
                   end
  end.
Definition rotation (s : st) : list stream :=
  match last s with
  | None => streams s
  | Some i => match split_after i (streams s) with
              | Some (upto, after) => after ++ upto
              | None => streams s
              end
  end.
Definition pick (s : st) : option nat :=
  match find (fun x => negb (blocked x)) (rotation s) with
  | Some x => Some (sid x)
  | None => None
  end.

(** one call of _sendPrioritisedData *)
Definition run_iter (s : st) : st :=
  match pick s with
  | Some i =>
      if tblocked s
      then (* "Wait behind the transport": the loop chains itself to _consumerBlocked (the tree has already moved on) *)
           mk (streams s) (cwin s) (maxf s) (iw s) (Some i) false (log s) true true
      else adv_on i s
  | None => mk (streams s) (cwin s) (maxf s) (iw s) (last s) false (log s) (tblocked s) false   (* DeadlockError: park *)
  end.

(** fire _sendingDeferred if the sender is parked *)
Definition fire (s : st) : st := if scheduled s || chained s then s else run_iter s.

(** the queue side of writeDataToStream / endRequest (nothing is ever queued behind the end sentinel) *)
Definition app_chunk (n : Z) (y : stream) : stream :=
  if finished y then y else set_body (body y + n) (set_q (q y ++ [Some n]) y).
Definition app_end (y : stream) : stream :=
  if finished y then y else set_blocked false (set_finished true (set_q (q y ++ [None]) y)).

(** writeDataToStream *)
Definition write_to (i : nat) (n : Z) (s : st) : st :=
  match find_stream i (streams s) with
  | None => s
  | Some x0 =>
      if finished x0 then s else
      let s1 := upd i (app_chunk n) s in
      let s2 := match find_stream i (streams s1) with
                | Some x => if Z.ltb 0 (locwin (cwin s1) x) then fire (upd i (set_blocked false) s1) else s1
                | None => s1
                end in
      match find_stream i (streams s2) with
      | Some x => if Z.leb (rem_out (cwin s2) x) 0 then flow_blocked i s2 else s2
      | None => s2
      end
  end.

(** endRequest *)
Definition end_req (i : nat) (s : st) : st :=
  match find_stream i (streams s) with
  | None => s
  | Some x0 =>
      if finished x0 then s else
      fire (upd i app_end s)
  end.

(** the push producer: write chunks while not paused; after the last one unregister and finish *)
Fixpoint prod_loop (fuel : nat) (i : nat) (s : st) : st :=
  match fuel with
  | O => s
  | S f =>
      match find_stream i (streams s) with
      | Some x =>
          if hasprod x && producing x then
            match pleft x with
            | O => s
            | S k => prod_loop f i (write_to i (pchunk x) (upd i (set_pleft k) s))
            end
          else s
      | None => s
      end
  end.

Definition prod_run (i : nat) (s : st) : st :=
  let fuel := match find_stream i (streams s) with Some x => S (pleft x) | None => O end in
  let s1 := prod_loop fuel i s in
  match find_stream i (streams s1) with
  | Some x =>
      if hasprod x && Nat.eqb (pleft x) 0 && (negb (lazy x) || producing x)
      then end_req i (upd i (fun y => set_producing false (set_hasprod false y)) s1)
      else s1
  | None => s1
  end.

(** H2Stream.windowUpdated *)
Definition window_updated (i : nat) (s : st) : st :=
  match find_stream i (streams s) with
  | Some x =>
      if hasprod x && negb (producing x) && Z.ltb 0 (rem_out (cwin s) x)
      then prod_run i (emit (EResume i) (upd i (set_producing true) s))
      else s
  | None => s
  end.

Definition unblock_if_queued (i : nat) (s : st) : st :=
  upd i (fun y => match q y with [] => y | _ => set_blocked false y end) s.

(** the stream-0 branch of _handleWindowUpdate:
    for stream in self.streams.values(): stream.windowUpdated(); unblock it if it has queued data *)
Definition conn_window_updated (s : st) : st :=
  fold_left (fun acc i => unblock_if_queued i (window_updated i acc)) (map sid (streams s)) s.

(** the request for stream i arrives: inserted and blocked in the priority tree, then rendered *)
Definition new_stream (i : nat) (w : Z) (a : application) : stream :=
  match a with
  | Static cs => mkS i [] w true 0 0 false false false O 0 cs false
  | Manual cs => mkS i [] w true 0 0 false false false O 0 cs false
  | Producer c n => mkS i [] w true 0 0 false true true n c [] false
  | PreProducer _ c n => mkS i [] w true 0 0 false false false n c [] false
  | LazyProducer _ c n => mkS i [] w true 0 0 false false false n c [] true
  end.

Definition app_write (i : nat) (s : st) : st :=
  match find_stream i (streams s) with
  | Some x => match mleft x with
              | [] => s
              | n :: r => if finished x then s else write_to i n (upd i (set_mleft r) s)
              end
  | None => s
  end.

Definition app_finish (i : nat) (s : st) : st :=
  match find_stream i (streams s) with
  | Some x => if hasprod x then s else end_req i s
  | None => s
  end.

Definition render (i : nat) (a : application) (s : st) : st :=
  match a with
  | Static cs => app_finish i (fold_left (fun acc _ => app_write i acc) cs s)
  | Manual _ => s
  | Producer _ _ => prod_run i s
  | PreProducer pre _ _ | LazyProducer pre _ _ =>
      (* request.write(preamble); request.registerProducer(p, True); p starts producing *)
      let s1 := if Z.ltb 0 pre then write_to i pre s else s in
      prod_run i (upd i (fun y => set_producing true (set_hasprod true y)) s1)
  end.

Definition request (i : nat) (a : application) (s : st) : st :=
  render i a (set_streams (streams s ++ [new_stream i (iw s) a]) s).



Definition quiet_limit : nat := 12.

Fixpoint drain (fuel quiet : nat) (s : st) : st :=
  match fuel with
  | O => s
  | S f =>
      if scheduled s then
        let s1 := run_iter s in
        if Nat.eqb (List.length (log s1)) (List.length (log s))
        then (if Nat.leb quiet_limit (S quiet) then s1 else drain f (S quiet) s1)
        else drain f O s1
      else s
  end.

Definition step (s : st) (o : op) : st :=
  match o with
  | Adv => if scheduled s then run_iter s else s
  | WU O inc => fire (conn_window_updated (mk (streams s) (cwin s + inc) (maxf s) (iw s) (last s) (scheduled s) (log s) (tblocked s) (chained s)))
  | WU i inc =>
      match find_stream i (streams s) with
      | None => fire s
      | Some _ => fire (window_updated i (unblock_if_queued i (upd i (fun y => set_swin (swin y + inc) y) s)))
      end
  | SetIW v =>
      (* h2 shifts every stream window by the delta; _handleRemoteSettingsChanged then treats it as a window update
         that applies to all streams *)
      fire (conn_window_updated
              (mk (map (fun y => set_swin (swin y + (v - iw s)) y) (streams s))
                  (cwin s) (maxf s) v (last s) (scheduled s) (log s) (tblocked s) (chained s)))
  | SetMF v => mk (streams s) (cwin s) v (iw s) (last s) (scheduled s) (log s) (tblocked s) (chained s)
  | AppWrite i => app_write i s
  | AppFinish i => app_finish i s
  | Req i a => request i a s
  | Drain => drain 300 0 s
  | TPause => mk (streams s) (cwin s) (maxf s) (iw s) (last s) (scheduled s) (log s) true (chained s)
  | TResume =>
      if tblocked s then
        let s1 := mk (streams s) (cwin s) (maxf s) (iw s) (last s) (scheduled s) (log s) false false in
        if chained s then run_iter s1 else s1
      else s
  end.


Fixpoint setup (k : nat) (apps : list application) (s : st) : st :=
  match apps with
  | [] => s
  | a :: r =>
      let i := (2 * k + 1)%nat in
      setup (S k) r (request i a s)
  end.

Definition init (w : Z) (apps : list application) : st := setup 0 apps (mk [] 65535 16384 w None true [] false false).

Definition run (w : Z) (apps : list application) (ops : list op) : st := fold_left step ops (init w apps).
