(** C29: the DATA-sending loop of twisted.web._http2.H2Connection (_sendPrioritisedData, writeDataToStream /
    endRequest as far as they fill the per-stream queues, _handleWindowUpdate, _requestDone) over the window
    bookkeeping the h2 library does for it (stream windows, connection window, SETTINGS_INITIAL_WINDOW_SIZE deltas,
    max frame size).  Data is length-abstracted: a queued chunk is its length; [None] is the end-of-stream sentinel.

    This is the model of the REPAIRED loop (fixes/C29-negative-window.patch): while the window of the chosen stream
    is negative nothing is sent on it and the loop reschedules itself.  The code at the pinned commit takes a slice
    with a negative bound when a SETTINGS frame has made the window negative (or tries to end the stream with an
    empty DATA frame), h2 refuses with FlowControlError and the loop is never rescheduled (see design.d/C29.md).

    The priority tree is an oracle: [adv_on i] serves stream [i]; [step _ Adv] uses the round-robin of the
    vendor/priority shim.  Oracles not modelled: h2's framing and HPACK, header frames, the priority algorithm. *)
From Coq Require Import List ZArith Bool Arith.
Import ListNotations.
Local Open Scope Z_scope.

Record stream := mkS {
  sid : nat;
  q : list (option Z);      (* _outboundStreamQueues[sid] *)
  swin : Z;                 (* h2's outbound flow-control window of the stream *)
  blocked : bool;           (* blocked in the priority tree *)
  sent : Z;                 (* ghost: DATA bytes sent so far *)
  body : Z                  (* ghost: bytes written by the application *)
}.

Inductive ev :=
| EData (i : nat) (n sw cw mf : Z)   (* DATA frame of n bytes on stream i; ghost: stream window, connection window,
                                        max frame size just before sending *)
| EEnd (i : nat) (snt bdy : Z).      (* END_STREAM on stream i; ghost: bytes sent, bytes written *)

Record st := mk {
  streams : list stream;    (* insertion order of the priority tree *)
  cwin : Z;
  maxf : Z;
  iw : Z;                   (* the peer's SETTINGS_INITIAL_WINDOW_SIZE *)
  last : option nat;        (* scheduler state of the shim: stream served last *)
  scheduled : bool;         (* a callLater(0, _sendPrioritisedData) is pending (false: parked on _sendingDeferred) *)
  log : list ev             (* newest first *)
}.

Inductive op :=
| Adv                       (* the reactor runs the pending _sendPrioritisedData call *)
| WU (target : nat) (inc : Z)   (* WINDOW_UPDATE; target 0 = connection *)
| SetIW (v : Z)             (* SETTINGS_INITIAL_WINDOW_SIZE := v *)
| SetMF (v : Z).            (* SETTINGS_MAX_FRAME_SIZE := v *)

Definition upd_stream (i : nat) (f : stream -> stream) (l : list stream) : list stream :=
  map (fun s => if Nat.eqb (sid s) i then f s else s) l.
Definition find_stream (i : nat) (l : list stream) : option stream :=
  find (fun s => Nat.eqb (sid s) i) l.
Definition remove_stream (i : nat) (l : list stream) : list stream :=
  filter (fun s => negb (Nat.eqb (sid s) i)) l.

(** the DATA frame length the loop chooses for the head chunk of stream y *)
Definition frame_len (cw mf : Z) (y : stream) : Z :=
  match q y with
  | Some n :: _ => Z.min n (Z.max 0 (Z.min mf (Z.min (swin y) cw)))
  | _ => 0
  end.

(** popleft, cut at the frame size, push the excess back, send_data *)
Definition send_on (cw mf : Z) (y : stream) : stream :=
  match q y with
  | Some n :: rest =>
      let mfs := Z.max 0 (Z.min mf (Z.min (swin y) cw)) in
      let n1 := Z.min n mfs in
      if Z.ltb 0 n1 then
        let rest1 := if Z.ltb mfs n then Some (n - mfs) :: rest else rest in
        mkS (sid y) rest1 (swin y - n1) (match rest1 with [] => true | _ => blocked y end) (sent y + n1) (body y)
      else y            (* nothing can be sent: the whole chunk is pushed back *)
  | _ => y
  end.

(** one iteration of _sendPrioritisedData serving stream i *)
Definition adv_on (i : nat) (s : st) : st :=
  match find_stream i (streams s) with
  | None => s
  | Some x =>
      if Z.ltb (Z.min (swin x) (cwin s)) 0 then
        (* repaired: negative window (SETTINGS decrease) -- send nothing, not even END_STREAM; try again later *)
        mk (streams s) (cwin s) (maxf s) (iw s) (Some i) true (log s)
      else
      match q x with
      | [] => s                                             (* the code would raise IndexError; unreachable *)
      | None :: _ =>
          (* end_stream + _requestDone *)
          mk (remove_stream i (streams s)) (cwin s) (maxf s) (iw s) (Some i) true
             (EEnd i (sent x) (body x) :: log s)
      | Some _ :: _ =>
          let n1 := frame_len (cwin s) (maxf s) x in
          if Z.ltb 0 n1 then
            mk (upd_stream i (send_on (cwin s) (maxf s)) (streams s))
               (cwin s - n1) (maxf s) (iw s) (Some i) true
               (EData i n1 (swin x) (cwin s) (maxf s) :: log s)
          else
            mk (streams s) (cwin s) (maxf s) (iw s) (Some i) true (log s)
      end
  end.

(** the shim's round robin: first unblocked stream after the one served last, in insertion order *)
Fixpoint split_after (i : nat) (l : list stream) : option (list stream * list stream) :=
  match l with
  | [] => None
  | x :: r => if Nat.eqb (sid x) i then Some ([x], r)
              else match split_after i r with
                   | Some (a, b) => Some (x :: a, b)
                   | None => None
                   end
  end.
Definition rotation (s : st) : list stream :=
  match last s with
  | None => streams s
  | Some i => match split_after i (streams s) with
              | Some (upto, after) => after ++ upto
              | None => streams s
              end
  end.
Definition pick (s : st) : option nat :=
  match find (fun x => negb (blocked x)) (rotation s) with
  | Some x => Some (sid x)
  | None => None
  end.

Definition step (s : st) (o : op) : st :=
  match o with
  | Adv =>
      if scheduled s then
        match pick s with
        | Some i => adv_on i s
        | None => mk (streams s) (cwin s) (maxf s) (iw s) (last s) false (log s)    (* DeadlockError: park *)
        end
      else s
  | WU O inc =>
      mk (map (fun y => mkS (sid y) (q y) (swin y) (match q y with [] => blocked y | _ => false end)
                            (sent y) (body y)) (streams s))
         (cwin s + inc) (maxf s) (iw s) (last s) (scheduled s) (log s)
  | WU i inc =>
      mk (upd_stream i (fun y => mkS (sid y) (q y) (swin y + inc)
                                    (match q y with [] => blocked y | _ => false end) (sent y) (body y))
                     (streams s))
         (cwin s) (maxf s) (iw s) (last s) (scheduled s) (log s)
  | SetIW v =>
      mk (map (fun y => mkS (sid y) (q y) (swin y + (v - iw s)) (blocked y) (sent y) (body y)) (streams s))
         (cwin s) (maxf s) v (last s) (scheduled s) (log s)
  | SetMF v => mk (streams s) (cwin s) v (iw s) (last s) (scheduled s) (log s)
  end.

Definition sum_data (l : list (option Z)) : Z :=
  fold_right (fun c acc => match c with Some n => n + acc | None => acc end) 0 l.

(** all responses written and finished before the first Adv: stream k (id 2k+1) has the given chunk lengths *)
Fixpoint mk_streams (k : nat) (w : Z) (bodies : list (list Z)) : list stream :=
  match bodies with
  | [] => []
  | b :: r => mkS (2 * k + 1) (map Some b ++ [None]) w false 0 (sum_data (map Some b)) :: mk_streams (S k) w r
  end.

Definition init (w : Z) (bodies : list (list Z)) : st :=
  mk (mk_streams 0 w bodies) 65535 16384 w None true [].

Definition run (w : Z) (bodies : list (list Z)) (ops : list op) : st := fold_left step ops (init w bodies).
