(** C29: invariants of the HTTP/2 DATA-sending loop model over every schedule. *)
From Coq Require Import List ZArith Bool Arith Lia.
From C29 Require Import Model.
Import ListNotations.
Local Open Scope Z_scope.

Definition ev_ok (e : ev) : Prop :=
  match e with
  | EData _ n sw cw mf => 0 < n /\ n <= sw /\ n <= cw /\ n <= mf
  | EEnd _ snt bdy => snt = bdy
  end.

(** per stream: bytes sent + bytes still queued = bytes written; the queue is data chunks then the end sentinel *)
Definition stream_ok (x : stream) : Prop :=
  sent x + sum_data (q x) = body x /\ exists ds, q x = map Some ds ++ [None].

Record Inv (s : st) : Prop := mkInv {
  i_log : Forall ev_ok (log s);
  i_streams : Forall stream_ok (streams s)
}.

Lemma sum_data_app a b : sum_data (a ++ b) = sum_data a + sum_data b.
Proof.
  unfold sum_data. induction a as [|[n|] a IH]; cbn [app fold_right]; [reflexivity | rewrite IH; lia | exact IH].
Qed.

Lemma sum_data_cons n l : sum_data (Some n :: l) = n + sum_data l.
Proof. reflexivity. Qed.

Lemma Forall_upd (P : stream -> Prop) i f l :
  Forall P l -> (forall y, P y -> P (f y)) -> Forall P (upd_stream i f l).
Proof.
  intros H Hf. unfold upd_stream. apply Forall_map. eapply Forall_impl; [|exact H].
  intros y Hy. cbn. destruct (Nat.eqb (sid y) i); auto.
Qed.

Lemma Forall_mapf (P : stream -> Prop) f l :
  Forall P l -> (forall y, P y -> P (f y)) -> Forall P (map f l).
Proof. intros H Hf. apply Forall_map. eapply Forall_impl; [|exact H]. auto. Qed.

Lemma Forall_remove (P : stream -> Prop) i l : Forall P l -> Forall P (remove_stream i l).
Proof.
  intros H. unfold remove_stream. rewrite Forall_forall in *. intros x Hx. apply filter_In in Hx. apply H, Hx.
Qed.

Lemma find_stream_ok i l x : Forall stream_ok l -> find_stream i l = Some x -> stream_ok x.
Proof.
  intros H Hf. unfold find_stream in Hf. apply find_some in Hf. rewrite Forall_forall in H. apply H, Hf.
Qed.

Lemma send_on_ok cw mf y : stream_ok y -> stream_ok (send_on cw mf y).
Proof.
  intros Hok. pose proof Hok as [Hs [ds Hq]]. unfold send_on.
  destruct (q y) as [|[n|] rest] eqn:Eq; try exact Hok.
  set (mfs := Z.max 0 (Z.min mf (Z.min (swin y) cw))).
  destruct (Z.ltb_spec 0 (Z.min n mfs)) as [Hpos|Hnp]; [|exact Hok].
  destruct ds as [|d ds]; cbn in Hq; [discriminate|]. inversion Hq; subst d rest.
  rewrite sum_data_cons in Hs.
  destruct (Z.ltb_spec mfs n) as [Hlt|Hge]; split; cbn [q sent body].
  - rewrite sum_data_cons. lia.
  - exists ((n - mfs) :: ds). reflexivity.
  - lia.
  - exists ds. reflexivity.
Qed.

Lemma frame_len_bounds cw mf x n rest :
  q x = Some n :: rest -> 0 < frame_len cw mf x ->
  frame_len cw mf x <= swin x /\ frame_len cw mf x <= cw /\ frame_len cw mf x <= mf.
Proof. intros Eq. unfold frame_len. rewrite Eq. lia. Qed.

Lemma adv_on_inv i s : Inv s -> Inv (adv_on i s).
Proof.
  intros [Hl Hs]. unfold adv_on.
  destruct (find_stream i (streams s)) as [x|] eqn:Ef; [|constructor; assumption].
  pose proof (find_stream_ok _ _ _ Hs Ef) as [Hsum [ds Hq]].
  destruct (Z.ltb (Z.min (swin x) (cwin s)) 0); [constructor; assumption|].
  destruct (q x) as [|[n|] rest] eqn:Eq; [constructor; assumption| |].
  - destruct (Z.ltb_spec 0 (frame_len (cwin s) (maxf s) x)) as [Hpos|Hnp]; [|constructor; assumption].
    constructor; cbn.
    + constructor; [|exact Hl]. cbn. pose proof (frame_len_bounds _ _ _ _ _ Eq Hpos). lia.
    + apply Forall_upd; [exact Hs | intros y; apply send_on_ok].
  - constructor; cbn.
    + constructor; [|exact Hl]. cbn.
      destruct ds as [|d ds]; cbn in Hq; [|discriminate]. inversion Hq; subst rest. cbn in Hsum. lia.
    + apply Forall_remove, Hs.
Qed.

Lemma step_inv s o : Inv s -> Inv (step s o).
Proof.
  intros HI. destruct o as [|[|t] inc|v|v]; cbn [step].
  - destruct (scheduled s); [|exact HI]. destruct (pick s); [apply adv_on_inv, HI|].
    destruct HI; constructor; assumption.
  - destruct HI as [Hl Hs]. constructor; cbn; [exact Hl|].
    apply Forall_mapf; [exact Hs|]. intros y [A B]. split; assumption.
  - destruct HI as [Hl Hs]. constructor; cbn; [exact Hl|].
    apply Forall_upd; [exact Hs|]. intros y [A B]. split; assumption.
  - destruct HI as [Hl Hs]. constructor; cbn; [exact Hl|].
    apply Forall_mapf; [exact Hs|]. intros y [A B]. split; assumption.
  - destruct HI as [Hl Hs]. constructor; cbn; assumption.
Qed.

Lemma mk_streams_ok w bodies : forall k, Forall stream_ok (mk_streams k w bodies).
Proof.
  induction bodies as [|b r IH]; intros k; cbn; constructor; [|apply IH].
  split; cbn.
  - rewrite sum_data_app. cbn. lia.
  - exists b. reflexivity.
Qed.

Lemma init_inv w bodies : Inv (init w bodies).
Proof. constructor; cbn; [constructor | apply mk_streams_ok]. Qed.

Lemma run_inv w bodies ops : Inv (run w bodies ops).
Proof.
  unfold run. generalize (init_inv w bodies). generalize (init w bodies).
  induction ops as [|o r IH]; intros s H; cbn; [exact H|]. apply IH, step_inv, H.
Qed.

(** ---- property statements ---- *)
Lemma reach_window w bodies ops i n sw cw mf :
  In (EData i n sw cw mf) (log (run w bodies ops)) -> 0 < n /\ n <= sw /\ n <= cw /\ n <= mf.
Proof.
  intros Hin. pose proof (i_log _ (run_inv w bodies ops)) as HF. rewrite Forall_forall in HF. exact (HF _ Hin).
Qed.

Lemma reach_body w bodies ops :
  let s := run w bodies ops in
  (forall i snt bdy, In (EEnd i snt bdy) (log s) -> snt = bdy) /\
  (forall x, In x (streams s) -> sent x + sum_data (q x) = body x).
Proof.
  cbv zeta. pose proof (run_inv w bodies ops) as [Hl Hs]. rewrite Forall_forall in Hl, Hs. split.
  - intros i snt bdy Hin. exact (Hl _ Hin).
  - intros x Hin. apply (Hs x Hin).
Qed.

(** any scheduler choice keeps the invariant, and a chosen stream with data and open windows sends *)
Lemma any_choice_sends i s x n rest :
  find_stream i (streams s) = Some x -> q x = Some n :: rest ->
  0 < n -> 0 < swin x -> 0 < cwin s -> 0 < maxf s ->
  log (adv_on i s) =
  EData i (Z.min n (Z.min (maxf s) (Z.min (swin x) (cwin s)))) (swin x) (cwin s) (maxf s) :: log s.
Proof.
  intros Ef Eq Hn Hsw Hcw Hmf. unfold adv_on. rewrite Ef.
  destruct (Z.ltb_spec (Z.min (swin x) (cwin s)) 0); [lia|]. rewrite Eq.
  assert (E : frame_len (cwin s) (maxf s) x = Z.min n (Z.min (maxf s) (Z.min (swin x) (cwin s)))).
  { unfold frame_len. rewrite Eq. lia. }
  rewrite E. destruct (Z.ltb_spec 0 (Z.min n (Z.min (maxf s) (Z.min (swin x) (cwin s))))); [reflexivity | lia].
Qed.

Example ex_negative_window_waits :
  (* SETTINGS_INITIAL_WINDOW_SIZE 100 -> 40 after 100 bytes: window -60; nothing is sent until it reopens,
     then the rest of the body and END_STREAM follow *)
  rev (log (run 100 [[300]] [Adv; SetIW 40; Adv; Adv; WU 1 1000; Adv; Adv]))
  = [EData 1 100 100 65535 16384; EData 1 200 940 65435 16384; EEnd 1 300 300].
Proof. vm_compute. reflexivity. Qed.

Example ex_two_streams_share_connection_window :
  let s := run 65535 [[40000]; [40000]] [Adv; Adv; Adv; Adv; Adv; Adv] in
  cwin s = 0 /\ map (fun x => (sid x, sent x)) (streams s) = [(1%nat, 32768); (3%nat, 32767)].
Proof. vm_compute. auto. Qed.
