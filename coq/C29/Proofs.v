(** C29: invariants of the HTTP/2 DATA-sending model over every schedule. *)
From Coq Require Import List ZArith Bool Arith Lia.
From C29 Require Import Model.
Import ListNotations.
Local Open Scope Z_scope.

Definition ev_ok (e : ev) : Prop :=
  match e with
  | EData _ n sw cw mf => 0 < n /\ n <= sw /\ n <= cw /\ n <= mf
  | EEnd _ snt bdy => snt = bdy
  | _ => True
  end.

(** per stream: bytes sent + bytes still queued = bytes written; the queue is data chunks, then the end sentinel
    exactly when the response was finished *)
Definition stream_ok (x : stream) : Prop :=
  sent x + sum_data (q x) = body x /\
  exists ds, q x = map Some ds ++ (if finished x then [None] else []).

Record Inv (s : st) : Prop := mkInv {
  i_log : Forall ev_ok (log s);
  i_streams : Forall stream_ok (streams s)
}.

Lemma sum_data_app a b : sum_data (a ++ b) = sum_data a + sum_data b.
Proof.
  unfold sum_data. induction a as [|[n|] a IH]; cbn [app fold_right]; [reflexivity | rewrite IH; lia | exact IH].
Qed.

Lemma sum_data_cons n l : sum_data (Some n :: l) = n + sum_data l.
Proof. reflexivity. Qed.

Lemma Forall_upd (P : stream -> Prop) i f l :
  Forall P l -> (forall y, P y -> P (f y)) -> Forall P (upd_stream i f l).
Proof.
  intros H Hf. unfold upd_stream. apply Forall_map. eapply Forall_impl; [|exact H].
  intros y Hy. cbn. destruct (Nat.eqb (sid y) i); auto.
Qed.

Lemma Forall_mapf (P : stream -> Prop) f l :
  Forall P l -> (forall y, P y -> P (f y)) -> Forall P (map f l).
Proof. intros H Hf. apply Forall_map. eapply Forall_impl; [|exact H]. auto. Qed.

Lemma Forall_remove (P : stream -> Prop) i l : Forall P l -> Forall P (remove_stream i l).
Proof.
  intros H. unfold remove_stream. rewrite Forall_forall in *. intros x Hx. apply filter_In in Hx. apply H, Hx.
Qed.

Lemma find_stream_ok i l x : Forall stream_ok l -> find_stream i l = Some x -> stream_ok x.
Proof.
  intros H Hf. unfold find_stream in Hf. apply find_some in Hf. rewrite Forall_forall in H. apply H, Hf.
Qed.

(** a change that leaves queue, sent, body and finished alone *)
Definition neutral (f : stream -> stream) : Prop :=
  forall y, q (f y) = q y /\ sent (f y) = sent y /\ body (f y) = body y /\ finished (f y) = finished y.

Lemma neutral_ok f y : neutral f -> stream_ok y -> stream_ok (f y).
Proof.
  intros Hn [A [ds B]]. destruct (Hn y) as [E1 [E2 [E3 E4]]]. unfold stream_ok. rewrite E1, E2, E3, E4. eauto.
Qed.

Ltac neut := intros y; repeat split; reflexivity.

Lemma upd_inv i f s : Inv s -> (forall y, stream_ok y -> stream_ok (f y)) -> Inv (upd i f s).
Proof. intros [Hl Hs] Hf. constructor; cbn; [exact Hl | apply Forall_upd; assumption]. Qed.

Lemma upd_neutral_inv i f s : Inv s -> neutral f -> Inv (upd i f s).
Proof. intros HI Hn. apply upd_inv; [exact HI | intros y; apply neutral_ok, Hn]. Qed.

Lemma emit_inv e s : Inv s -> ev_ok e -> Inv (emit e s).
Proof. intros [Hl Hs] He. constructor; cbn; [constructor; assumption | exact Hs]. Qed.

Lemma resched_inv i s : Inv s -> Inv (resched i s).
Proof. intros [Hl Hs]. constructor; assumption. Qed.

Lemma flow_blocked_inv i s : Inv s -> Inv (flow_blocked i s).
Proof.
  intros HI. unfold flow_blocked. destruct (find_stream i (streams s)); [|exact HI].
  destruct (hasprod s0 && producing s0); [|exact HI].
  apply emit_inv; [|exact I]. apply upd_neutral_inv; [exact HI | neut].
Qed.

Lemma send_on_ok cw mf y : stream_ok y -> stream_ok (send_on cw mf y).
Proof.
  intros Hok. pose proof Hok as [Hs [ds Hq]]. unfold send_on.
  destruct (q y) as [|[n|] rest] eqn:Eq; try exact Hok.
  set (mfs := Z.max 0 (Z.min mf (locwin cw y))).
  destruct (Z.ltb_spec 0 (Z.min n mfs)) as [Hpos|Hnp]; [|exact Hok].
  destruct ds as [|d ds]; cbn in Hq.
  { destruct (finished y); discriminate. }
  inversion Hq; subst d rest. rewrite sum_data_cons in Hs.
  unfold stream_ok. cbn [q sent body finished set_sent set_blocked set_swin set_q].
  destruct (Z.ltb_spec mfs n) as [Hlt|Hge]; split.
  - rewrite sum_data_cons. lia.
  - exists ((n - mfs) :: ds). reflexivity.
  - lia.
  - exists ds. reflexivity.
Qed.

Lemma frame_len_bounds cw mf x n rest :
  q x = Some n :: rest -> 0 < frame_len cw mf x ->
  frame_len cw mf x <= swin x /\ frame_len cw mf x <= cw /\ frame_len cw mf x <= mf.
Proof. intros Eq. unfold frame_len, locwin. rewrite Eq. lia. Qed.

Lemma adv_on_inv i s : Inv s -> Inv (adv_on i s).
Proof.
  intros HI. pose proof HI as [Hl Hs]. unfold adv_on.
  destruct (find_stream i (streams s)) as [x|] eqn:Ef; [|apply resched_inv, HI].
  pose proof (find_stream_ok _ _ _ Hs Ef) as [Hsum [ds Hq]].
  destruct (Z.ltb (locwin (cwin s) x) 0); [apply resched_inv, HI|].
  destruct (q x) as [|[n|] rest] eqn:Eq; [apply resched_inv, HI| |].
  - apply resched_inv.
    set (s1 := if 0 <? frame_len (cwin s) (maxf s) x then _ else s).
    assert (H1 : Inv s1).
    { unfold s1. destruct (Z.ltb_spec 0 (frame_len (cwin s) (maxf s) x)) as [Hpos|Hnp]; [|exact HI].
      constructor; cbn.
      - constructor; [|exact Hl]. cbn. pose proof (frame_len_bounds _ _ _ _ _ Eq Hpos). lia.
      - apply Forall_upd; [exact Hs | intros y; apply send_on_ok]. }
    destruct (find_stream i (streams s1)); [|exact H1].
    destruct (rem_out (cwin s1) s0 <=? 0); [apply flow_blocked_inv, H1 | exact H1].
  - apply resched_inv, emit_inv.
    + constructor; cbn; [exact Hl | apply Forall_remove, Hs].
    + cbn. destruct ds as [|d ds]; cbn in Hq; [|discriminate].
      destruct (finished x); inversion Hq; subst rest. cbn in Hsum. lia.
Qed.

Lemma run_iter_inv s : Inv s -> Inv (run_iter s).
Proof.
  intros HI. unfold run_iter. destruct (pick s); [|destruct HI; constructor; assumption].
  destruct (tblocked s); [destruct HI; constructor; assumption | apply adv_on_inv, HI].
Qed.

Lemma fire_inv s : Inv s -> Inv (fire s).
Proof. intros HI. unfold fire. destruct (scheduled s || chained s); [exact HI | apply run_iter_inv, HI]. Qed.

Lemma app_chunk_ok n y : stream_ok y -> stream_ok (app_chunk n y).
Proof.
  intros Hok. pose proof Hok as [Hs [ds Hq]]. unfold app_chunk. destruct (finished y) eqn:Ef; [exact Hok|].
  unfold stream_ok. cbn [q sent body finished set_body set_q]. rewrite Ef. split.
  - rewrite sum_data_app. cbn. lia.
  - exists (ds ++ [n]). rewrite Hq, app_nil_r, map_app. cbn. rewrite app_nil_r. reflexivity.
Qed.

Lemma app_end_ok y : stream_ok y -> stream_ok (app_end y).
Proof.
  intros Hok. pose proof Hok as [Hs [ds Hq]]. unfold app_end. destruct (finished y) eqn:Ef; [exact Hok|].
  unfold stream_ok. cbn [q sent body finished set_blocked set_finished set_q]. split.
  - rewrite sum_data_app. cbn. lia.
  - exists ds. rewrite Hq, app_nil_r. reflexivity.
Qed.

Lemma write_to_inv i n s : Inv s -> Inv (write_to i n s).
Proof.
  intros HI. unfold write_to. destruct (find_stream i (streams s)) as [x0|]; [|exact HI].
  destruct (finished x0); [exact HI|].
  set (s1 := upd i (app_chunk n) s).
  assert (H1 : Inv s1) by (apply upd_inv; [exact HI | intros y; apply app_chunk_ok]).
  set (s2 := match find_stream i (streams s1) with Some x => _ | None => s1 end).
  assert (H2 : Inv s2).
  { unfold s2. destruct (find_stream i (streams s1)); [|exact H1].
    destruct (0 <? locwin (cwin s1) s0); [|exact H1].
    apply fire_inv, upd_neutral_inv; [exact H1 | neut]. }
  destruct (find_stream i (streams s2)); [|exact H2].
  destruct (rem_out (cwin s2) s0 <=? 0); [apply flow_blocked_inv, H2 | exact H2].
Qed.

Lemma end_req_inv i s : Inv s -> Inv (end_req i s).
Proof.
  intros HI. unfold end_req. destruct (find_stream i (streams s)) as [x0|]; [|exact HI].
  destruct (finished x0); [exact HI|].
  apply fire_inv, upd_inv; [exact HI | intros y; apply app_end_ok].
Qed.

Lemma prod_loop_inv fuel i : forall s, Inv s -> Inv (prod_loop fuel i s).
Proof.
  induction fuel as [|f IH]; intros s HI; cbn [prod_loop]; [exact HI|].
  destruct (find_stream i (streams s)) as [x|]; [|exact HI].
  destruct (hasprod x && producing x); [|exact HI].
  destruct (pleft x) as [|k]; [exact HI|].
  apply IH, write_to_inv, upd_neutral_inv; [exact HI | neut].
Qed.

Lemma prod_run_inv i s : Inv s -> Inv (prod_run i s).
Proof.
  intros HI. unfold prod_run.
  set (s1 := prod_loop _ i s). assert (H1 : Inv s1) by (apply prod_loop_inv, HI).
  destruct (find_stream i (streams s1)) as [x|]; [|exact H1].
  destruct (hasprod x && Nat.eqb (pleft x) 0 && (negb (lazy x) || producing x)); [|exact H1].
  apply end_req_inv, upd_neutral_inv; [exact H1 | neut].
Qed.

Lemma window_updated_inv i s : Inv s -> Inv (window_updated i s).
Proof.
  intros HI. unfold window_updated. destruct (find_stream i (streams s)) as [x|]; [|exact HI].
  destruct (hasprod x && negb (producing x) && (0 <? rem_out (cwin s) x)); [|exact HI].
  apply prod_run_inv, emit_inv; [|exact I]. apply upd_neutral_inv; [exact HI | neut].
Qed.

Lemma unblock_if_queued_inv i s : Inv s -> Inv (unblock_if_queued i s).
Proof.
  intros HI. unfold unblock_if_queued. apply upd_inv; [exact HI|].
  intros y Hy. destruct (q y) eqn:E; [exact Hy|].
  destruct Hy as [A [ds B]]. unfold stream_ok. cbn. rewrite E in *. eauto.
Qed.

Lemma conn_window_updated_inv s : Inv s -> Inv (conn_window_updated s).
Proof.
  unfold conn_window_updated. generalize (map sid (streams s)). intros l. revert s.
  induction l as [|i r IH]; intros s HI; cbn; [exact HI|].
  apply IH, unblock_if_queued_inv, window_updated_inv, HI.
Qed.

Lemma app_write_inv i s : Inv s -> Inv (app_write i s).
Proof.
  intros HI. unfold app_write. destruct (find_stream i (streams s)) as [x|]; [|exact HI].
  destruct (mleft x) as [|n r]; [exact HI|]. destruct (finished x); [exact HI|].
  apply write_to_inv, upd_neutral_inv; [exact HI | neut].
Qed.

Lemma app_finish_inv i s : Inv s -> Inv (app_finish i s).
Proof.
  intros HI. unfold app_finish. destruct (find_stream i (streams s)) as [x|]; [|exact HI].
  destruct (hasprod x); [exact HI | apply end_req_inv, HI].
Qed.

Lemma new_stream_ok i w a : stream_ok (new_stream i w a).
Proof. destruct a; split; cbn; try reflexivity; exists []; reflexivity. Qed.

Lemma render_inv i a s : Inv s -> Inv (render i a s).
Proof.
  intros HI. destruct a as [cs|cs|c n|pre c n|pre c n]; cbn [render].
  - apply app_finish_inv. revert s HI. induction cs as [|c cs IH]; intros s HI; cbn [fold_left]; [exact HI|].
    apply IH, app_write_inv, HI.
  - exact HI.
  - apply prod_run_inv, HI.
  - apply prod_run_inv, upd_neutral_inv; [|neut].
    destruct (0 <? pre); [apply write_to_inv, HI | exact HI].
  - apply prod_run_inv, upd_neutral_inv; [|neut].
    destruct (0 <? pre); [apply write_to_inv, HI | exact HI].
Qed.

Lemma request_inv i a s : Inv s -> Inv (request i a s).
Proof.
  intros [Hl Hs]. unfold request. apply render_inv. constructor; cbn; [exact Hl|].
  apply Forall_app. split; [exact Hs | constructor; [apply new_stream_ok | constructor]].
Qed.

Lemma drain_inv fuel : forall quiet s, Inv s -> Inv (drain fuel quiet s).
Proof.
  induction fuel as [|f IH]; intros quiet s HI; cbn [drain]; [exact HI|].
  destruct (scheduled s); [|exact HI].
  pose proof (run_iter_inv s HI) as H1.
  destruct (Nat.eqb _ _); [destruct (Nat.leb _ _); [exact H1 | apply IH, H1] | apply IH, H1].
Qed.

Lemma step_inv s o : Inv s -> Inv (step s o).
Proof.
  intros HI. destruct o as [|[|t] inc|v|v|i|i|i a| | |]; cbn [step];
    [| | | | | | | | | |apply drain_inv, HI].
  - destruct (scheduled s); [apply run_iter_inv, HI | exact HI].
  - apply fire_inv, conn_window_updated_inv. destruct HI; constructor; assumption.
  - destruct (find_stream (S t) (streams s)); [|apply fire_inv, HI].
    apply fire_inv, window_updated_inv, unblock_if_queued_inv, upd_neutral_inv; [exact HI | neut].
  - apply fire_inv, conn_window_updated_inv. destruct HI as [Hl Hs]. constructor; cbn; [exact Hl|].
    apply Forall_mapf; [exact Hs|]. intros y0. apply neutral_ok. neut.
  - destruct HI; constructor; assumption.
  - apply app_write_inv, HI.
  - apply app_finish_inv, HI.
  - apply request_inv, HI.
  - destruct HI; constructor; assumption.
  - destruct (tblocked s); [|exact HI].
    assert (H1 : Inv (mk (streams s) (cwin s) (maxf s) (iw s) (last s) (scheduled s) (log s) false false))
      by (destruct HI; constructor; assumption).
    destruct (chained s); [apply run_iter_inv, H1 | exact H1].
Qed.

Lemma steps_inv ops : forall s, Inv s -> Inv (fold_left step ops s).
Proof. induction ops as [|o r IH]; intros s H; cbn; [exact H|]. apply IH, step_inv, H. Qed.

Lemma setup_inv apps : forall k s, Inv s -> Inv (setup k apps s).
Proof.
  induction apps as [|a r IH]; intros k s HI; cbn [setup]; [exact HI|]. apply IH, request_inv, HI.
Qed.

Lemma init_inv w apps : Inv (init w apps).
Proof. apply setup_inv. constructor; constructor. Qed.

Lemma run_inv w apps ops : Inv (run w apps ops).
Proof. apply steps_inv, init_inv. Qed.

(** ---- property statements ---- *)
Lemma reach_window w apps ops i n sw cw mf :
  In (EData i n sw cw mf) (log (run w apps ops)) -> 0 < n /\ n <= sw /\ n <= cw /\ n <= mf.
Proof.
  intros Hin. pose proof (i_log _ (run_inv w apps ops)) as HF. rewrite Forall_forall in HF. exact (HF _ Hin).
Qed.

Lemma reach_body w apps ops :
  let s := run w apps ops in
  (forall i snt bdy, In (EEnd i snt bdy) (log s) -> snt = bdy) /\
  (forall x, In x (streams s) -> sent x + sum_data (q x) = body x).
Proof.
  cbv zeta. pose proof (run_inv w apps ops) as [Hl Hs]. rewrite Forall_forall in Hl, Hs. split.
  - intros i snt bdy Hin. exact (Hl _ Hin).
  - intros x Hin. apply (Hs x Hin).
Qed.

(** any scheduler choice keeps the invariant, and a chosen stream with data and open windows sends *)
Lemma flow_blocked_log i s e : In e (log s) -> In e (log (flow_blocked i s)).
Proof.
  intros H. unfold flow_blocked. destruct (find_stream i (streams s)); [|exact H].
  destruct (hasprod s0 && producing s0); [right; exact H | exact H].
Qed.

Lemma any_choice_sends i s x n rest :
  find_stream i (streams s) = Some x -> q x = Some n :: rest ->
  0 < n -> 0 < swin x -> 0 < cwin s -> 0 < maxf s ->
  In (EData i (Z.min n (Z.min (maxf s) (Z.min (swin x) (cwin s)))) (swin x) (cwin s) (maxf s))
     (log (adv_on i s)).
Proof.
  intros Ef Eq Hn Hsw Hcw Hmf. unfold adv_on. rewrite Ef. unfold locwin at 1.
  destruct (Z.ltb_spec (Z.min (swin x) (cwin s)) 0); [lia|]. rewrite Eq.
  assert (E : frame_len (cwin s) (maxf s) x = Z.min n (Z.min (maxf s) (Z.min (swin x) (cwin s)))).
  { unfold frame_len, locwin. rewrite Eq. lia. }
  rewrite E.
  destruct (Z.ltb_spec 0 (Z.min n (Z.min (maxf s) (Z.min (swin x) (cwin s))))); [|lia].
  cbn [resched log].
  match goal with |- In ?e (log (match ?m with Some y => _ | None => ?s1 end)) =>
    assert (H1 : In e (log s1)) by (left; reflexivity); destruct m end; [|exact H1].
  destruct (rem_out _ _ <=? 0); [apply flow_blocked_log, H1 | exact H1].
Qed.

Example ex_negative_window_waits :
  rev (log (run 100 [Static [300]] [Adv; SetIW 40; Adv; Adv; WU 1 1000; Adv; Adv]))
  = [EData 1 100 100 65535 16384; EData 1 200 940 65435 16384; EEnd 1 300 300].
Proof. vm_compute. reflexivity. Qed.

Example ex_two_streams_share_connection_window :
  let s := run 65535 [Static [40000]; Static [40000]] [Adv; Adv; Adv; Adv; Adv; Adv] in
  cwin s = 0 /\ map (fun x => (sid x, sent x)) (streams s) = [(1%nat, 32768); (3%nat, 32767)].
Proof. vm_compute. auto. Qed.

(** the body filled the window exactly, the sender parks, SETTINGS makes the window negative, the application
    finishes, the peer reopens the window: the stream is ended *)
Example ex_finish_while_negative_completes :
  rev (log (run 10 [Manual [10]] [AppWrite 1; Adv; Adv; SetIW 4; AppFinish 1; Adv; WU 1 20; Adv; Adv]))
  = [EData 1 10 10 65535 16384; EEnd 1 10 10].
Proof. vm_compute. reflexivity. Qed.

(** data queued at an exhausted window while the sender is parked is sent as soon as the window reopens *)
Example ex_window_reopen_wakes_parked_sender :
  rev (log (run 10 [Manual [10; 5]] [AppWrite 1; Adv; Adv; AppWrite 1; WU 1 20]))
  = [EData 1 10 10 65535 16384; EData 1 5 20 65525 16384].
Proof. vm_compute. reflexivity. Qed.

(** a producer that filled the connection window exactly is resumed by a connection-level WINDOW_UPDATE *)
Example ex_connection_window_resumes_producer :
  let s := run 16777216 [Static [535]; Producer 6500 20]
               [Adv; Adv; Adv; Adv; Adv; Adv; Adv; Adv; Adv; Adv; Adv; Adv; Adv; Adv; WU 0 65535] in
  In (EResume 3) (log s) /\ exists x, find_stream 3 (streams s) = Some x /\ body x = 130000 /\ finished x = true.
Proof. vm_compute. split; [auto 20 | eexists; split; [reflexivity | auto]]. Qed.

(** preamble == window written after the sender parked (sent at once), then a push producer registered at an
    exhausted window: it is paused by its first write and resumed when the window reopens *)
Example ex_producer_registered_at_exhausted_window_completes :
  let s := run 100 [] [Adv; Req 1 (PreProducer 100 60 4); Adv; WU 1 100; Adv; Adv; WU 1 1000; Adv; Adv; Adv; Adv] in
  In (EEnd 1 340 340) (log s) /\ streams s = [].
Proof. vm_compute. auto 20. Qed.

(** ---- no lost wake-up of the sending loop: a parked sender means every stream is blocked in the tree ---- *)
Definition all_blocked (l : list stream) : Prop := Forall (fun x => blocked x = true) l.
Definition Parked (s : st) : Prop := scheduled s = false -> chained s = false -> all_blocked (streams s).

Lemma split_after_app i l a b : split_after i l = Some (a, b) -> l = a ++ b.
Proof.
  revert a b. induction l as [|x r IH]; intros a b H; cbn in H; [discriminate|].
  destruct (Nat.eqb (sid x) i).
  - inversion H; subst. reflexivity.
  - destruct (split_after i r) as [[a' b']|]; [|discriminate]. inversion H; subst. cbn. f_equal. apply IH. reflexivity.
Qed.

Lemma rotation_blocked s : all_blocked (rotation s) -> all_blocked (streams s).
Proof.
  unfold rotation, all_blocked. destruct (last s) as [i|]; [|auto].
  destruct (split_after i (streams s)) as [[a b]|] eqn:E; [|auto].
  apply split_after_app in E. rewrite E. intros H. apply Forall_app in H. apply Forall_app. tauto.
Qed.

Lemma adv_on_scheduled i s : scheduled (adv_on i s) = true.
Proof.
  unfold adv_on. destruct (find_stream i (streams s)) as [x|]; [|reflexivity].
  destruct (Z.ltb (locwin (cwin s) x) 0); [reflexivity|].
  destruct (q x) as [|[n|] rest]; reflexivity.
Qed.

Lemma run_iter_parked s : Parked (run_iter s).
Proof.
  unfold run_iter, Parked. destruct (pick s) as [i|] eqn:Ep.
  - destruct (tblocked s); [cbn; discriminate | rewrite adv_on_scheduled; discriminate].
  - intros _ _. cbn. apply rotation_blocked. unfold pick in Ep.
    destruct (find (fun x => negb (blocked x)) (rotation s)) eqn:Ef; [discriminate|].
    unfold all_blocked. rewrite Forall_forall. intros x Hx.
    pose proof (find_none _ _ Ef x Hx) as H. cbn in H. destruct (blocked x); [reflexivity | discriminate].
Qed.

Lemma fire_parked s : Parked (fire s).
Proof.
  unfold fire. destruct (scheduled s || chained s) eqn:E; [|apply run_iter_parked].
  unfold Parked. intros E1 E2. rewrite E1, E2 in E. discriminate.
Qed.

(** changes that leave [blocked] alone keep the fact *)
Definition keeps_blocked (f : stream -> stream) : Prop := forall y, blocked (f y) = blocked y.

Lemma upd_parked i f s : keeps_blocked f -> Parked s -> Parked (upd i f s).
Proof.
  intros Hf HP Hs Hch. specialize (HP Hs Hch). unfold all_blocked in *. cbn. unfold upd_stream. apply Forall_map.
  eapply Forall_impl; [|exact HP]. intros y Hy. cbn. destruct (Nat.eqb (sid y) i); [rewrite Hf|]; exact Hy.
Qed.

Lemma emit_parked e s : Parked s -> Parked (emit e s).
Proof. intros H. exact H. Qed.

Ltac kb := intros y; try reflexivity.

Lemma app_chunk_keeps n : keeps_blocked (app_chunk n).
Proof. intros y. unfold app_chunk. destruct (finished y); reflexivity. Qed.

Lemma flow_blocked_parked i s : Parked s -> Parked (flow_blocked i s).
Proof.
  intros HP. unfold flow_blocked. destruct (find_stream i (streams s)); [|exact HP].
  destruct (hasprod s0 && producing s0); [|exact HP]. apply emit_parked, upd_parked; [kb | exact HP].
Qed.

Lemma write_to_parked i n s : Parked s -> Parked (write_to i n s).
Proof.
  intros HP. unfold write_to. destruct (find_stream i (streams s)) as [x0|]; [|exact HP].
  destruct (finished x0); [exact HP|].
  set (s1 := upd i (app_chunk n) s).
  assert (H1 : Parked s1) by (apply upd_parked; [apply app_chunk_keeps | exact HP]).
  set (s2 := match find_stream i (streams s1) with Some x => _ | None => s1 end).
  assert (H2 : Parked s2).
  { unfold s2. destruct (find_stream i (streams s1)); [|exact H1].
    destruct (0 <? locwin (cwin s1) s0); [apply fire_parked | exact H1]. }
  destruct (find_stream i (streams s2)); [|exact H2].
  destruct (rem_out (cwin s2) s0 <=? 0); [apply flow_blocked_parked, H2 | exact H2].
Qed.

Lemma end_req_parked i s : Parked s -> Parked (end_req i s).
Proof.
  intros HP. unfold end_req. destruct (find_stream i (streams s)) as [x0|]; [|exact HP].
  destruct (finished x0); [exact HP | apply fire_parked].
Qed.

Lemma prod_loop_parked fuel i : forall s, Parked s -> Parked (prod_loop fuel i s).
Proof.
  induction fuel as [|f IH]; intros s HP; cbn [prod_loop]; [exact HP|].
  destruct (find_stream i (streams s)) as [x|]; [|exact HP].
  destruct (hasprod x && producing x); [|exact HP].
  destruct (pleft x) as [|k]; [exact HP|].
  apply IH, write_to_parked, upd_parked; [kb | exact HP].
Qed.

Lemma prod_run_parked i s : Parked s -> Parked (prod_run i s).
Proof.
  intros HP. unfold prod_run. set (s1 := prod_loop _ i s).
  assert (H1 : Parked s1) by (apply prod_loop_parked, HP).
  destruct (find_stream i (streams s1)) as [x|]; [|exact H1].
  destruct (hasprod x && Nat.eqb (pleft x) 0 && (negb (lazy x) || producing x)); [|exact H1].
  apply end_req_parked, upd_parked; [kb | exact H1].
Qed.

Lemma app_write_parked i s : Parked s -> Parked (app_write i s).
Proof.
  intros HP. unfold app_write. destruct (find_stream i (streams s)) as [x|]; [|exact HP].
  destruct (mleft x) as [|n r]; [exact HP|]. destruct (finished x); [exact HP|].
  apply write_to_parked, upd_parked; [kb | exact HP].
Qed.

Lemma app_finish_parked i s : Parked s -> Parked (app_finish i s).
Proof.
  intros HP. unfold app_finish. destruct (find_stream i (streams s)) as [x|]; [|exact HP].
  destruct (hasprod x); [exact HP | apply end_req_parked, HP].
Qed.

Lemma request_parked i a s : Parked s -> Parked (request i a s).
Proof.
  intros HP. unfold request.
  set (s0 := set_streams (streams s ++ [new_stream i (iw s) a]) s).
  assert (H0 : Parked s0).
  { intros Hs Hch. unfold s0, all_blocked. cbn. apply Forall_app. split; [apply HP; [exact Hs | exact Hch]|].
    constructor; [destruct a; reflexivity | constructor]. }
  destruct a as [cs|cs|c n|pre c n|pre c n]; cbn [render].
  - apply app_finish_parked. generalize dependent s0. induction cs as [|c cs IH]; intros s0 H0; cbn [fold_left];
      [exact H0|]. apply IH, app_write_parked, H0.
  - exact H0.
  - apply prod_run_parked, H0.
  - apply prod_run_parked, upd_parked; [kb|]. destruct (0 <? pre); [apply write_to_parked, H0 | exact H0].
  - apply prod_run_parked, upd_parked; [kb|]. destruct (0 <? pre); [apply write_to_parked, H0 | exact H0].
Qed.

Lemma drain_parked fuel : forall quiet s, Parked s -> Parked (drain fuel quiet s).
Proof.
  induction fuel as [|f IH]; intros quiet s HP; cbn [drain]; [exact HP|].
  destruct (scheduled s) eqn:E; [|exact HP].
  pose proof (run_iter_parked s) as H1.
  destruct (Nat.eqb _ _); [destruct (Nat.leb _ _); [exact H1 | apply IH, H1] | apply IH, H1].
Qed.

Lemma step_parked s o : Parked s -> Parked (step s o).
Proof.
  intros HP. destruct o as [|[|t] inc|v|v|i|i|i a| | |]; cbn [step];
    [| | | | | | | | | |apply drain_parked, HP].
  - destruct (scheduled s) eqn:E; [apply run_iter_parked | exact HP].
  - apply fire_parked.
  - destruct (find_stream (S t) (streams s)); apply fire_parked.
  - apply fire_parked.
  - exact HP.
  - apply app_write_parked, HP.
  - apply app_finish_parked, HP.
  - apply request_parked, HP.
  - exact HP.
  - destruct (tblocked s); [|exact HP].
    destruct (chained s) eqn:Ec; [apply run_iter_parked|].
    intros E1 E2. cbn in *. apply HP; [exact E1 | exact Ec].
Qed.

Lemma setup_parked apps : forall k s, Parked s -> Parked (setup k apps s).
Proof.
  induction apps as [|a r IH]; intros k s HP; cbn [setup]; [exact HP|]. apply IH, request_parked, HP.
Qed.

Lemma run_parked w apps ops : Parked (run w apps ops).
Proof.
  unfold run.
  assert (H0 : Parked (init w apps)).
  { unfold init. apply setup_parked. unfold Parked. cbn. discriminate. }
  revert H0. generalize (init w apps). induction ops as [|o r IH]; intros s H; cbn; [exact H|].
  apply IH, step_parked, H.
Qed.
