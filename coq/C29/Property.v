(** C29 property theorems (partial: about the model of the REPAIRED code -- fix 1323982 and
    fixes/C29-window-reopen-wakes-sender.patch; h2's framing/window bookkeeping and the priority tree are oracles;
    data is length-abstracted; completion after ample window is checked on the implementation by the oracle, it is
    not a theorem).  For every initial window, every set of streams whose applications are static, manual or
    producer-driven, and every schedule of loop iterations, WINDOW_UPDATEs, SETTINGS changes, application writes and
    finishes. *)
From Coq Require Import List ZArith Bool Arith.
From C29 Require Import Model Proofs.
Import ListNotations.
Local Open Scope Z_scope.

(** every DATA frame is non-empty and fits the stream window, the connection window and the max frame size as they
    stood when it was sent *)
Theorem never_exceeds_stream_or_connection_window_partial : forall w apps ops i n sw cw mf,
  In (EData i n sw cw mf) (log (run w apps ops)) -> 0 < n /\ n <= sw /\ n <= cw /\ n <= mf.
Proof. exact reach_window. Qed.
Print Assumptions never_exceeds_stream_or_connection_window_partial.

(** END_STREAM is sent only when every written byte of the stream has been sent, and for every stream still open
    bytes sent + bytes queued = bytes written (lengths; byte order is checked on the implementation by the oracle) *)
Theorem each_stream_body_complete_partial : forall w apps ops,
  let s := run w apps ops in
  (forall i snt bdy, In (EEnd i snt bdy) (log s) -> snt = bdy) /\
  (forall x, In x (streams s) -> sent x + sum_data (q x) = body x).
Proof. exact reach_body. Qed.
Print Assumptions each_stream_body_complete_partial.

(** whatever stream the priority tree chooses: if it has a chunk queued and its stream window, the connection
    window and the frame size are positive, the iteration sends min(chunk, frame size, windows) bytes of it *)
Theorem blocked_streams_resume_on_window_open_partial : forall i s x n rest,
  find_stream i (streams s) = Some x -> q x = Some n :: rest ->
  0 < n -> 0 < swin x -> 0 < cwin s -> 0 < maxf s ->
  In (EData i (Z.min n (Z.min (maxf s) (Z.min (swin x) (cwin s)))) (swin x) (cwin s) (maxf s))
     (log (adv_on i s)).
Proof. exact any_choice_sends. Qed.
Print Assumptions blocked_streams_resume_on_window_open_partial.

(** no lost wake-up of the sending loop: whenever the loop is parked on _sendingDeferred (no callLater pending and
    not waiting behind a paused transport),
    every open stream is blocked in the priority tree -- every event that unblocks a stream (a write with window,
    finish, WINDOW_UPDATE on either level, a SETTINGS_INITIAL_WINDOW_SIZE change) also wakes a parked loop *)
Theorem parked_sender_means_every_stream_blocked_partial : forall w apps ops,
  let s := run w apps ops in
  scheduled s = false -> chained s = false -> Forall (fun x => blocked x = true) (streams s).
Proof. exact run_parked. Qed.
Print Assumptions parked_sender_means_every_stream_blocked_partial.
