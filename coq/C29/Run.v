(** C29: printers used by the correspondence check only. *)
From Coq Require Import List ZArith Bool Arith String.
From TwLib Require Import Show.
From C29 Require Import Model.
Import ListNotations.
Local Open Scope string_scope.

Definition show_ev (e : ev) : string :=
  match e with
  | EData i n _ _ _ => "d" ++ show_nat i ++ ":" ++ show_Z n
  | EEnd i _ _ => "e" ++ show_nat i
  | EPause i => "P" ++ show_nat i
  | EResume i => "R" ++ show_nat i
  end.

Definition is_frame (e : ev) : bool := match e with EData _ _ _ _ _ | EEnd _ _ _ => true | _ => false end.

(** frames (as the peer sees them) and producer calls of one step, as two groups *)
Definition show_new (before after : list ev) : string :=
  let es := rev (firstn (List.length after - List.length before) after) in
  let fr := filter is_frame es in
  let pe := filter (fun e => negb (is_frame e)) es in
  match es with
  | [] => "-"
  | _ => String.concat "," (map show_ev fr) ++
         (match pe with [] => "" | _ => "/" ++ String.concat "," (map show_ev pe) end)
  end.

Fixpoint show_from (s : st) (ops : list op) : list string :=
  match ops with
  | [] => []
  | o :: r => let s' := step s o in show_new (log s) (log s') :: show_from s' r
  end.

Definition run_show (c : Z * list application * list op) : string :=
  let '(w, apps, ops) := c in
  let s0 := init w apps in
  String.concat " " (show_new [] (log s0) :: show_from s0 ops).
