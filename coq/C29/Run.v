(** C29: printers used by the correspondence check only. *)
From Coq Require Import List ZArith Bool Arith String.
From TwLib Require Import Show.
From C29 Require Import Model.
Import ListNotations.
Local Open Scope string_scope.

Definition show_ev (e : ev) : string :=
  match e with
  | EData i n _ _ _ => "d" ++ show_nat i ++ ":" ++ show_Z n
  | EEnd i _ _ => "e" ++ show_nat i
  end.

Fixpoint show_from (s : st) (ops : list op) : list string :=
  match ops with
  | [] => []
  | o :: r =>
      let s' := step s o in
      let es := rev (firstn (List.length (log s') - List.length (log s)) (log s')) in
      (match es with [] => "-" | _ => String.concat "," (map show_ev es) end) :: show_from s' r
  end.

Definition run_show (c : Z * list (list Z) * list op) : string :=
  let '(w, bodies, ops) := c in String.concat " " (show_from (init w bodies) ops).
