#!/bin/bash
# MANIFEST.setup_cmd: build, offline and from files on disk only, the Coq closure of every claimed property
# (every module of coq/Cxx/ for each check listed in MANIFEST.json, and of coq/Lib/).
set -eu
HERE="$(cd "$(dirname "$0")" && pwd)"
cd "$HERE"
mkdir -p .work
export PYTHONPATH="$HERE"
TARGETS=$(/venv/bin/python - <<'PY'
import json, os
from harness import common
m = json.load(open("MANIFEST.json"))
pids = [c["property_id"] for c in m["checks"]]
dirs = set()
for p in pids:
    dirs.update(common.deps_of(p))
bad = common.gate(sorted(dirs))
if bad:
    raise SystemExit("forbidden constructs: " + "; ".join(bad))
common.regen_coqproject()
t = []
for p in pids:
    t += common.pid_targets(p)
t += [f"Lib/{f}o" for f in sorted(os.listdir("coq/Lib")) if f.endswith(".v") and not f.startswith(".")]
print(" ".join(t))
PY
)
ulimit -s unlimited 2>/dev/null || true
set +e
timeout 3400 make -C coq -k -j"${VERIF_JOBS:-12}" $TARGETS > .work/setup.log 2>&1
rc=$?
tail -n 25 .work/setup.log
test $rc -eq 0 && echo "setup ok"
exit $rc
