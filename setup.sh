#!/bin/bash
# MANIFEST.setup_cmd: build the whole Coq development from files on disk (offline).
set -eu
HERE="$(cd "$(dirname "$0")" && pwd)"
cd "$HERE"
export PYTHONPATH="$HERE"
/venv/bin/python - <<'PY'
from harness import common
bad = common.gate(common.coq_dirs())
if bad:
    raise SystemExit("forbidden constructs: " + "; ".join(bad))
common.regen_coqproject()
PY
ulimit -s unlimited 2>/dev/null || true
timeout 3000 make -C coq -j"${VERIF_JOBS:-12}" 2>&1 | tail -n 40
test "${PIPESTATUS[0]}" -eq 0
echo "setup ok"
