"""Fail-closed Python-ast -> Gallina translator core (T-tie, DESIGN.md section 4).

Only a small, explicitly enumerated subset is accepted; anything else raises
``Untranslatable`` with the source location, and the calling check then follows
step 3 of the decision protocol (tie broken -> search for a failing input).

The core translates *expressions* over integers (Z) and booleans, given an
environment that says what each Name / Attribute / Call means in the model.
Per-property front-ends (translate/cNN.py) pick the functions/methods to
translate, recognise the statement shapes around the expressions, and emit a
``Gen.v``.
"""
from __future__ import annotations

import ast
import os
from typing import Callable, Optional


class Untranslatable(Exception):
    pass


def fail(node: ast.AST, why: str):
    raise Untranslatable(f"line {getattr(node, 'lineno', '?')}: {why}: {ast.dump(node)[:160]}")


def load_module(path: str) -> ast.Module:
    with open(path, "rb") as f:
        return ast.parse(f.read(), filename=path)


def find_class(mod: ast.Module, name: str) -> ast.ClassDef:
    for n in mod.body:
        if isinstance(n, ast.ClassDef) and n.name == name:
            return n
    raise Untranslatable(f"class {name} not found")


def find_def(body: list, name: str) -> ast.FunctionDef:
    for n in body:
        if isinstance(n, ast.FunctionDef) and n.name == name:
            return n
    raise Untranslatable(f"def {name} not found")


def strip_doc(body: list) -> list:
    if body and isinstance(body[0], ast.Expr) and isinstance(body[0].value, ast.Constant) \
            and isinstance(body[0].value.value, str):
        return body[1:]
    return body


class Env:
    """Meaning of the free identifiers of an expression.

    names:  python name -> (coq text, type)
    attrs:  (python object name, attribute) -> (coq text, type)
    calls:  callable taking (translator, ast.Call) -> (coq text, type) or None
    objcmp: callable taking (op, left ast, right ast) -> (coq text, 'bool') or None, for
            comparisons between model *objects* (e.g. ``self == other``)
    """

    def __init__(self, names=None, attrs=None, calls=None, objcmp=None):
        self.names = dict(names or {})
        self.attrs = dict(attrs or {})
        self.calls = calls
        self.objcmp = objcmp


CMP_Z = {ast.Lt: "<?", ast.LtE: "<=?", ast.Gt: ">?", ast.GtE: ">=?", ast.Eq: "=?"}
BIN_Z = {ast.Add: "+", ast.Sub: "-", ast.Mult: "*", ast.Mod: "mod", ast.FloorDiv: "/", ast.Pow: "^"}


class ExprT:
    def __init__(self, env: Env):
        self.env = env

    def expr(self, n: ast.AST) -> tuple[str, str]:
        if isinstance(n, ast.Constant):
            if n.value is True:
                return "true", "bool"
            if n.value is False:
                return "false", "bool"
            if isinstance(n.value, int):
                return f"({n.value})", "Z"
            fail(n, "constant of unsupported type")
        if isinstance(n, ast.Name):
            if n.id in self.env.names:
                return self.env.names[n.id]
            fail(n, "unknown name")
        if isinstance(n, ast.Attribute):
            if isinstance(n.value, ast.Name) and (n.value.id, n.attr) in self.env.attrs:
                return self.env.attrs[(n.value.id, n.attr)]
            fail(n, "unknown attribute")
        if isinstance(n, ast.BinOp):
            op = BIN_Z.get(type(n.op))
            if op is None:
                fail(n, "unsupported binary operator")
            (a, ta), (b, tb) = self.expr(n.left), self.expr(n.right)
            if ta != "Z" or tb != "Z":
                fail(n, "arithmetic on non-integers")
            return f"({a} {op} {b})", "Z"
        if isinstance(n, ast.UnaryOp):
            a, ta = self.expr(n.operand)
            if isinstance(n.op, ast.Not) and ta == "bool":
                return f"(negb {a})", "bool"
            if isinstance(n.op, ast.USub) and ta == "Z":
                return f"(- {a})", "Z"
            fail(n, "unsupported unary operator")
        if isinstance(n, ast.BoolOp):
            parts = [self.expr(v) for v in n.values]
            if any(t != "bool" for _, t in parts):
                fail(n, "and/or on non-booleans")
            op = "&&" if isinstance(n.op, ast.And) else "||"
            out = parts[0][0]
            for p, _ in parts[1:]:
                out = f"({out} {op} {p})"
            return out, "bool"
        if isinstance(n, ast.Compare):
            # chained comparisons become a conjunction
            lefts = [n.left] + n.comparators[:-1]
            outs = []
            for l, op, r in zip(lefts, n.ops, n.comparators):
                if self.env.objcmp is not None:
                    got = self.env.objcmp(op, l, r)
                    if got is not None:
                        outs.append(got[0])
                        continue
                (a, ta), (b, tb) = self.expr(l), self.expr(r)
                if ta == "Z" and tb == "Z":
                    if isinstance(op, ast.NotEq):
                        outs.append(f"(negb ({a} =? {b}))")
                    elif type(op) in CMP_Z:
                        outs.append(f"({a} {CMP_Z[type(op)]} {b})")
                    else:
                        fail(n, "unsupported comparison")
                elif ta == "bool" and tb == "bool" and isinstance(op, ast.Eq):
                    outs.append(f"(Bool.eqb {a} {b})")
                else:
                    fail(n, "comparison of unsupported types")
            out = outs[0]
            for o in outs[1:]:
                out = f"({out} && {o})"
            return out, "bool"
        if isinstance(n, ast.IfExp):
            (c, tc), (a, ta), (b, tb) = self.expr(n.test), self.expr(n.body), self.expr(n.orelse)
            if tc != "bool" or ta != tb:
                fail(n, "ill-typed conditional expression")
            return f"(if {c} then {a} else {b})", ta
        if isinstance(n, ast.Call) and self.env.calls is not None:
            got = self.env.calls(self, n)
            if got is not None:
                return got
        fail(n, "unsupported expression")


def write_if_changed(path: str, text: str) -> bool:
    old = open(path).read() if os.path.exists(path) else None
    if old == text:
        return False
    with open(path, "w") as f:
        f.write(text)
    return True
