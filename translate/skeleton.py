"""Exception-skeleton extractor (T-tie for C55, DESIGN.md section 4 / 5-C55).

For a Python function it produces the *exception skeleton* described in coq/C55/Model.v:

    Skip | Total site | MayRaise site | RaiseNew site kind | Reraise site | Return | Seq | Choice |
    IfFlag flag | Loop | Try body handlers | Call f flags

Every operation of the source becomes ``MayRaise`` (an adversary may make it raise anything)
UNLESS it matches one of the rules of the audited whitelist below, in which case it becomes
``Total`` (or disappears, for loads of locals / constants).  The default is therefore the safe
one: an operation this file does not understand is assumed to be able to raise, which can only
make the Coq checker answer "may escape".  Statement forms that are not understood at all
(``finally``, ``with``, ``while`` ...) raise ``Untranslatable`` (fail-closed).

THE WHITELIST (the trusted part; restated in design.d/C55.md and the evidence file).  Types are
inferred for local variables only: ``str`` (a real text string), ``dict`` (the event parameter, by
the property's assumption that an event is a real ``dict`` that hooks do not mutate), ``none``,
``bool``, ``failure`` (result of ``Failure()``), ``strseq`` (list/tuple display of ``str``), and
``other`` (anything; never trusted).

  W1  constants, loads of local/global names, ``lambda`` (not called), ``cast(T, x)`` (= x)
  W2  ``x is None`` / ``x is not None``; truth value / ``not`` of a ``str``/``bool``/``none``/``dict``
  W3  ``<const str> in event``, ``event.get(<const>, <total default>)``, ``event.items()`` on the dict
      typed event; ``event[<const>]`` only where an enclosing ``if`` tested ``<const> in event``
  W4  on ``str``-typed values: ``a + b``, ``s.replace(a, b)``, ``s.endswith(a)``,
      ``sep.join(<list/tuple display of str>)``,
      ``sep.join(<generator over event.items() whose element is total and str>)``,
      ``str(s)``, ``isinstance(s, <name>)``
  W5  ``"<literal>".format(k=v, ...)`` when the literal's replacement fields are plain ``{k}`` (no
      conversion, no spec, no attribute/index) and every ``v`` is ``str``, or ``failure``
      (``Failure.__str__`` -> ``getBriefTraceback`` uses ``safe_str`` on the exception value)
  W6  ``safe_repr(x)``, ``safe_str(x)`` (twisted.python.reflect: ``except BaseException`` around the
      call, the fallback formats class name / id / ``traceback.print_exc`` text), returning ``str``
  W7  ``Failure()`` with no arguments inside an ``except`` handler (``sys.exc_info()`` is set)
  W8  a function annotated ``-> str`` returns ``str`` when every ``return`` in it is ``str``-typed under
      these rules (checked here; otherwise a ``RaiseNew`` "non-text return" atom is emitted)
"""
from __future__ import annotations

import ast
import builtins
import string
from dataclasses import dataclass, field
from typing import Optional

from translate.py2coq import Untranslatable, fail, strip_doc

STR, DICT, NONE, BOOL, FLAG, FAILURE, STRSEQ, ITEMS, OTHER = (
    "str", "dict", "none", "bool", "flag", "failure", "strseq", "items", "other")

TOTAL_FUNCS = {"safe_repr": STR, "safe_str": STR}      # W6


@dataclass
class Site:
    id: int
    func: str
    kind: str            # may | total | raise | reraise | handler | call | badreturn
    span: tuple          # (lineno, col, end_lineno, end_col) of the AST node
    text: str
    exc: Optional[str] = None       # for raise sites: KExc / KKbd / KBase


@dataclass
class FuncInfo:
    name: str            # qualified model name, e.g. "eventAsText" or "log._safeFormat"
    node: ast.FunctionDef
    module: str          # source file (relative to src/)
    fid: int = 0
    flags: dict = field(default_factory=dict)     # flag param name -> default bool
    ret: str = OTHER     # STR / "optstr" / OTHER  from the annotation
    skel: str = ""


class Extractor:
    def __init__(self, funcs: list[FuncInfo], event_params=("event", "eventDict")):
        self.funcs = {f.name: f for f in funcs}
        self.by_pyname = {}
        for f in funcs:
            self.by_pyname.setdefault((f.module, f.node.name), f)
        self.sites: list[Site] = []
        self.flag_ids: dict[str, int] = {}
        self.event_params = set(event_params)
        for i, f in enumerate(funcs):
            f.fid = i
            self._signature(f)

    # ------------------------------------------------------------------ signatures
    def _signature(self, f: FuncInfo):
        a = f.node.args
        params = a.posonlyargs + a.args
        defaults = [None] * (len(params) - len(a.defaults)) + list(a.defaults)
        for p, d in list(zip(params, defaults)) + list(zip(a.kwonlyargs, a.kw_defaults)):
            ann = ast.unparse(p.annotation) if p.annotation is not None else ""
            if ann == "bool":
                if not (isinstance(d, ast.Constant) and isinstance(d.value, bool)):
                    fail(p, "bool parameter without a constant default")
                f.flags[p.arg] = d.value
                self.flag_ids.setdefault(p.arg, len(self.flag_ids))
        r = ast.unparse(f.node.returns) if f.node.returns is not None else ""
        f.ret = STR if r == "str" else ("optstr" if r == "Optional[str]" else OTHER)

    # ------------------------------------------------------------------ helpers
    def site(self, fn: FuncInfo, kind: str, node: ast.AST, exc=None, text=None) -> int:
        span = (node.lineno, node.col_offset, node.end_lineno, node.end_col_offset)
        if kind == "may":        # one adversary per source span (e.g. ``x.y`` and its truth value)
            for old in self.sites:
                if old.kind == "may" and old.func == fn.name and old.span == span:
                    return old.id
        s = Site(len(self.sites), fn.name, kind, span, (text or ast.unparse(node))[:80].replace("\n", " "), exc)
        self.sites.append(s)
        return s.id

    @staticmethod
    def seq(parts: list[str]) -> str:
        parts = [p for p in parts if p != "Skip"]
        if not parts:
            return "Skip"
        out = parts[-1]
        for p in reversed(parts[:-1]):
            out = f"(Seq {p} {out})"
        return out

    def may(self, fn, node, text=None) -> str:
        return f"(MayRaise {self.site(fn, 'may', node, text=text)})"

    def total(self, fn, node) -> str:
        return f"(Total {self.site(fn, 'total', node)})"

    # ------------------------------------------------------------------ expressions
    def truth(self, fn, node, env) -> list[str]:
        """atoms for evaluating ``node`` in a boolean context"""
        if isinstance(node, ast.UnaryOp) and isinstance(node.op, ast.Not):
            return self.truth(fn, node.operand, env)
        if isinstance(node, ast.BoolOp):
            vals = [self.seq(self.truth(fn, v, env)) for v in node.values]
            out = vals[-1]
            for v in reversed(vals[:-1]):
                out = self.seq([v, f"(Choice Skip {out})"]) if out != "Skip" else v
            return [out]
        atoms, ty = self.expr(fn, node, env)
        if ty not in (STR, BOOL, NONE, DICT, FLAG):
            atoms.append(self.may(fn, node, text="bool(" + ast.unparse(node) + ")"))
        return atoms

    def expr(self, fn: FuncInfo, n: ast.AST, env: dict) -> tuple[list[str], str]:
        """-> (atoms in evaluation order, inferred type)"""
        if isinstance(n, ast.Constant):                                             # W1
            v = n.value
            return [], (STR if isinstance(v, str) else NONE if v is None else BOOL if isinstance(v, bool) else OTHER)
        if isinstance(n, ast.Name):                                                 # W1
            return [], env["types"].get(n.id, OTHER)
        if isinstance(n, ast.Lambda):                                               # W1
            return [], OTHER
        if isinstance(n, ast.JoinedStr):
            atoms = []
            for v in n.values:
                if isinstance(v, ast.FormattedValue):
                    a, ty = self.expr(fn, v.value, env)
                    atoms += a
                    if not (ty == STR and v.conversion == -1 and v.format_spec is None):
                        atoms.append(self.may(fn, v))
            return atoms, STR
        if isinstance(n, (ast.List, ast.Tuple)):
            atoms, tys = [], []
            for e in n.elts:
                if isinstance(e, ast.Starred):
                    fail(e, "starred element")
                a, ty = self.expr(fn, e, env)
                atoms += a
                tys.append(ty)
            return atoms, (STRSEQ if all(t == STR for t in tys) else OTHER)
        if isinstance(n, ast.UnaryOp) and isinstance(n.op, ast.Not):
            return self.truth(fn, n.operand, env), BOOL
        if isinstance(n, ast.BoolOp):
            return self.truth(fn, n, env), OTHER
        if isinstance(n, ast.IfExp):
            t = self.truth(fn, n.test, env)
            (a, ta), (b, tb) = self.expr(fn, n.body, env), self.expr(fn, n.orelse, env)
            return t + [f"(Choice {self.seq(a)} {self.seq(b)})"], (ta if ta == tb else OTHER)
        if isinstance(n, ast.Compare):
            if len(n.ops) != 1:
                fail(n, "chained comparison")
            op, l, r = n.ops[0], n.left, n.comparators[0]
            (a, ta), (b, tb) = self.expr(fn, l, env), self.expr(fn, r, env)
            if isinstance(op, (ast.Is, ast.IsNot)):                                # W2
                return a + b, BOOL
            if isinstance(op, (ast.In, ast.NotIn)) and tb == DICT and isinstance(l, ast.Constant) \
                    and isinstance(l.value, str):                                   # W3
                return a + b, BOOL
            if isinstance(op, (ast.Eq, ast.NotEq)) and ta == STR and tb == STR:
                return a + b, BOOL
            return a + b + [self.may(fn, n)], BOOL
        if isinstance(n, ast.BinOp):
            (a, ta), (b, tb) = self.expr(fn, n.left, env), self.expr(fn, n.right, env)
            if isinstance(n.op, ast.Add) and ta == STR and tb == STR:               # W4
                return a + b, STR
            # "literal" % x is a real str whenever it returns
            lit = isinstance(n.op, ast.Mod) and isinstance(n.left, ast.Constant) and isinstance(n.left.value, str)
            return a + b + [self.may(fn, n)], (STR if lit else OTHER)
        if isinstance(n, ast.Attribute):
            a, _ = self.expr(fn, n.value, env)
            return a + [self.may(fn, n)], OTHER
        if isinstance(n, ast.Subscript):
            (a, ta), (b, _) = self.expr(fn, n.value, env), self.expr(fn, n.slice, env)
            if ta == DICT and isinstance(n.slice, ast.Constant) and n.slice.value in env["guards"]:   # W3
                return a + b, OTHER
            return a + b + [self.may(fn, n)], OTHER
        if isinstance(n, ast.Call):
            return self.call(fn, n, env)
        fail(n, "expression form not handled by the skeleton extractor")

    def args(self, fn, n: ast.Call, env):
        atoms, tys, kws = [], [], {}
        for a in n.args:
            if isinstance(a, ast.Starred):
                fail(a, "starred argument")
            x, ty = self.expr(fn, a, env)
            atoms += x
            tys.append(ty)
        for k in n.keywords:
            if k.arg is None:
                fail(n, "**kwargs")
            x, ty = self.expr(fn, k.value, env)
            atoms += x
            kws[k.arg] = (k.value, ty)
        return atoms, tys, kws

    def call(self, fn: FuncInfo, n: ast.Call, env) -> tuple[list[str], str]:
        f = n.func
        if isinstance(f, ast.Name):
            name = f.id
            shadowed = name in env["params"] or name in env["assigned"]
            if name == "cast" and len(n.args) == 2 and not n.keywords and not shadowed:       # W1
                return self.expr(fn, n.args[1], env)
            atoms, tys, kws = self.args(fn, n, env)
            if not shadowed:
                if name in TOTAL_FUNCS and len(tys) == 1 and not kws:                        # W6
                    return atoms + [self.total(fn, n)], TOTAL_FUNCS[name]
                if name == "Failure" and not tys and not kws and env["in_handler"]:           # W7
                    return atoms + [self.total(fn, n)], FAILURE
                if name == "str" and tys == [STR] and not kws:                               # W4
                    return atoms, STR
                if name == "isinstance" and len(tys) == 2 and tys[0] in (STR, NONE, BOOL, DICT) \
                        and isinstance(n.args[1], ast.Name):                                  # W4
                    return atoms, BOOL
                callee = self.by_pyname.get((fn.module, name)) or self._imported(fn, name)
                if callee is not None:
                    fl = []
                    for k, (v, _) in kws.items():
                        if k in callee.flags and isinstance(v, ast.Constant) and isinstance(v.value, bool):
                            fl.append((self.flag_ids[k], v.value))
                        elif k in callee.flags:
                            fl.append((self.flag_ids[k], None))
                    if any(v is None for _, v in fl):
                        fail(n, "non-constant value for a boolean keyword parameter")
                    self.site(fn, "call", n)
                    flt = "[" + "; ".join(f"({i}, {'true' if v else 'false'})" for i, v in fl) + "]"
                    ty = STR if callee.ret == STR else OTHER
                    return atoms + [f"(Call {callee.fid} {flt})"], ty
            ty = OTHER if shadowed else {"str": STR, "isinstance": BOOL}.get(name, OTHER)
            return atoms + [self.may(fn, n)], ty
        if isinstance(f, ast.Attribute):
            recv, tr = self.expr(fn, f.value, env)
            m = f.attr
            if tr == STR and m == "join" and len(n.args) == 1 and isinstance(n.args[0], ast.GeneratorExp) \
                    and not n.keywords:                                                      # W4
                ok = self._total_generator(fn, n.args[0], env)
                return recv + [self.total(fn, n) if ok else self.may(fn, n)], STR
            atoms, tys, kws = self.args(fn, n, env)
            if tr == DICT and not kws:                                                       # W3
                if m == "get" and 1 <= len(tys) <= 2 and isinstance(n.args[0], ast.Constant) and not atoms:
                    return recv, OTHER
                if m == "items" and not tys:
                    return recv, ITEMS
            if tr == STR and not kws:                                                        # W4
                if m in ("replace", "endswith", "startswith") and tys and all(t == STR for t in tys):
                    return recv + atoms, (STR if m == "replace" else BOOL)
                if m == "join" and tys == [STRSEQ]:
                    return recv + atoms, STR
            if m == "format" and isinstance(f.value, ast.Constant) and isinstance(f.value.value, str) \
                    and not tys:                                                             # W5
                ok = self._total_format(f.value.value, kws)
                return recv + atoms + ([] if ok == "pure" else [self.total(fn, n)] if ok else [self.may(fn, n)]), STR
            # str.join / str.replace / str.format return a real str whenever they return at all
            ty = STR if (tr == STR and m in ("join", "replace", "format")) else OTHER
            return recv + atoms + [self.may(fn, n)], ty
        # calling the result of an expression
        recv, _ = self.expr(fn, f, env)
        atoms, _, _ = self.args(fn, n, env)
        return recv + atoms + [self.may(fn, n)], OTHER

    def _imported(self, fn: FuncInfo, name: str):
        """a listed function of another module imported by name (e.g. flatFormat in _format.py)"""
        cands = [f for (mod, py), f in self.by_pyname.items() if py == name and mod != fn.module]
        if len(cands) == 1 and name in fn_imports(fn):
            return cands[0]
        return None

    def _total_generator(self, fn, g: ast.GeneratorExp, env) -> bool:
        """W4: generator over event.items() whose element expression is total and str-typed"""
        if len(g.generators) != 1:
            return False
        c = g.generators[0]
        if c.ifs or c.is_async:
            return False
        probe = Extractor.__new__(Extractor)          # scratch extractor: do not record sites
        probe.__dict__.update(self.__dict__)
        probe.sites = []
        _, ti = probe.expr(fn, c.iter, env)
        if ti != ITEMS:
            return False
        env2 = dict(env, types=dict(env["types"]))
        for t in ast.walk(c.target):
            if isinstance(t, ast.Name):
                env2["types"][t.id] = OTHER
        atoms, ty = probe.expr(fn, g.elt, env2)
        return ty == STR and all(a.startswith("(Total") for a in atoms)

    @staticmethod
    def _total_format(lit: str, kws) -> object:
        try:
            fields = list(string.Formatter().parse(lit))
        except ValueError:
            return False
        verdict = "pure"
        for _, name, spec, conv in fields:
            if name is None:
                continue
            if spec or conv or name not in kws or not name.isidentifier():
                return False
            ty = kws[name][1]
            if ty == FAILURE:
                verdict = True
            elif ty != STR:
                return False
        return verdict

    # ------------------------------------------------------------------ statements
    def block(self, fn, body, env) -> str:
        return self.seq([self.stmt(fn, s, env) for s in body])

    @staticmethod
    def merge(a: dict, b: dict) -> dict:
        out = {}
        for k in set(a) | set(b):
            out[k] = a.get(k, OTHER) if a.get(k, OTHER) == b.get(k, OTHER) else OTHER
        return out

    def assign(self, fn, target, ty, env) -> list[str]:
        if isinstance(target, ast.Name):
            env["types"][target.id] = ty
            env["assigned"].add(target.id)
            return []
        if isinstance(target, (ast.Tuple, ast.List)):
            out = []
            for t in target.elts:
                out += self.assign(fn, t, OTHER, env)
            return out + ([self.may(fn, target, text="unpack " + ast.unparse(target))])
        a, _ = self.expr(fn, target.value, env) if isinstance(target, (ast.Attribute, ast.Subscript)) else ([], 0)
        if isinstance(target, ast.Subscript):
            a += self.expr(fn, target.slice, env)[0]
        return a + [self.may(fn, target, text="store " + ast.unparse(target))]

    def stmt(self, fn: FuncInfo, s: ast.stmt, env) -> str:
        if isinstance(s, ast.Pass):
            return "Skip"
        if isinstance(s, ast.Expr):
            return self.seq(self.expr(fn, s.value, env)[0])
        if isinstance(s, ast.Assign):
            atoms, ty = self.expr(fn, s.value, env)
            for t in s.targets:
                atoms += self.assign(fn, t, ty, env)
            return self.seq(atoms)
        if isinstance(s, ast.AnnAssign):
            if s.value is None:
                return "Skip"
            atoms, ty = self.expr(fn, s.value, env)
            return self.seq(atoms + self.assign(fn, s.target, ty, env))
        if isinstance(s, ast.AugAssign):
            atoms, ty = self.expr(fn, s.value, env)
            tt = env["types"].get(s.target.id, OTHER) if isinstance(s.target, ast.Name) else OTHER
            if not (isinstance(s.op, ast.Add) and ty == STR and tt == STR):
                atoms.append(self.may(fn, s))
                if isinstance(s.target, ast.Name):
                    env["types"][s.target.id] = OTHER
            return self.seq(atoms)
        if isinstance(s, ast.Return):
            atoms, ty = ([], NONE) if s.value is None else self.expr(fn, s.value, env)
            ok = fn.ret == OTHER or ty == STR or (fn.ret == "optstr" and ty == NONE)
            if not ok:                                                                       # W8
                atoms.append(f"(RaiseNew {self.site(fn, 'badreturn', s, exc='KExc')} KExc)")
            return self.seq(atoms + ["Return"])
        if isinstance(s, ast.Raise):
            if s.exc is None:
                return f"(Reraise {self.site(fn, 'reraise', s)})"
            if s.cause is not None:
                fail(s, "raise ... from")
            e = s.exc
            cname = e.func.id if isinstance(e, ast.Call) and isinstance(e.func, ast.Name) else \
                e.id if isinstance(e, ast.Name) else None
            kind = exc_kind(cname)
            if kind is None:
                fail(s, "raise of an unknown class")
            atoms = self.args(fn, e, env)[0] if isinstance(e, ast.Call) else []
            return self.seq(atoms + [f"(RaiseNew {self.site(fn, 'raise', s, exc=kind)} {kind})"])
        if isinstance(s, ast.If):
            flag, rest = None, s.test
            if isinstance(rest, ast.Name) and env["types"].get(rest.id) == FLAG:
                flag, rest = rest.id, None
            elif isinstance(rest, ast.BoolOp) and isinstance(rest.op, ast.And) and isinstance(rest.values[0], ast.Name) \
                    and env["types"].get(rest.values[0].id) == FLAG:
                flag = rest.values[0].id
                rest = rest.values[1] if len(rest.values) == 2 else ast.BoolOp(op=ast.And(), values=rest.values[1:])
            test = self.seq(self.truth(fn, rest, env)) if rest is not None else "Skip"
            guards = set(env["guards"])
            for c in ([rest] if rest is not None and not isinstance(rest, ast.BoolOp) else
                      (rest.values if isinstance(rest, ast.BoolOp) and isinstance(rest.op, ast.And) else [])):
                if isinstance(c, ast.Compare) and len(c.ops) == 1 and isinstance(c.ops[0], ast.In) \
                        and isinstance(c.left, ast.Constant) and isinstance(c.comparators[0], ast.Name) \
                        and env["types"].get(c.comparators[0].id) == DICT:
                    guards.add(c.left.value)
            e1 = dict(env, types=dict(env["types"]), guards=guards)
            e2 = dict(env, types=dict(env["types"]))
            a = self.block(fn, s.body, e1)
            b = self.block(fn, s.orelse, e2)
            env["types"] = self.merge(e1["types"], e2["types"])
            if flag is None:
                return self.seq([test, f"(Choice {a} {b})"])
            return f"(IfFlag {self.flag_ids[flag]} {self.seq([test, f'(Choice {a} {b})'])} {b})"
        if isinstance(s, ast.For):
            if s.orelse:
                fail(s, "for/else")
            atoms, ti = self.expr(fn, s.iter, env)
            # CPython attributes an exception raised by the iterator's __next__ to the whole for statement
            nxt = "Skip" if ti in (STRSEQ, ITEMS) else self.may(fn, s, text="next(iter(" + ast.unparse(s.iter) + "))")
            e1 = dict(env, types=dict(env["types"]))
            tgt = self.assign(fn, s.target, OTHER, e1)
            body = self.block(fn, s.body, e1)
            env["types"] = self.merge(env["types"], e1["types"])
            return self.seq(atoms + [nxt, f"(Loop {self.seq(tgt + [body, nxt])})"])
        if isinstance(s, ast.Try):
            if s.finalbody or s.orelse:
                fail(s, "try with finally/else")
            e0 = dict(env, types=dict(env["types"]))
            body = self.block(fn, s.body, e0)
            # a handler may start after any prefix of the body: forget what the body assigned
            assigned = {t.id for st in s.body for t in ast.walk(st) if isinstance(t, ast.Name)
                        and isinstance(t.ctx, ast.Store)}
            ends = [e0["types"]]
            hs = "HNil"
            hparts = []
            for h in s.handlers:
                c = catch_of(h.type)
                if c is None:
                    fail(h, "handler class not understood")
                eh = dict(env, types={k: (OTHER if k in assigned else v) for k, v in env["types"].items()},
                          in_handler=True)
                if h.name:
                    eh["types"][h.name] = OTHER
                    eh["assigned"] = set(env["assigned"]) | {h.name}
                hid = self.site(fn, "handler", h.body[0], text=f"except {ast.unparse(h.type) if h.type else ''}")
                hparts.append((c, hid, self.block(fn, h.body, eh)))
                ends.append(eh["types"])
            for c, hid, hb in reversed(hparts):
                hs = f"(HCons {c} {hid} {hb} {hs})"
            t = ends[0]
            for e in ends[1:]:
                t = self.merge(t, e)
            env["types"] = t
            return f"(Try {body} {hs})"
        if isinstance(s, (ast.FunctionDef, ast.Import, ast.ImportFrom, ast.Global, ast.Nonlocal)):
            return "Skip"
        if isinstance(s, ast.Assert):
            return self.seq(self.truth(fn, s.test, env) + [self.may(fn, s)])
        fail(s, "statement form not handled by the skeleton extractor")

    def function(self, f: FuncInfo) -> str:
        a = f.node.args
        if a.vararg or a.kwarg:
            fail(f.node, "*args/**kwargs")
        params = [p.arg for p in a.posonlyargs + a.args + a.kwonlyargs]
        types = {}
        for p in params:
            types[p] = FLAG if p in f.flags else (DICT if p in self.event_params else OTHER)
        env = {"types": types, "guards": set(), "params": set(params), "assigned": set(), "in_handler": False}
        f.skel = self.block(f, strip_doc(f.node.body), env)
        return f.skel


_IMPORTS_CACHE: dict = {}


def fn_imports(fn: FuncInfo) -> set:
    return _IMPORTS_CACHE.get(fn.module, set())


def register_imports(module: str, tree: ast.Module):
    names = set()
    for n in tree.body:
        if isinstance(n, ast.ImportFrom):
            for a in n.names:
                names.add(a.asname or a.name)
    _IMPORTS_CACHE[module] = names


def exc_kind(cname: Optional[str]) -> Optional[str]:
    cls = getattr(builtins, cname, None) if cname else None
    if not (isinstance(cls, type) and issubclass(cls, BaseException)):
        return None
    if issubclass(cls, Exception):
        return "KExc"
    if issubclass(cls, KeyboardInterrupt):
        return "KKbd"
    return "KBase"


def catch_of(t: Optional[ast.AST]) -> Optional[str]:
    if t is None:
        return "CatchAll"
    if isinstance(t, ast.Tuple):
        cs = {catch_of(e) for e in t.elts}
        if len(cs) == 1 and cs <= {"CatchSomeExc", "CatchSomeBase"}:
            return cs.pop()
        return None
    if not isinstance(t, ast.Name):
        return None
    cls = getattr(builtins, t.id, None)
    if not (isinstance(cls, type) and issubclass(cls, BaseException)):
        return None
    if cls is BaseException:
        return "CatchAll"
    if cls is Exception:
        return "CatchExc"
    if cls is KeyboardInterrupt:
        return "CatchKbd"
    if issubclass(cls, Exception):
        return "CatchSomeExc"
    return "CatchSomeBase"
