"""T-tie front-end for C37: src/twisted/conch/ssh/common.py NS/getNS/MP/getMP -> coq/C37/Gen.v.

A small fail-closed translator for straight-line byte-string code:

  types   Z (Python int)   B (bytes = list N)   LB / LZ (Python list of bytes / ints)   bool
  exprs   int / bytes constants, names, a + b (ints, bytes), bytes-constant * int-constant,
          a & const, len(x), s[a:b], s[a:], ord(x), struct.pack("!L"|">L", e),
          int.from_bytes(x, "big"), int_to_bytes(x), comparisons of ints
  stmts   x = e;  (x,) = struct.unpack("!L"|">L", e);  x += e;  xs = [];  xs.append(e);
          assert e;  if e: <stmts without else>;  return e;
          for _ in range(count): <stmts>   (loop-carried variables become arguments of a Fixpoint)
          return tuple(xs) + (e,)

Every partial operation contributes a *guard* evaluated in Python's order: when it is false the
function's value is ``Err <exception class>`` (struct.error, AssertionError, TypeError,
OverflowError).  The ``isinstance(t, str)`` prologue of NS (text is UTF-8 encoded first) is
recognised structurally and is outside the model: the property is about byte strings.
Anything else raises Untranslatable.
"""
from __future__ import annotations

import ast
import os

from translate.py2coq import Untranslatable, fail, find_def, load_module, strip_doc, write_if_changed

SRC = "src/twisted/conch/ssh/common.py"
COQTY = {"Z": "Z", "B": "list N", "LB": "list (list N)", "LZ": "list Z", "bool": "bool", "nat": "nat"}


def _byteslit(b: bytes) -> str:
    return "(@nil N)" if not b else "[" + ";".join(str(x) for x in b) + "]%N"


class Tr:
    """expression translator: returns (term, type); appends guards (boolean term, exception) in
    evaluation order to self.guards"""

    def __init__(self, env: dict):
        self.env = env            # python name -> (coq name, type)
        self.guards: list[tuple[str, str]] = []

    def fmt(self, n) -> None:
        if not (isinstance(n, ast.Constant) and n.value in ("!L", ">L")):
            fail(n, "unsupported struct format")

    def expr(self, n) -> tuple[str, str]:
        if isinstance(n, ast.Constant):
            if isinstance(n.value, bool):
                fail(n, "boolean constant")
            if isinstance(n.value, int):
                return f"({n.value})", "Z"
            if isinstance(n.value, bytes):
                return _byteslit(n.value), "B"
            fail(n, "unsupported constant")
        if isinstance(n, ast.Name):
            if n.id in self.env:
                return self.env[n.id]
            fail(n, "unknown name")
        if isinstance(n, ast.BinOp):
            if isinstance(n.op, ast.Mult) and isinstance(n.left, ast.Constant) and isinstance(n.left.value, bytes) \
                    and isinstance(n.right, ast.Constant) and isinstance(n.right.value, int) \
                    and 0 <= n.right.value <= 64:
                return _byteslit(n.left.value * n.right.value), "B"
            (a, ta), (b, tb) = self.expr(n.left), self.expr(n.right)
            if isinstance(n.op, ast.Add) and ta == tb == "Z":
                return f"({a} + {b})", "Z"
            if isinstance(n.op, ast.Add) and ta == tb == "B":
                return f"({a} ++ {b})", "B"
            if isinstance(n.op, ast.BitAnd) and ta == tb == "Z":
                return f"(Z.land {a} {b})", "Z"
            fail(n, "unsupported binary operation")
        if isinstance(n, ast.Subscript) and isinstance(n.slice, ast.Slice) and n.slice.step is None:
            s, ts = self.expr(n.value)
            if ts != "B":
                fail(n, "slice of a non-bytes value")
            lo, hi = n.slice.lower, n.slice.upper
            if lo is not None and hi is not None:
                (a, ta), (b, tb) = self.expr(lo), self.expr(hi)
                if ta != "Z" or tb != "Z":
                    fail(n, "non-integer slice bound")
                return f"(pyslice {s} {a} {b})", "B"
            if lo is not None:
                a, ta = self.expr(lo)
                if ta != "Z":
                    fail(n, "non-integer slice bound")
                return f"(pyslice_from {s} {a})", "B"
            fail(n, "unsupported slice")
        if isinstance(n, ast.Compare) and len(n.ops) == 1:
            (a, ta), (b, tb) = self.expr(n.left), self.expr(n.comparators[0])
            ops = {ast.Eq: "=?", ast.Gt: ">?", ast.Lt: "<?", ast.GtE: ">=?", ast.LtE: "<=?"}
            if ta == tb == "Z" and type(n.ops[0]) in ops:
                return f"({a} {ops[type(n.ops[0])]} {b})", "bool"
            fail(n, "unsupported comparison")
        if isinstance(n, ast.Call) and not n.keywords:
            f = ast.unparse(n.func)
            if f == "len" and len(n.args) == 1:
                a, ta = self.expr(n.args[0])
                if ta != "B":
                    fail(n, "len of a non-bytes value")
                return f"(Z.of_N (blen {a}))", "Z"
            if f == "ord" and len(n.args) == 1:
                a, ta = self.expr(n.args[0])
                if ta != "B":
                    fail(n, "ord of a non-bytes value")
                self.guards.append((f"(blen {a} =? 1)%N", "TypeError"))
                return f"(Z.of_N (hd 0%N {a}))", "Z"
            if f == "struct.pack" and len(n.args) == 2:
                self.fmt(n.args[0])
                a, ta = self.expr(n.args[1])
                if ta != "Z":
                    fail(n, "pack of a non-integer")
                self.guards.append((f"((0 <=? {a}) && ({a} <? 4294967296))", "StructError"))
                return f"(to_be 4 (Z.to_N {a}))", "B"
            if f == "int.from_bytes" and len(n.args) == 2 and isinstance(n.args[1], ast.Constant) \
                    and n.args[1].value == "big":
                a, ta = self.expr(n.args[0])
                if ta != "B":
                    fail(n, "from_bytes of a non-bytes value")
                return f"(Z.of_N (from_be {a}))", "Z"
            if f == "int_to_bytes" and len(n.args) == 1:
                a, ta = self.expr(n.args[0])
                if ta != "Z":
                    fail(n, "int_to_bytes of a non-integer")
                self.guards.append((f"(0 <=? {a})", "OverflowError"))
                return f"(to_be_min (Z.to_N {a}))", "B"
        fail(n, "unsupported expression")

    def truth(self, n) -> str:
        t, ty = self.expr(n)
        if ty == "bool":
            return t
        if ty == "Z":
            return f"(negb ({t} =? 0))"
        fail(n, "truth value of unsupported type")


def _guarded(guards, body: str) -> str:
    for g, exn in reversed(guards):
        body = f"if {g} then {body} else Err {exn}"
    return body


class Fn:
    def __init__(self, name: str, params: list[tuple[str, str]]):
        self.name = name
        self.params = params          # [(name, type)]
        self.aux: list[str] = []      # generated Fixpoints
        self.ret_ty = None

    # ---- statements -----------------------------------------------------------------------
    def block(self, stmts: list, env: dict, k) -> str:
        """translate stmts; k(env) gives the text that follows when the block falls through."""
        if not stmts:
            return k(env)
        st, rest = stmts[0], stmts[1:]
        tr = Tr(env)
        if isinstance(st, ast.Return):
            return self.ret(st, env)
        if isinstance(st, ast.Assert):
            c = tr.truth(st.test)
            tr.guards.append((c, "AssertionError"))
            return _guarded(tr.guards, self.block(rest, env, k))
        if isinstance(st, ast.Assign) and len(st.targets) == 1:
            tgt = st.targets[0]
            if isinstance(tgt, ast.Name):
                if isinstance(st.value, ast.List) and not st.value.elts:
                    return self._empty_list(tgt.id, rest, env, k)
                t, ty = tr.expr(st.value)
                env2 = {**env, tgt.id: (tgt.id, ty)}
                return _guarded(tr.guards, f"let {tgt.id} := {t} in\n  {self.block(rest, env2, k)}")
            if isinstance(tgt, ast.Tuple) and len(tgt.elts) == 1 and isinstance(tgt.elts[0], ast.Name) \
                    and isinstance(st.value, ast.Call) and ast.unparse(st.value.func) == "struct.unpack" \
                    and len(st.value.args) == 2 and not st.value.keywords:
                tr.fmt(st.value.args[0])
                a, ta = tr.expr(st.value.args[1])
                if ta != "B":
                    fail(st, "unpack of a non-bytes value")
                tr.guards.append((f"(blen {a} =? 4)%N", "StructError"))
                x = tgt.elts[0].id
                env2 = {**env, x: (x, "Z")}
                return _guarded(tr.guards, f"let {x} := Z.of_N (from_be {a}) in\n  {self.block(rest, env2, k)}")
            fail(st, "unsupported assignment")
        if isinstance(st, ast.AugAssign) and isinstance(st.target, ast.Name) and isinstance(st.op, ast.Add):
            x = st.target.id
            if env.get(x, (None, None))[1] != "Z":
                fail(st, "+= on a non-integer")
            t, ty = tr.expr(st.value)
            if ty != "Z":
                fail(st, "+= of a non-integer")
            return _guarded(tr.guards, f"let {x} := {x} + {t} in\n  {self.block(rest, env, k)}")
        if isinstance(st, ast.Expr) and isinstance(st.value, ast.Call) and isinstance(st.value.func, ast.Attribute) \
                and st.value.func.attr == "append" and isinstance(st.value.func.value, ast.Name) \
                and len(st.value.args) == 1 and not st.value.keywords:
            xs = st.value.func.value.id
            if xs not in env or env[xs][1] not in ("L?", "LB", "LZ"):
                fail(st, "append to a non-list")
            t, ty = tr.expr(st.value.args[0])
            lty = {"B": "LB", "Z": "LZ"}.get(ty)
            if lty is None or env[xs][1] not in ("L?", lty):
                fail(st, "list element type")
            self.listty[xs] = lty
            env2 = {**env, xs: (xs, lty)}
            return _guarded(tr.guards, f"let {xs} := {xs} ++ [{t}] in\n  {self.block(rest, env2, k)}")
        if isinstance(st, ast.If) and not st.orelse:
            c = tr.truth(st.test)
            # body either returns, or re-binds existing variables
            if isinstance(st.body[-1], ast.Return):
                return _guarded(tr.guards, f"if {c} then {self.block(st.body, env, None)}\n  else "
                                           f"{self.block(rest, env, k)}")
            assigned = _assigned(st.body)
            if not all(v in env for v in assigned):
                fail(st, "if-body introduces a new variable")
            tup = _tuple(assigned)
            inner = self.block(st.body, env, lambda e: f"Ok {tup}")
            return _guarded(tr.guards,
                            f"match (if {c} then {inner} else Ok {tup}) with\n  | Err e => Err e\n  | Ok {tup} =>\n  "
                            f"{self.block(rest, env, k)}\n  end")
        if isinstance(st, ast.For) and not st.orelse and isinstance(st.iter, ast.Call) \
                and ast.unparse(st.iter.func) == "range" and len(st.iter.args) == 1 \
                and isinstance(st.iter.args[0], ast.Name) and isinstance(st.target, ast.Name):
            cnt = st.iter.args[0].id
            if env.get(cnt, (None, None))[1] != "nat":
                fail(st, "range() over something that is not the count parameter")
            if st.target.id in _names_used(st.body):
                fail(st, "loop index is used in the body")
            carried = [v for v in _assigned(st.body) if v in env]
            # element types of carried lists are fixed by the body
            probe_env = dict(env)
            self.block(st.body, probe_env, lambda e: "")     # fills self.listty
            for v in carried:
                if env[v][1] == "L?":
                    env = {**env, v: (v, self.listty[v])}
            ro = [v for v, (_, ty) in env.items() if v not in carried and v != cnt and v in _names_used(st.body)]
            tup = _tuple(carried)
            lname = f"{self.name}_loop"
            args = " ".join(f"({v} : {COQTY[env[v][1]]})" for v in ro + carried)
            rty = " * ".join(COQTY[env[v][1]] for v in carried)
            call = f"{lname} {cnt}' " + " ".join(ro + carried)
            body = self.block(st.body, env, lambda e: call)
            self.aux.append(
                f"Fixpoint {lname} ({cnt} : nat) {args} {{struct {cnt}}} : res ({rty}) :=\n"
                f"  match {cnt} with\n  | O => Ok {tup}\n  | S {cnt}' =>\n  {body}\n  end.")
            return (f"match {lname} {cnt} {' '.join(ro + carried)} with\n  | Err e => Err e\n  | Ok {tup} =>\n  "
                    f"{self.block(rest, env, k)}\n  end")
        fail(st, "unsupported statement")

    def _empty_list(self, name, rest, env, k):
        env2 = {**env, name: (name, "L?")}
        body = self.block(rest, env2, k)
        ty = self.listty.get(name)
        if ty is None:
            raise Untranslatable(f"cannot determine the element type of list {name}")
        return f"let {name} := (@nil {COQTY[ty][5:]}) in\n  {body}"

    def ret(self, st: ast.Return, env) -> str:
        tr = Tr(env)
        v = st.value
        # tuple(xs) + (e,)
        if isinstance(v, ast.BinOp) and isinstance(v.op, ast.Add) and isinstance(v.left, ast.Call) \
                and ast.unparse(v.left.func) == "tuple" and len(v.left.args) == 1 \
                and isinstance(v.left.args[0], ast.Name) and isinstance(v.right, ast.Tuple) and len(v.right.elts) == 1:
            xs = v.left.args[0].id
            lty = env.get(xs, (None, None))[1]
            if lty == "L?":
                lty = self.listty.get(xs)
            if lty not in ("LB", "LZ"):
                fail(st, "tuple() of a non-list")
            t, ty = tr.expr(v.right.elts[0])
            self._set_ret(f"{COQTY[lty]} * {COQTY[ty]}", st)
            return _guarded(tr.guards, f"Ok ({xs}, {t})")
        t, ty = tr.expr(v)
        self._set_ret(COQTY[ty], st)
        return _guarded(tr.guards, f"Ok {t}")

    def _set_ret(self, ty, st):
        if self.ret_ty not in (None, ty):
            fail(st, "returns of different types")
        self.ret_ty = ty

    def translate(self, f: ast.FunctionDef, body: list) -> str:
        self.listty: dict[str, str] = {}
        env = {p: (p, ty) for p, ty in self.params}
        text = self.block(body, env, lambda e: fail(f, "function can fall off its end"))
        args = " ".join(f"({p} : {COQTY[ty]})" for p, ty in self.params)
        out = "\n\n".join(self.aux + [f"Definition {self.name} {args} : res ({self.ret_ty}) :=\n  {text}."])
        return out


def _assigned(stmts) -> list[str]:
    out = []
    for st in stmts:
        for n in ast.walk(st):
            v = None
            if isinstance(n, ast.Assign):
                for t in n.targets:
                    for m in ast.walk(t):
                        if isinstance(m, ast.Name) and m.id not in out:
                            out.append(m.id)
            elif isinstance(n, ast.AugAssign) and isinstance(n.target, ast.Name):
                v = n.target.id
            elif isinstance(n, ast.Call) and isinstance(n.func, ast.Attribute) and n.func.attr == "append" \
                    and isinstance(n.func.value, ast.Name):
                v = n.func.value.id
            if v and v not in out:
                out.append(v)
    return out


def _names_used(stmts) -> set:
    return {n.id for st in stmts for n in ast.walk(st) if isinstance(n, ast.Name)}


def _tuple(vs: list[str]) -> str:
    return vs[0] if len(vs) == 1 else "(" + ", ".join(vs) + ")"


def _check_sig(f: ast.FunctionDef, names: list[str], count_default: bool):
    a = f.args
    if [x.arg for x in a.args] != names or a.vararg or a.kwarg or a.kwonlyargs or a.posonlyargs:
        fail(f, "unexpected signature")
    if count_default:
        if len(a.defaults) != 1 or not (isinstance(a.defaults[0], ast.Constant) and a.defaults[0].value == 1):
            fail(f, "count does not default to 1")
    elif a.defaults:
        fail(f, "unexpected default")


def _ns_prologue(body: list, arg: str) -> list:
    """``if isinstance(t, str): t = t.encode("utf-8")`` -- recognised and dropped."""
    if body and isinstance(body[0], ast.If) and ast.unparse(body[0].test) == f"isinstance({arg}, str)":
        st = body[0]
        if st.orelse or len(st.body) != 1 or ast.unparse(st.body[0]) != f"{arg} = {arg}.encode('utf-8')":
            fail(st, "unexpected text prologue")
        return body[1:]
    return body


def _check_imports(mod: ast.Module):
    ok_struct = ok_itb = False
    for n in mod.body:
        if isinstance(n, ast.Import) and any(a.name == "struct" and a.asname is None for a in n.names):
            ok_struct = True
        if isinstance(n, ast.ImportFrom) and n.module == "cryptography.utils" \
                and any(a.name == "int_to_bytes" and a.asname is None for a in n.names):
            ok_itb = True
    if not (ok_struct and ok_itb):
        raise Untranslatable("struct / cryptography.utils.int_to_bytes are not imported under their own names")
    # no module-level rebinding of the names the kernels use
    defs = [n.name for n in mod.body if isinstance(n, (ast.FunctionDef, ast.ClassDef))]
    for nm in ("NS", "getNS", "MP", "getMP"):
        if defs.count(nm) != 1:
            raise Untranslatable(f"{nm} is not defined exactly once")
    for n in mod.body:
        if isinstance(n, (ast.Assign, ast.AugAssign, ast.AnnAssign)):
            for m in ast.walk(n):
                if isinstance(m, ast.Name) and isinstance(m.ctx, ast.Store) \
                        and m.id in ("struct", "int_to_bytes", "len", "ord", "int", "range", "tuple",
                                     "NS", "getNS", "MP", "getMP"):
                    fail(n, "module-level rebinding of a name used by the kernels")


def generate(repo: str) -> str:
    mod = load_module(os.path.join(repo, SRC))
    _check_imports(mod)
    out = [f"(* GENERATED by translate/c37.py from {SRC} -- do not edit *)",
           "From Coq Require Import List NArith ZArith Bool.",
           "From TwLib Require Import PyInt.",
           "Import ListNotations.",
           "Open Scope Z_scope.", ""]
    specs = [("NS", ["t"], [("t", "B")], False), ("getNS", ["s", "count"], [("s", "B"), ("count", "nat")], True),
             ("MP", ["number"], [("number", "Z")], False),
             ("getMP", ["data", "count"], [("data", "B"), ("count", "nat")], True)]
    for name, argnames, params, cd in specs:
        f = find_def(mod.body, name)
        if f.decorator_list:
            fail(f, "decorated")
        _check_sig(f, argnames, cd)
        body = strip_doc(f.body)
        if name == "NS":
            body = _ns_prologue(body, "t")
        out.append(Fn(name, params).translate(f, body))
        out.append("")
    return "\n".join(out)


def regen(repo: str, coqdir: str):
    try:
        text = generate(repo)
    except Untranslatable as e:
        return f"{SRC}: {e}"
    except (OSError, SyntaxError) as e:
        return f"{SRC}: {e!r}"
    os.makedirs(os.path.join(coqdir, "C37"), exist_ok=True)
    write_if_changed(os.path.join(coqdir, "C37/Gen.v"), text)
    return None


if __name__ == "__main__":
    import sys
    print(generate(sys.argv[1] if len(sys.argv) > 1 else "/repo"))
