"""T-tie front-end for C39: src/twisted/conch/telnet.py -> coq/C39/Gen.v.

Translated (fail-closed, by shape): the four dispatchers telnet_WILL/WONT/DO/DONT (which perspective's
(state, negotiating) selects the handler), the four dict displays willMap/wontMap/doMap/dontMap, the
sixteen handlers they name (as lists of `action`s, coq/C39/Base.v), the request methods will/wont/do/dont
(as `reqspec`s) and the four senders _do/_dont/_will/_wont.  Anything not of the expected shape stops the
translation with the source line.
"""
from __future__ import annotations

import ast
import os

from translate.py2coq import Untranslatable, fail, find_class, find_def, load_module, strip_doc, write_if_changed

MSGS = ["WILL", "WONT", "DO", "DONT"]
SENDERS = {"_will": "WILL", "_wont": "WONT", "_do": "DO", "_dont": "DONT"}
HOOKS = {"enableLocal": "EnableLocal", "enableRemote": "EnableRemote", "disableLocal": "DisableLocal",
         "disableRemote": "DisableRemote"}
REQS = {"will": "WILL", "wont": "WONT", "do": "DO", "dont": "DONT"}


def _u(n) -> str:
    return ast.unparse(n)


def _self_call(n, table):
    """self.<name>(option) -> table[name] or None"""
    if isinstance(n, ast.Call) and isinstance(n.func, ast.Attribute) and isinstance(n.func.value, ast.Name) \
            and n.func.value.id == "self" and n.func.attr in table and len(n.args) == 1 and not n.keywords \
            and _u(n.args[0]) == "option":
        return table[n.func.attr]
    return None


def _senders(cls):
    for name, m in SENDERS.items():
        f = find_def(cls.body, name)
        body = strip_doc(f.body)
        if len(body) != 1 or _u(body[0]) != f"self._write(IAC + {m} + option)":
            fail(f, f"{name} does not send IAC {m} option")


def _dispatch(cls, m):
    f = find_def(cls.body, "telnet_" + m)
    body = strip_doc(f.body)
    if len(body) != 2 or _u(body[0]) != "s = self.getOptionState(option)":
        fail(f, "unexpected dispatcher")
    mapname = m.lower() + "Map"
    for p in ("us", "him"):
        if _u(body[1]) == f"self.{mapname}[s.{p}.state, s.{p}.negotiating](self, s, option)":
            return p, mapname
    fail(body[1], "unexpected dispatcher expression")


def _map(cls, mapname):
    for n in cls.body:
        if isinstance(n, ast.Assign) and len(n.targets) == 1 and _u(n.targets[0]) == mapname:
            d = n.value
            if not isinstance(d, ast.Dict):
                fail(n, "map is not a dict display")
            out = {}
            for k, v in zip(d.keys, d.values):
                if not (isinstance(k, ast.Tuple) and len(k.elts) == 2 and all(isinstance(e, ast.Constant) for e in k.elts)
                        and k.elts[0].value in ("yes", "no") and isinstance(k.elts[1].value, bool)
                        and isinstance(v, ast.Name)):
                    fail(n, "unexpected map entry")
                key = (k.elts[0].value == "yes", k.elts[1].value)
                if key in out:
                    fail(n, "duplicate key")
                out[key] = v.id
            if len(out) != 4:
                fail(n, "map does not have the four (state, negotiating) keys")
            return out
    raise Untranslatable(f"{mapname} not found")


def _actions(stmts, p, where) -> list[str]:
    out = []
    i = 0
    while i < len(stmts):
        st = stmts[i]
        src = _u(st)
        if isinstance(st, ast.Pass):
            pass
        elif src in (f"state.{p}.state = 'yes'", f"state.{p}.state = 'no'"):
            out.append("SetState " + ("true" if src.endswith("'yes'") else "false"))
        elif src == f"state.{p}.negotiating = False":
            out.append("SetNeg false")
        elif src == f"d = state.{p}.onResult":
            if i + 2 >= len(stmts) or _u(stmts[i + 1]) != f"state.{p}.onResult = None":
                fail(st, "onResult is not cleared right after being read")
            fire = _u(stmts[i + 2])
            if fire == "d.callback(True)":
                out.append("Fire ROk")
            elif fire == "d.errback(OptionRefused(option))":
                out.append("Fire RRefused")
            else:
                fail(stmts[i + 2], "unexpected use of the request Deferred")
            i += 2
        elif isinstance(st, ast.Expr) and _self_call(st.value, SENDERS):
            out.append("Send " + _self_call(st.value, SENDERS))
        elif isinstance(st, ast.Expr) and _self_call(st.value, HOOKS):
            out.append("Call " + _self_call(st.value, HOOKS))
        elif isinstance(st, ast.If) and _self_call(st.test, HOOKS):
            a = _actions(st.body, p, where)
            b = _actions(st.orelse, p, where)
            out.append(f"IfHook {_self_call(st.test, HOOKS)} [{'; '.join(a)}] [{'; '.join(b)}]")
        elif isinstance(st, ast.Assert) and isinstance(st.test, ast.Constant) and st.test.value is False:
            out.append("AssertFalse")
        elif isinstance(st, ast.Assert) and _self_call(st.test, HOOKS):
            out.append("AssertHook " + _self_call(st.test, HOOKS))
        else:
            fail(st, f"unexpected statement in {where}")
        i += 1
    return out


def _handler(cls, name, p):
    f = find_def(cls.body, name)
    if [a.arg for a in f.args.args] != ["self", "state", "option"]:
        fail(f, "unexpected handler signature")
    return _actions(strip_doc(f.body), p, name)


def _request(cls, name):
    f = find_def(cls.body, name)
    body = strip_doc(f.body)
    if len(body) != 2 or _u(body[0]) != "s = self.getOptionState(option)" or not isinstance(body[1], ast.If):
        fail(f, "unexpected request method")
    st = body[1]
    if _u(st.test) not in ("s.us.negotiating or s.him.negotiating", "s.him.negotiating or s.us.negotiating") \
            or [_u(x) for x in st.body] != ["return defer.fail(AlreadyNegotiating(option))"]:
        fail(st, "first test is not the AlreadyNegotiating guard")
    if len(st.orelse) != 1 or not isinstance(st.orelse[0], ast.If):
        fail(st, "expected elif")
    st2 = st.orelse[0]
    for p in ("us", "him"):
        for val in ("yes", "no"):
            if _u(st2.test) == f"s.{p}.state == '{val}'":
                err = "AlreadyEnabled" if val == "yes" else "AlreadyDisabled"
                if [_u(x) for x in st2.body] != [f"return defer.fail({err}(option))"]:
                    fail(st2, "state guard does not fail with the matching error")
                want = [f"s.{p}.negotiating = True", f"s.{p}.onResult = d = defer.Deferred()",
                        f"self._{name}(option)", "return d"]
                if [_u(x) for x in st2.orelse] != want:
                    fail(st2, "unexpected request body")
                return f"mkreq {'Us' if p == 'us' else 'Him'} {'true' if val == 'yes' else 'false'} {err} {REQS[name]}"
    fail(st2, "unexpected state guard")


def generate(repo: str) -> str:
    path = os.path.join(repo, "src/twisted/conch/telnet.py")
    cls = find_class(load_module(path), "Telnet")
    _senders(cls)
    out = ["(* GENERATED by translate/c39.py from src/twisted/conch/telnet.py -- do not edit *)",
           "From Coq Require Import List Bool.", "From C39 Require Import Base.", "Import ListNotations.", ""]
    persp, cases = [], []
    for m in MSGS:
        p, mapname = _dispatch(cls, m)
        persp.append(f"  | {m} => {'Us' if p == 'us' else 'Him'}")
        table = _map(cls, mapname)
        for yes in (False, True):
            for neg in (False, True):
                acts = _handler(cls, table[(yes, neg)], p)
                cases.append(f"  | {m}, {str(yes).lower()}, {str(neg).lower()} => [{'; '.join(acts)}]"
                             f"   (* {table[(yes, neg)]} *)")
    out.append("(** which perspective's (state, negotiating) selects the handler of a received command *)")
    out.append("Definition handler_persp (m : msg) : persp :=\n  match m with\n" + "\n".join(persp) + "\n  end.")
    out.append("")
    out.append("(** willMap / wontMap / doMap / dontMap composed with the handlers they name *)")
    out.append("Definition handler (m : msg) (yes neg : bool) : list action :=\n  match m, yes, neg with\n"
               + "\n".join(cases) + "\n  end.")
    out.append("")
    out.append("(** Telnet.will / wont / do / dont, indexed by the command they send *)")
    out.append("Definition request (m : msg) : reqspec :=\n  match m with\n"
               + "\n".join(f"  | {REQS[n]} => {_request(cls, n)}" for n in ("will", "wont", "do", "dont")) + "\n  end.")
    return "\n".join(out) + "\n"


def regen(repo: str, coqdir: str):
    """Returns None on success, an error text when the translator refuses."""
    try:
        text = generate(repo)
    except Untranslatable as e:
        return f"telnet.py: {e}"
    except (OSError, SyntaxError) as e:
        return f"telnet.py: {e!r}"
    os.makedirs(os.path.join(coqdir, "C39"), exist_ok=True)
    write_if_changed(os.path.join(coqdir, "C39/Gen.v"), text)
    return None
