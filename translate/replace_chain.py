"""Fail-closed translator for *replace chains* and literal quote tables (T-tie; DESIGN.md section 4;
cluster codecs-text: C46, C28, C43, C41).

A replace chain is a function whose body only threads its string parameter through
``.replace(<constant>, <constant>)`` calls:

    def f(P):
        ["docstring"]
        [if isinstance(P, str): P = P.encode("utf-8")]            -> op ('utf8',)
        A, B = "<literal>"                                         (local constants)
        N = <constant expression>
        P = P.replace(c1, c2).replace(c3, c4) ...                  -> op ('replace', old, new)
        for V in c1, c2, ... | (c1, c2) | <constant tuple>:        (unrolled)
            P = P.replace(V, <constant expression using V>)
        if P and P[-1:] == c: P += c2                              -> op ('append_if_endswith', c, c2)
        return P | return <chain expression>

Constant expressions: str/bytes/int literals, names bound to constants (function-local or
module-level ``NAME = <constant expression>``), ``a + b``, ``chr(<int>)``, dict displays of
constants, ``TABLE[<constant>]``, tuples of constants.  Chain expressions may also apply another
already-translated chain function: ``g(P).replace(...)``.

Everything else raises ``Untranslatable`` (the check then follows step 3 of the decision
protocol).  ``emit_chain`` prints Gallina over ``list N`` using ``TwLib.PyStr.py_replace``.
"""
from __future__ import annotations

import ast
from typing import Optional

from translate.py2coq import Untranslatable, fail, strip_doc


# --------------------------------------------------------------------------------------
# constants


class Consts:
    """Module-level constant environment, evaluated lazily and fail-closed."""

    def __init__(self, mod: Optional[ast.Module] = None, extra: Optional[dict] = None):
        self.assigns: dict[str, list[ast.AST]] = {}
        self.values: dict[str, object] = dict(extra or {})
        if mod is not None:
            for n in mod.body:
                tgt = val = None
                if isinstance(n, ast.Assign) and len(n.targets) == 1:
                    tgt, val = n.targets[0], n.value
                elif isinstance(n, ast.AnnAssign) and n.value is not None:
                    tgt, val = n.target, n.value
                if isinstance(tgt, ast.Name):
                    self.assigns.setdefault(tgt.id, []).append(val)
                elif isinstance(tgt, ast.Tuple) and all(isinstance(e, ast.Name) for e in tgt.elts):
                    for i, e in enumerate(tgt.elts):
                        self.assigns.setdefault(e.id, []).append(("unpack", i, len(tgt.elts), val))

    def lookup(self, node: ast.Name, local: dict):
        name = node.id
        if name in local:
            return local[name]
        if name in self.values:
            return self.values[name]
        if name not in self.assigns:
            fail(node, "name is not a known constant")
        if len(self.assigns[name]) != 1:
            fail(node, "module-level name assigned more than once")
        v = self.assigns[name][0]
        if isinstance(v, tuple):
            _, i, n, src = v
            whole = self.eval(src, {})
            if not isinstance(whole, (str, bytes, tuple)) or len(whole) != n:
                fail(node, "tuple-unpacking of a constant of the wrong length")
            val = whole[i:i + 1] if isinstance(whole, bytes) else whole[i]
        else:
            val = self.eval(v, {})
        self.values[name] = val
        return val

    def eval(self, n: ast.AST, local: dict):
        if isinstance(n, ast.Constant):
            if isinstance(n.value, (str, bytes)) or (isinstance(n.value, int) and not isinstance(n.value, bool)):
                return n.value
            fail(n, "constant of unsupported type")
        if isinstance(n, ast.Name):
            return self.lookup(n, local)
        if isinstance(n, ast.BinOp) and isinstance(n.op, ast.Add):
            a, b = self.eval(n.left, local), self.eval(n.right, local)
            if type(a) is not type(b) or not isinstance(a, (str, bytes)):
                fail(n, "concatenation of non-strings / mixed types")
            return a + b
        if isinstance(n, ast.Call) and isinstance(n.func, ast.Name) and n.func.id == "chr" \
                and len(n.args) == 1 and not n.keywords:
            v = self.eval(n.args[0], local)
            if not isinstance(v, int) or not 0 <= v < 0x110000:
                fail(n, "chr() of a non-integer")
            return chr(v)
        if isinstance(n, ast.Tuple):
            return tuple(self.eval(e, local) for e in n.elts)
        if isinstance(n, ast.Dict):
            d = {}
            for k, v in zip(n.keys, n.values):
                if k is None:
                    fail(n, "dict unpacking")
                kk = self.eval(k, local)
                if kk in d:
                    fail(n, "duplicate key in a literal table")
                d[kk] = self.eval(v, local)
            return d
        if isinstance(n, ast.Subscript):
            base = self.eval(n.value, local)
            if isinstance(base, dict):
                k = self.eval(n.slice, local)
                if k not in base:
                    fail(n, "key missing from the literal table")
                return base[k]
            fail(n, "subscript of a non-table constant")
        fail(n, "not a constant expression")


def codes(v) -> list[int]:
    """str -> code points, bytes -> byte values"""
    if isinstance(v, str):
        return [ord(c) for c in v]
    if isinstance(v, bytes):
        return list(v)
    raise Untranslatable(f"not a string constant: {v!r}")


def coq_lit(v) -> str:
    cs = codes(v)
    if not cs:
        return "(@nil N)"
    return "[" + "; ".join(str(c) for c in cs) + "]%N"


# --------------------------------------------------------------------------------------
# chains


def _is_utf8_prologue(st: ast.AST, param: str) -> bool:
    return (isinstance(st, ast.If) and not st.orelse and len(st.body) == 1
            and ast.unparse(st.test) == f"isinstance({param}, str)"
            and ast.unparse(st.body[0]) in (f"{param} = {param}.encode('utf-8')", f"{param} = {param}.encode('utf8')"))


class ChainT:
    """Symbolic execution of one replace-chain function."""

    def __init__(self, consts: Consts, param: str, known: Optional[dict] = None):
        self.consts = consts
        self.param = param
        self.known = dict(known or {})       # python function name -> list of ops (already translated)
        self.local: dict[str, object] = {}
        self.ops: list[tuple] = []
        self.kind: Optional[type] = None     # str or bytes, from the constants used
        self.returned = False

    def _const_str(self, n: ast.AST):
        v = self.consts.eval(n, self.local)
        if not isinstance(v, (str, bytes)):
            fail(n, "replace argument is not a string constant")
        if self.kind is None:
            self.kind = type(v)
        elif self.kind is not type(v):
            fail(n, "mixed str / bytes constants in one chain")
        return v

    def chain_expr(self, n: ast.AST) -> list[tuple]:
        """ops applied (left to right) to the parameter's current value"""
        if isinstance(n, ast.Name) and n.id == self.param:
            return []
        if isinstance(n, ast.Call) and isinstance(n.func, ast.Attribute) and n.func.attr == "replace":
            if len(n.args) != 2 or n.keywords:
                fail(n, "replace() with a count / keywords")
            inner = self.chain_expr(n.func.value)
            old, new = self._const_str(n.args[0]), self._const_str(n.args[1])
            if len(old) == 0:
                fail(n, "replace() of the empty string is not modelled")
            return inner + [("replace", old, new)]
        if isinstance(n, ast.Call) and isinstance(n.func, ast.Name) and n.func.id in self.known \
                and len(n.args) == 1 and not n.keywords:
            return self.chain_expr(n.args[0]) + [("call", n.func.id)]
        fail(n, "not a replace chain over the parameter")

    def stmt(self, st: ast.AST) -> None:
        if self.returned:
            fail(st, "statement after return")
        if _is_utf8_prologue(st, self.param):
            if self.ops:
                fail(st, "utf-8 prologue after other operations")
            self.ops.append(("utf8",))
            return
        if isinstance(st, ast.Return):
            if st.value is None:
                fail(st, "bare return")
            self.ops += self.chain_expr(st.value)
            self.returned = True
            return
        if isinstance(st, ast.Assign) and len(st.targets) == 1:
            tgt = st.targets[0]
            if isinstance(tgt, ast.Name) and tgt.id == self.param:
                self.ops += self.chain_expr(st.value)
                return
            if isinstance(tgt, ast.Name):
                self.local[tgt.id] = self.consts.eval(st.value, self.local)
                return
            if isinstance(tgt, ast.Tuple) and all(isinstance(e, ast.Name) for e in tgt.elts):
                if any(e.id == self.param for e in tgt.elts):
                    fail(st, "parameter rebound by unpacking")
                v = self.consts.eval(st.value, self.local)
                if not isinstance(v, (str, bytes, tuple)) or len(v) != len(tgt.elts):
                    fail(st, "tuple-unpacking of a constant of the wrong length")
                for i, e in enumerate(tgt.elts):
                    self.local[e.id] = v[i:i + 1] if isinstance(v, bytes) else v[i]
                return
            fail(st, "unsupported assignment")
        if isinstance(st, ast.For):
            if st.orelse or not isinstance(st.target, ast.Name) or st.target.id == self.param:
                fail(st, "unsupported for loop")
            it = self.consts.eval(st.iter, self.local)
            if isinstance(it, dict) or not isinstance(it, (tuple, str)):
                fail(st, "for loop over a non-literal")
            saved = self.local.get(st.target.id, None)
            for v in it:
                self.local[st.target.id] = v
                for b in st.body:
                    if isinstance(b, ast.Return):
                        fail(b, "return inside a loop")
                    self.stmt(b)
            if saved is None:
                self.local.pop(st.target.id, None)
            else:
                self.local[st.target.id] = saved
            return
        if isinstance(st, ast.If) and not st.orelse and len(st.body) == 1:
            # if P and P[-1:] == c: P += c2
            t, b = st.test, st.body[0]
            p = self.param
            if (isinstance(t, ast.BoolOp) and isinstance(t.op, ast.And) and len(t.values) == 2
                    and ast.unparse(t.values[0]) == p
                    and isinstance(t.values[1], ast.Compare) and len(t.values[1].ops) == 1
                    and isinstance(t.values[1].ops[0], ast.Eq)
                    and ast.unparse(t.values[1].left) == f"{p}[-1:]"
                    and isinstance(b, ast.AugAssign) and isinstance(b.op, ast.Add)
                    and ast.unparse(b.target) == p):
                suf = self._const_str(t.values[1].comparators[0])
                add = self._const_str(b.value)
                if len(suf) != 1:
                    fail(st, "suffix test with a constant that is not one character")
                self.ops.append(("append_if_endswith", suf, add))
                return
        fail(st, "statement outside the replace-chain subset")


def chain_of(fn: ast.FunctionDef, consts: Consts, known: Optional[dict] = None):
    """-> (ops, kind) for a one-parameter replace-chain function"""
    args = fn.args
    if len(args.args) != 1 or args.vararg or args.kwarg or args.kwonlyargs or args.defaults or args.posonlyargs:
        fail(fn, "expected exactly one plain parameter")
    t = ChainT(consts, args.args[0].arg, known)
    for st in strip_doc(fn.body):
        t.stmt(st)
    if not t.returned:
        fail(fn, "function does not end in return")
    return t.ops, t.kind


def emit_chain(coqname: str, ops: list[tuple], callnames: Optional[dict] = None, var: str = "s") -> str:
    """Gallina definition ``coqname : list N -> list N``; the ('utf8',) op is the identity on
    the byte-level model (the caller's harness encodes str inputs), recorded as a comment."""
    lines = [f"Definition {coqname} ({var} : list N) : list N :="]
    for op in ops:
        if op[0] == "utf8":
            lines.append(f"  (* if isinstance({var}, str): {var} = {var}.encode('utf-8')  -- model is over the encoded bytes *)")
        elif op[0] == "replace":
            lines.append(f"  let {var} := py_replace {coq_lit(op[1])} {coq_lit(op[2])} {var} in")
        elif op[0] == "append_if_endswith":
            lines.append(f"  let {var} := if ends_with {coq_lit(op[1])} {var} then {var} ++ {coq_lit(op[2])} else {var} in")
        elif op[0] == "call":
            lines.append(f"  let {var} := {(callnames or {})[op[1]]} {var} in")
        else:
            raise Untranslatable(f"unknown op {op!r}")
    lines.append(f"  {var}.")
    return "\n".join(lines)


def emit_table(coqname: str, table: dict) -> str:
    """literal quote table {one-char key: string} -> association list ``list (N * list N)``"""
    items = []
    for k, v in table.items():
        ck = codes(k)
        if len(ck) != 1:
            raise Untranslatable(f"table key {k!r} is not one character")
        items.append(f"({ck[0]}%N, {coq_lit(v)})")
    body = "[" + "; ".join(items) + "]" if items else "(@nil (N * list N))"
    return f"Definition {coqname} : list (N * list N) := {body}."


GEN_HEADER = ("From Coq Require Import List NArith.\nFrom TwLib Require Import PyStr.\nImport ListNotations.\n")


def apply_ops(ops: list[tuple], s, known: Optional[dict] = None):
    """Reference interpretation of ops in Python (used by translator self-tests only)."""
    for op in ops:
        if op[0] == "utf8":
            if isinstance(s, str):
                s = s.encode("utf-8")
        elif op[0] == "replace":
            s = s.replace(op[1], op[2])
        elif op[0] == "append_if_endswith":
            if s and s[-1:] == op[1]:
                s += op[2]
        elif op[0] == "call":
            s = apply_ops((known or {})[op[1]], s, known)
    return s
