"""Fail-closed pins for C23: the two body decoders of http.py that the client parser drives are hand-modelled
(coq/C23/Model.v: MIdent / MClose / MChunk* modes of [pstep]).  Any edit of their methods breaks the tie: the check then
searches for a failing input (DESIGN.md 1.1, step 3).

* ``_ChunkedTransferDecoder``: the pins of C22 (translate/c22_pins.json) are reused as they are.
* ``_IdentityTransferDecoder``: pinned here (translate/c23_pins.json), same docstring-free AST hash.

After a deliberate, re-validated change of /repo refresh with
    PYTHONPATH=/verif /venv/bin/python -m translate.c23 --pin /repo   (same interpreter as ./check: ast.dump differs between versions)
"""
from __future__ import annotations

import ast
import json
import os
import sys

from translate import c22
from translate.py2coq import Untranslatable, find_class, find_def, load_module

PINS_FILE = os.path.join(os.path.dirname(os.path.abspath(__file__)), "c23_pins.json")
IDENTITY_METHODS = ["__init__", "dataReceived", "noMoreData"]


def identity_hashes(repo: str) -> dict:
    http = load_module(os.path.join(repo, "src/twisted/web/http.py"))
    dec = find_class(http, "_IdentityTransferDecoder")
    out = {n: c22._method_hash(find_def(dec.body, n)) for n in IDENTITY_METHODS}
    extra = [n.name for n in dec.body if isinstance(n, ast.FunctionDef) and n.name not in IDENTITY_METHODS]
    if extra:
        raise Untranslatable(f"_IdentityTransferDecoder has methods the model does not know: {extra}")
    return out


def check(repo: str):
    """returns an error text or None"""
    try:
        c22.check_pins(repo)
        pins = json.load(open(PINS_FILE))
        got = identity_hashes(repo)
        bad = [n for n in IDENTITY_METHODS if pins.get(n) != got[n]]
        if bad:
            raise Untranslatable("_IdentityTransferDecoder." + ", ".join(bad) + " differ(s) from the source the "
                                 "hand-written model coq/C23/Model.v was validated against (translate/c23_pins.json)")
    except Untranslatable as e:
        return str(e)
    return None


if __name__ == "__main__":
    if len(sys.argv) == 3 and sys.argv[1] == "--pin":
        with open(PINS_FILE, "w") as f:
            json.dump(identity_hashes(sys.argv[2]), f, indent=1)
            f.write("\n")
        print("pinned", PINS_FILE)
    else:
        print(check(sys.argv[1] if len(sys.argv) > 1 else "/repo"))
