"""T-tie front-end for C34: src/twisted/names/_rfc1982.py -> coq/C34/Gen.v.

Model of a SerialNumber = its ``_number`` (Z) together with the width ``bits`` (Z), which the
class keeps in ``_serialBits``; ``_modulo/_halfRing/_maxAdd`` are functions of ``bits`` as
assigned in ``__init__``.  Binary methods take ``(bits a b)`` = (shared width, self._number,
other._number); the ``_convertOther`` prologue (type/width check, NotImplemented) is recognised
structurally and is outside the model (the property quantifies over same-width SerialNumbers).
"""
from __future__ import annotations

import ast
import os

from translate.py2coq import Env, ExprT, Untranslatable, fail, find_class, find_def, load_module, strip_doc, \
    write_if_changed

FIELDS = ["_serialBits", "_modulo", "_halfRing", "_maxAdd", "_number"]
COQ_FIELD = {"_modulo": "sn_modulo", "_halfRing": "sn_halfRing", "_maxAdd": "sn_maxAdd"}


def _init(cls: ast.ClassDef) -> list[str]:
    f = find_def(cls.body, "__init__")
    args = [a.arg for a in f.args.args]
    if args != ["self", "number", "serialBits"]:
        fail(f, "unexpected __init__ signature")
    out = []
    seen = []
    env = Env(names={"serialBits": ("bits", "Z"), "number": ("number", "Z")},
              attrs={("self", "_serialBits"): ("bits", "Z")})

    def calls(tr, n):
        # int(number) on an int is the identity
        if isinstance(n.func, ast.Name) and n.func.id == "int" and len(n.args) == 1 and not n.keywords:
            return tr.expr(n.args[0])
        return None

    env.calls = calls
    for st in strip_doc(f.body):
        tgt = val = None
        if isinstance(st, ast.Assign) and len(st.targets) == 1:
            tgt, val = st.targets[0], st.value
        elif isinstance(st, ast.AnnAssign) and st.value is not None:
            tgt, val = st.target, st.value
        else:
            fail(st, "unexpected statement in __init__")
        if not (isinstance(tgt, ast.Attribute) and isinstance(tgt.value, ast.Name) and tgt.value.id == "self"):
            fail(st, "unexpected assignment target")
        name = tgt.attr
        if name not in FIELDS:
            fail(st, "unknown field")
        seen.append(name)
        if name == "_serialBits":
            if not (isinstance(val, ast.Name) and val.id == "serialBits"):
                fail(st, "_serialBits is not serialBits")
            continue
        text, ty = ExprT(env).expr(val)
        if ty != "Z":
            fail(st, "field is not an integer")
        if name == "_number":
            out.append(f"Definition sn_make (bits number : Z) : Z := {text}.")
        else:
            out.append(f"Definition {COQ_FIELD[name]} (bits : Z) : Z := {text}.")
            env.attrs[("self", name)] = (f"({COQ_FIELD[name]} bits)", "Z")
    if sorted(seen) != sorted(FIELDS):
        raise Untranslatable(f"__init__ sets {seen}, expected {FIELDS}")
    return out


def _prologue(body: list) -> tuple[str, list]:
    """try: X = self._convertOther(other) / except TypeError: return NotImplemented  -> name X"""
    if not body or not isinstance(body[0], ast.Try):
        fail(body[0] if body else ast.Pass(), "missing _convertOther prologue")
    t = body[0]
    ok = (len(t.body) == 1 and isinstance(t.body[0], ast.Assign) and len(t.body[0].targets) == 1
          and isinstance(t.body[0].targets[0], ast.Name)
          and isinstance(t.body[0].value, ast.Call)
          and ast.unparse(t.body[0].value) == "self._convertOther(other)"
          and len(t.handlers) == 1 and ast.unparse(t.handlers[0].type) == "TypeError"
          and len(t.handlers[0].body) == 1 and ast.unparse(t.handlers[0].body[0]) == "return NotImplemented"
          and not t.orelse and not t.finalbody)
    if not ok:
        fail(t, "unexpected prologue shape")
    return t.body[0].targets[0].id, body[1:]


CMPNAME = {ast.Eq: "sn_eq", ast.Lt: "sn_lt", ast.Gt: "sn_gt", ast.LtE: "sn_le", ast.GtE: "sn_ge"}


def _method_env(other: str) -> Env:
    attrs = {("self", "_number"): ("a", "Z"), (other, "_number"): ("b", "Z"),
             ("self", "_serialBits"): ("bits", "Z")}
    for k, v in COQ_FIELD.items():
        attrs[("self", k)] = (f"({v} bits)", "Z")

    def objcmp(op, l, r):
        names = {"self": "a", other: "b"}
        if isinstance(l, ast.Name) and isinstance(r, ast.Name) and l.id in names and r.id in names \
                and type(op) in CMPNAME:
            return f"({CMPNAME[type(op)]} bits {names[l.id]} {names[r.id]})", "bool"
        return None

    return Env(attrs=attrs, objcmp=objcmp)


def _cmp_method(cls, pyname, coqname) -> str:
    f = find_def(cls.body, pyname)
    other, rest = _prologue(strip_doc(f.body))
    if len(rest) != 1 or not isinstance(rest[0], ast.Return) or rest[0].value is None:
        fail(f, "expected a single return after the prologue")
    text, ty = ExprT(_method_env(other)).expr(rest[0].value)
    if ty != "bool":
        fail(f, "comparison does not return a boolean")
    return f"Definition {coqname} (bits a b : Z) : bool := {text}."


def _add_method(cls) -> str:
    f = find_def(cls.body, "__add__")
    other, rest = _prologue(strip_doc(f.body))
    if len(rest) != 1 or not isinstance(rest[0], ast.If):
        fail(f, "expected if/else after the prologue")
    st = rest[0]
    env = _method_env(other)
    cond, ty = ExprT(env).expr(st.test)
    if ty != "bool":
        fail(st, "condition is not boolean")

    def branch(body):
        if len(body) != 1:
            fail(st, "expected one statement per branch")
        b = body[0]
        if isinstance(b, ast.Raise):
            if not (isinstance(b.exc, ast.Call) and isinstance(b.exc.func, ast.Name)
                    and b.exc.func.id == "ArithmeticError"):
                fail(b, "unexpected exception type")
            return "None"
        if isinstance(b, ast.Return) and isinstance(b.value, ast.Call) and isinstance(b.value.func, ast.Name) \
                and b.value.func.id == "SerialNumber":
            c = b.value
            kws = {k.arg: k.value for k in c.keywords}
            if len(c.args) != 1 or set(kws) != {"serialBits"} or ast.unparse(kws["serialBits"]) != "self._serialBits":
                fail(c, "unexpected SerialNumber(...) call")
            t, ty2 = ExprT(env).expr(c.args[0])
            if ty2 != "Z":
                fail(c, "non-integer number")
            return f"Some (sn_make bits {t})"
        fail(b, "unexpected branch")

    return (f"Definition sn_add (bits a b : Z) : option Z :=\n  if {cond} then {branch(st.body)} "
            f"else {branch(st.orelse)}.")


def generate(repo: str) -> str:
    path = os.path.join(repo, "src/twisted/names/_rfc1982.py")
    cls = find_class(load_module(path), "SerialNumber")
    out = ["(* GENERATED by translate/c34.py from src/twisted/names/_rfc1982.py -- do not edit *)",
           "From Coq Require Import ZArith Bool.", "Open Scope Z_scope.", ""]
    out += _init(cls)
    out.append("")
    for py, cq in [("__eq__", "sn_eq"), ("__lt__", "sn_lt"), ("__gt__", "sn_gt"), ("__le__", "sn_le"),
                   ("__ge__", "sn_ge")]:
        out.append(_cmp_method(cls, py, cq))
    out.append(_add_method(cls))
    # __int__ must expose _number (the observation the correspondence uses)
    f = find_def(cls.body, "__int__")
    body = strip_doc(f.body)
    if len(body) != 1 or ast.unparse(body[0]) != "return self._number":
        fail(f, "__int__ is not `return self._number`")
    return "\n".join(out) + "\n"


def regen(repo: str, coqdir: str):
    """Returns None on success, an error text when the translator refuses."""
    try:
        text = generate(repo)
    except Untranslatable as e:
        return f"_rfc1982.py: {e}"
    except (OSError, SyntaxError) as e:
        return f"_rfc1982.py: {e!r}"
    write_if_changed(os.path.join(coqdir, "C34/Gen.v"), text)
    return None
