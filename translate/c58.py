"""T-tie front-end for C58: src/twisted/application/_client_service.py ``makeMachine`` ->
coq/C58/Gen.v.

What is extracted (fail-closed; any other statement shape inside ``makeMachine`` that touches
the builder stops the translator with the source line):

* the input alphabet = the method names of the ``_Client`` typing protocol, in source order;
* ``X = machine.state("X")`` / ``X = machine.state("X", factory)`` -> the states and the
  state-data factory of each data state;
* ``A.upon(_Client.m[, nodata=True]).to(B).returns(None)`` and ``.loop().returns(None)``
  -> behaviour-less transitions (action ``Returns_None``);
* ``@pep614(A.upon(_Client.m[, nodata=True]).to(B) | .loop())`` decorators stacked on a
  ``def f`` -> transitions whose action is ``f`` (the body of ``f`` is modelled by hand in
  coq/C58/Model.v, which matches on the generated constructor names, so a new or renamed
  behaviour function breaks the build instead of being silently ignored).

The generated table is ``trans : state -> input -> option (state * action)``; a (state, input)
pair without entry is what automat answers with ``NoTransition``.
"""
from __future__ import annotations

import ast
import os

from translate.py2coq import Untranslatable, fail, find_class, find_def, load_module, strip_doc, write_if_changed

SRC = "src/twisted/application/_client_service.py"


def _is_name(n, s=None):
    return isinstance(n, ast.Name) and (s is None or n.id == s)


def _transition(call: ast.AST, states: dict, inputs: list):
    """``A.upon(_Client.m[, nodata=True]).to(B)`` or ``.loop()`` -> (A, m, B)."""
    if not (isinstance(call, ast.Call) and isinstance(call.func, ast.Attribute)):
        fail(call, "not a transition expression")
    how = call.func.attr
    up = call.func.value
    if how == "to":
        if len(call.args) != 1 or call.keywords or not _is_name(call.args[0]):
            fail(call, "unexpected .to(...) arguments")
        tgt = call.args[0].id
    elif how == "loop":
        if call.args or call.keywords:
            fail(call, "unexpected .loop(...) arguments")
        tgt = None
    else:
        fail(call, "expected .to(state) or .loop()")
    if not (isinstance(up, ast.Call) and isinstance(up.func, ast.Attribute) and up.func.attr == "upon"
            and _is_name(up.func.value)):
        fail(call, "expected <state>.upon(...)")
    src = up.func.value.id
    if len(up.args) != 1:
        fail(up, "unexpected .upon(...) arguments")
    a = up.args[0]
    if not (isinstance(a, ast.Attribute) and _is_name(a.value, "_Client")):
        fail(up, "input is not _Client.<method>")
    for kw in up.keywords:
        if kw.arg != "nodata" or not (isinstance(kw.value, ast.Constant) and isinstance(kw.value.value, bool)):
            fail(up, "unexpected keyword in .upon(...)")
    if src not in states:
        fail(call, f"unknown state variable {src}")
    if tgt is None:
        tgt = src
    if tgt not in states:
        fail(call, f"unknown state variable {tgt}")
    if a.attr not in inputs:
        fail(up, f"{a.attr} is not a method of _Client")
    return states[src], a.attr, states[tgt]


def extract(repo: str):
    mod = load_module(os.path.join(repo, SRC))
    client = find_class(mod, "_Client")
    inputs = [n.name for n in client.body if isinstance(n, ast.FunctionDef)]
    if not inputs:
        raise Untranslatable("_Client has no methods")
    mm = find_def(mod.body, "makeMachine")
    body = strip_doc(mm.body)
    states: dict[str, str] = {}      # python variable -> state name
    order: list[str] = []            # state names in order of first definition
    factories: dict[str, str] = {}   # state name -> factory function name
    helpers: list[str] = []          # plain inner defs (state-data factories)
    table: dict[tuple[str, str], tuple[str, str]] = {}
    actions: list[str] = []
    builder = None

    def add(src, inp, tgt, act, node):
        if (src, inp) in table:
            fail(node, f"duplicate transition for ({src}, {inp})")
        table[(src, inp)] = (tgt, act)
        if act not in actions:
            actions.append(act)

    for st in body:
        # machine = TypeMachineBuilder(_Client, _Core)
        if isinstance(st, ast.Assign) and len(st.targets) == 1 and _is_name(st.targets[0]) \
                and isinstance(st.value, ast.Call) and _is_name(st.value.func, "TypeMachineBuilder"):
            if builder is not None or ast.unparse(st.value) != "TypeMachineBuilder(_Client, _Core)":
                fail(st, "unexpected builder construction")
            builder = st.targets[0].id
            continue
        # X = machine.state("X"[, factory])
        if isinstance(st, ast.Assign) and len(st.targets) == 1 and _is_name(st.targets[0]) \
                and isinstance(st.value, ast.Call) and isinstance(st.value.func, ast.Attribute) \
                and st.value.func.attr == "state" and _is_name(st.value.func.value, builder):
            args = st.value.args
            if st.value.keywords or not (1 <= len(args) <= 2) or not (
                    isinstance(args[0], ast.Constant) and isinstance(args[0].value, str)):
                fail(st, "unexpected machine.state(...) arguments")
            var, name = st.targets[0].id, args[0].value
            if var != name or not name.isidentifier():
                fail(st, "state variable and state name differ")
            fac = None
            if len(args) == 2:
                if not _is_name(args[1]) or args[1].id not in helpers:
                    fail(st, "state-data factory is not a previously defined inner function")
                fac = args[1].id
            if name in order:
                # re-definition (the source defines Stopped twice): must be identical and unused so far
                if factories.get(name) != fac or any(name in (k[0], v[0]) for k, v in table.items()):
                    fail(st, f"state {name} redefined after use or with a different factory")
            else:
                order.append(name)
            states[var] = name
            if fac:
                factories[name] = fac
            continue
        # A.upon(..).to(B).returns(None)
        if isinstance(st, ast.Expr) and isinstance(st.value, ast.Call) and isinstance(st.value.func, ast.Attribute) \
                and st.value.func.attr == "returns":
            c = st.value
            if len(c.args) != 1 or c.keywords or not (isinstance(c.args[0], ast.Constant) and c.args[0].value is None):
                fail(st, "only .returns(None) is understood")
            src, inp, tgt = _transition(c.func.value, states, inputs)
            add(src, inp, tgt, "Returns_None", st)
            continue
        # def f(...) with or without @pep614(...) decorators
        if isinstance(st, ast.FunctionDef):
            if not st.decorator_list:
                helpers.append(st.name)
                continue
            for dec in st.decorator_list:
                if not (isinstance(dec, ast.Call) and _is_name(dec.func, "pep614") and len(dec.args) == 1
                        and not dec.keywords):
                    fail(dec, "decorator is not pep614(<transition>)")
                src, inp, tgt = _transition(dec.args[0], states, inputs)
                add(src, inp, tgt, st.name, dec)
            continue
        # return machine.build()
        if isinstance(st, ast.Return) and st.value is not None and ast.unparse(st.value) == f"{builder}.build()":
            continue
        fail(st, "statement shape not understood inside makeMachine")
    if builder is None or not order:
        raise Untranslatable("no builder / no states found in makeMachine")
    unused = [h for h in helpers if h not in factories.values()]
    if unused:
        raise Untranslatable(f"inner function(s) {unused} are neither a state-data factory nor a transition behaviour")
    return inputs, order, factories, actions, table


def generate(repo: str) -> str:
    inputs, order, factories, actions, table = extract(repo)
    facs = []
    for s in order:
        if s in factories and factories[s] not in facs:
            facs.append(factories[s])
    out = [f"(* GENERATED by translate/c58.py from {SRC} (makeMachine) -- do not edit *)",
           "Inductive state := " + " | ".join(order) + ".",
           "Inductive input := " + " | ".join("I_" + i for i in inputs) + ".",
           "Inductive action := " + " | ".join(actions) + ".",
           "Inductive factory := " + " | ".join(facs) + ".",
           "",
           "Definition initial_state : state := " + order[0] + ".",
           "",
           "Definition state_factory (s : state) : option factory :=",
           "  match s with"]
    for s in order:
        out.append(f"  | {s} => " + (f"Some {factories[s]}" if s in factories else "None"))
    out += ["  end.", "",
            "(* a pair without entry is answered by automat with NoTransition *)",
            "Definition trans (s : state) (i : input) : option (state * action) :=",
            "  match s, i with"]
    for s in order:
        for i in inputs:
            if (s, i) in table:
                t, a = table[(s, i)]
                out.append(f"  | {s}, I_{i} => Some ({t}, {a})")
    if len(table) < len(order) * len(inputs):
        out.append("  | _, _ => None")
    out += ["  end.", "",
            "Definition all_states : list state := (" + " :: ".join(order) + " :: nil)%list.",
            "Definition all_inputs : list input := (" + " :: ".join("I_" + i for i in inputs) + " :: nil)%list.",
            ""]
    return "\n".join(out)


def regen(repo: str, coqdir: str):
    """Returns None on success, an error text when the translator refuses."""
    try:
        text = generate(repo)
    except Untranslatable as e:
        return f"_client_service.py: {e}"
    except (OSError, SyntaxError) as e:
        return f"_client_service.py: {e!r}"
    os.makedirs(os.path.join(coqdir, "C58"), exist_ok=True)
    write_if_changed(os.path.join(coqdir, "C58/Gen.v"), text)
    return None
