"""T-tie front-end for C22 (and the byte classes C19 shares): src/twisted/web/_abnf.py and the
chunked-decoder constants of src/twisted/web/http.py  ->  coq/C22/Gen.v.

What is regenerated from the source on every run (fail-closed: any other shape stops the
translation with the source location):

* ``_istoken`` / ``_ishexdigits``: ``for c in b: if c not in <bytes literal>: return False`` /
  ``return b != b""``  ->  the literal as a ``list N`` table (the model's membership test is
  ``existsb (N.eqb c) table`` and the ``b != b""`` conjunct is part of the model);
* ``_hexint``: ``if not _ishexdigits(b): raise ValueError(b)`` / ``return int(b, 16)`` (shape only;
  ``int(_, 16)`` on hex digits is the model's ``hexval``, validated by the correspondence run);
* ``maxChunkSizeLineLength``, ``_chunkExtChars`` (module constants of http.py);
* ``_ChunkedTransferDecoder.__init__``: the constant assigned to ``_maxTrailerHeadersSize``;
* the eight methods of ``_ChunkedTransferDecoder`` (hand-modelled): pinned by AST hash (translate/c22_pins.json);
* ``toChunk``: shape only (``(networkString(f"{len(data):x}"), b"\\r\\n", data, b"\\r\\n")``).
"""
from __future__ import annotations

import ast
import os

from translate.py2coq import Untranslatable, fail, find_class, find_def, load_module, strip_doc, write_if_changed


def _table(b: bytes) -> str:
    return "[" + ";".join(str(x) for x in b) + "]%N"


def _membership_fn(mod: ast.Module, name: str) -> bytes:
    f = find_def(mod.body, name)
    if [a.arg for a in f.args.args] != ["b"]:
        fail(f, "unexpected signature")
    body = strip_doc(f.body)
    if len(body) != 2:
        fail(f, "unexpected body")
    loop, ret = body
    if not (isinstance(loop, ast.For) and isinstance(loop.target, ast.Name) and loop.target.id == "c"
            and isinstance(loop.iter, ast.Name) and loop.iter.id == "b" and not loop.orelse
            and len(loop.body) == 1 and isinstance(loop.body[0], ast.If)):
        fail(loop, "unexpected loop")
    cond = loop.body[0]
    if not (isinstance(cond.test, ast.Compare) and len(cond.test.ops) == 1 and isinstance(cond.test.ops[0], ast.NotIn)
            and isinstance(cond.test.left, ast.Name) and cond.test.left.id == "c"
            and isinstance(cond.test.comparators[0], ast.Constant)
            and isinstance(cond.test.comparators[0].value, bytes)
            and not cond.orelse and len(cond.body) == 1 and ast.unparse(cond.body[0]) == "return False"):
        fail(cond, "unexpected membership test")
    if ast.unparse(ret) != "return b != b''":
        fail(ret, "unexpected final return")
    return cond.test.comparators[0].value


def _const(mod_body: list, name: str):
    for n in mod_body:
        if isinstance(n, ast.Assign) and len(n.targets) == 1 and isinstance(n.targets[0], ast.Name) \
                and n.targets[0].id == name:
            return n
    raise Untranslatable(f"constant {name} not found")


def _int_const(n: ast.AST) -> int:
    if isinstance(n, ast.Constant) and type(n.value) is int:
        return n.value
    if isinstance(n, ast.BinOp) and isinstance(n.op, ast.Pow):
        return _int_const(n.left) ** _int_const(n.right)
    fail(n, "not an integer constant")


# The decoder's methods are modelled by hand (coq/C22/Model.v: [step], [drain], [feed], [run]); they are outside the
# translatable subset (bytearray slicing, find, in-place deletion).  To fail closed on ANY edit of them, their
# docstring-free ASTs are pinned by hash: a changed method stops the translation ("tie broken"), after which the check
# searches for a failing input.  After a deliberate, re-validated change of /repo refresh the pins with
#     PYTHONPATH=/verif python3 -m translate.c22 --pin /repo
PINNED_METHODS = ["__init__", "_dataReceived_CHUNK_LENGTH", "_dataReceived_CRLF", "_dataReceived_TRAILER",
                  "_dataReceived_BODY", "_dataReceived_FINISHED", "dataReceived", "noMoreData"]
PINS_FILE = os.path.join(os.path.dirname(os.path.abspath(__file__)), "c22_pins.json")


def _method_hash(f: ast.FunctionDef) -> str:
    import copy
    import hashlib
    g = copy.deepcopy(f)
    g.body = strip_doc(g.body) or [ast.Pass()]
    g.decorator_list, g.returns = [], None
    for a in g.args.args + g.args.kwonlyargs:
        a.annotation = None
    return hashlib.sha256(ast.dump(g, annotate_fields=True, include_attributes=False).encode()).hexdigest()[:20]


def decoder_hashes(repo: str) -> dict:
    http = load_module(os.path.join(repo, "src/twisted/web/http.py"))
    dec = find_class(http, "_ChunkedTransferDecoder")
    out = {}
    for name in PINNED_METHODS:
        out[name] = _method_hash(find_def(dec.body, name))
    extra = [n.name for n in dec.body if isinstance(n, ast.FunctionDef) and n.name not in PINNED_METHODS]
    if extra:
        raise Untranslatable(f"_ChunkedTransferDecoder has methods the model does not know: {extra}")
    return out


def check_pins(repo: str) -> None:
    import json
    pins = json.load(open(PINS_FILE))
    got = decoder_hashes(repo)
    bad = [n for n in PINNED_METHODS if pins.get(n) != got[n]]
    if bad:
        raise Untranslatable("_ChunkedTransferDecoder." + ", ".join(bad) + " differ(s) from the source the hand-written "
                             "model coq/C22/Model.v was validated against (translate/c22_pins.json)")


def generate(repo: str) -> str:
    check_pins(repo)
    abnf = load_module(os.path.join(repo, "src/twisted/web/_abnf.py"))
    http = load_module(os.path.join(repo, "src/twisted/web/http.py"))
    token = _membership_fn(abnf, "_istoken")
    hexd = _membership_fn(abnf, "_ishexdigits")
    hexint = find_def(abnf.body, "_hexint")
    hb = strip_doc(hexint.body)
    if [ast.unparse(s) for s in hb] != ["if not _ishexdigits(b):\n    raise ValueError(b)", "return int(b, 16)"]:
        fail(hexint, "unexpected _hexint body")
    if hexd != b"0123456789abcdefABCDEF":
        # the model's hexval gives the digits their int(_, 16) values in exactly this alphabet
        raise Untranslatable(f"_ishexdigits alphabet changed: {hexd!r}")
    mx = _const(http.body, "maxChunkSizeLineLength")
    maxline = _int_const(mx.value)
    ext = _const(http.body, "_chunkExtChars")
    if not (isinstance(ext.value, ast.Constant) and isinstance(ext.value.value, bytes)):
        fail(ext, "_chunkExtChars is not a bytes literal")
    dec = find_class(http, "_ChunkedTransferDecoder")
    init = find_def(dec.body, "__init__")
    maxtr = None
    for st in init.body:
        if isinstance(st, ast.Assign) and ast.unparse(st.targets[0]) == "self._maxTrailerHeadersSize":
            maxtr = _int_const(st.value)
    if maxtr is None:
        fail(init, "_maxTrailerHeadersSize not assigned a constant in __init__")
    tc = find_def(http.body, "toChunk")
    tb = strip_doc(tc.body)
    if [ast.unparse(s) for s in tb] != ["return (networkString(f'{len(data):x}'), b'\\r\\n', data, b'\\r\\n')"]:
        fail(tc, "unexpected toChunk body")
    if not (0 < maxline < 5000):
        raise Untranslatable("maxChunkSizeLineLength outside the nat range the model uses")
    return "\n".join([
        "(* GENERATED by translate/c22.py from src/twisted/web/_abnf.py and src/twisted/web/http.py -- do not edit *)",
        "From Coq Require Import NArith List.",
        "Import ListNotations.",
        "",
        "(* _istoken: bytes literal of the membership test *)",
        f"Definition token_chars : list N := {_table(token)}.",
        "(* _ishexdigits: bytes literal of the membership test *)",
        f"Definition hexdigit_chars : list N := {_table(hexd)}.",
        "(* http._chunkExtChars *)",
        f"Definition chunk_ext_chars : list N := {_table(ext.value.value)}.",
        "(* http.maxChunkSizeLineLength *)",
        f"Definition max_size_line : nat := {maxline}.",
        "(* _ChunkedTransferDecoder.__init__: self._maxTrailerHeadersSize *)",
        f"Definition default_max_trailer : N := {maxtr}%N.",
        "",
    ])


def regen(repo: str, coq_dir: str):
    """returns an error text, or None"""
    try:
        text = generate(repo)
    except Untranslatable as e:
        return str(e)
    write_if_changed(os.path.join(coq_dir, "C22", "Gen.v"), text)
    return None


if __name__ == "__main__":
    import json
    import sys
    if len(sys.argv) > 1 and sys.argv[1] == "--pin":
        repo = sys.argv[2] if len(sys.argv) > 2 else "/repo"
        json.dump(decoder_hashes(repo), open(PINS_FILE, "w"), indent=1)
        print("pinned", PINS_FILE)
    else:
        print(generate(sys.argv[1] if len(sys.argv) > 1 else "/repo"))
