"""T-tie part of C20: the default reason phrases.

src/twisted/web/_responses.py (``RESPONSES`` dict display over module-level integer constants) and the
default in ``Request.setResponseCode`` (``RESPONSES.get(code, b"...")``) -> coq/C20/Gen.v
``responses : N -> list N``; src/twisted/web/_abnf.py ``_istoken`` (per-byte loop over a literal table) ->
``istoken_table : list N``, which coq/C20/GenCheck.v proves equal to the model's ``is_tchar`` on every byte;
src/twisted/web/http.py ``NO_BODY_CODES`` (tuple of integer literals / _responses constants) -> ``no_body_codes``,
proved equal to the model's ``nobody_code``.  Fail-closed: anything that is not a literal table stops the translation.
"""
from __future__ import annotations

import ast
import os

from translate.py2coq import write_if_changed


class Untranslatable(Exception):
    pass


def _fail(node, msg):
    raise Untranslatable(f"line {getattr(node, 'lineno', '?')}: {msg}")


def _table(src: str) -> dict[int, bytes]:
    mod = ast.parse(src)
    consts: dict[str, int] = {}
    table = None
    for st in mod.body:
        if isinstance(st, ast.Assign) and len(st.targets) == 1 and isinstance(st.targets[0], ast.Name):
            name = st.targets[0].id
            v = st.value
            if isinstance(v, ast.Constant) and type(v.value) is int:
                consts[name] = v.value
            elif name == "RESPONSES":
                if not isinstance(v, ast.Dict):
                    _fail(st, "RESPONSES is not a dict display")
                table = {}
                for k, val in zip(v.keys, v.values):
                    if isinstance(k, ast.Name) and k.id in consts:
                        code = consts[k.id]
                    elif isinstance(k, ast.Constant) and type(k.value) is int:
                        code = k.value
                    else:
                        _fail(k or st, "RESPONSES key is not an integer constant")
                    if not (isinstance(val, ast.Constant) and type(val.value) is bytes):
                        _fail(val, "RESPONSES value is not a bytes literal")
                    if code < 0 or code in table:
                        _fail(k, "negative or duplicate code")
                    table[code] = val.value
    if table is None:
        raise Untranslatable("no RESPONSES table")
    return table


def _default(src: str) -> bytes:
    mod = ast.parse(src)
    for cls in mod.body:
        if isinstance(cls, ast.ClassDef) and cls.name == "Request":
            for f in cls.body:
                if isinstance(f, ast.FunctionDef) and f.name == "setResponseCode":
                    found = []
                    for n in ast.walk(f):
                        if (isinstance(n, ast.Call) and isinstance(n.func, ast.Attribute) and n.func.attr == "get"
                                and isinstance(n.func.value, ast.Name) and n.func.value.id == "RESPONSES"):
                            if (len(n.args) == 2 and isinstance(n.args[1], ast.Constant)
                                    and type(n.args[1].value) is bytes):
                                found.append(n.args[1].value)
                            else:
                                _fail(n, "RESPONSES.get without a literal bytes default")
                    if len(found) != 1:
                        _fail(f, "setResponseCode: expected exactly one RESPONSES.get(code, b'...')")
                    return found[0]
    raise Untranslatable("Request.setResponseCode not found")


def _tchars(src: str) -> bytes:
    """_abnf._istoken must be the per-byte loop over a literal table:
         for c in b:
             if c not in (<bytes literals>): return False
         return b != b""
       -> the table.  Any other shape (a regular expression, a helper call, ...) is refused."""
    mod = ast.parse(src)
    for f in mod.body:
        if isinstance(f, ast.FunctionDef) and f.name == "_istoken":
            body = [st for st in f.body if not (isinstance(st, ast.Expr) and isinstance(st.value, ast.Constant)
                                                and isinstance(st.value.value, str))]
            if len(f.args.args) != 1 or len(body) != 2:
                _fail(f, "_istoken: unexpected shape")
            arg = f.args.args[0].arg
            loop, ret = body
            if not (isinstance(loop, ast.For) and isinstance(loop.target, ast.Name) and isinstance(loop.iter, ast.Name)
                    and loop.iter.id == arg and not loop.orelse and len(loop.body) == 1):
                _fail(loop, "_istoken: not a loop over the bytes of its argument")
            test = loop.body[0]
            if not (isinstance(test, ast.If) and not test.orelse and len(test.body) == 1
                    and isinstance(test.body[0], ast.Return) and isinstance(test.body[0].value, ast.Constant)
                    and test.body[0].value.value is False
                    and isinstance(test.test, ast.Compare) and len(test.test.ops) == 1
                    and isinstance(test.test.ops[0], ast.NotIn) and isinstance(test.test.left, ast.Name)
                    and test.test.left.id == loop.target.id and isinstance(test.test.comparators[0], ast.Constant)
                    and type(test.test.comparators[0].value) is bytes):
                _fail(test, "_istoken: the loop body is not `if c not in <bytes literal>: return False`")
            if not (isinstance(ret, ast.Return) and isinstance(ret.value, ast.Compare) and len(ret.value.ops) == 1
                    and isinstance(ret.value.ops[0], ast.NotEq) and isinstance(ret.value.left, ast.Name)
                    and ret.value.left.id == arg and isinstance(ret.value.comparators[0], ast.Constant)
                    and ret.value.comparators[0].value == b""):
                _fail(ret, "_istoken: the final statement is not `return b != b\"\"`")
            return test.test.comparators[0].value
    raise Untranslatable("_abnf._istoken not found")


def _int_consts(src: str) -> dict[str, int]:
    out = {}
    for st in ast.parse(src).body:
        if (isinstance(st, ast.Assign) and len(st.targets) == 1 and isinstance(st.targets[0], ast.Name)
                and isinstance(st.value, ast.Constant) and type(st.value.value) is int):
            out[st.targets[0].id] = st.value.value
    return out


def _no_body_codes(http_src: str, responses_src: str) -> list[int]:
    """http.NO_BODY_CODES must be a module-level tuple / list display of integer literals or of names of the integer
    constants of _responses.py -> the codes.  (Request.write uses it both to skip chunked framing and to drop writes.)"""
    consts = _int_consts(responses_src)
    found = None
    for st in ast.parse(http_src).body:
        if isinstance(st, ast.Assign) and len(st.targets) == 1 and isinstance(st.targets[0], ast.Name) \
                and st.targets[0].id == "NO_BODY_CODES":
            if found is not None:
                _fail(st, "NO_BODY_CODES assigned twice")
            if not isinstance(st.value, (ast.Tuple, ast.List)):
                _fail(st, "NO_BODY_CODES is not a tuple display")
            found = []
            for e in st.value.elts:
                if isinstance(e, ast.Constant) and type(e.value) is int:
                    found.append(e.value)
                elif isinstance(e, ast.Name) and e.id in consts:
                    found.append(consts[e.id])
                else:
                    _fail(e, "NO_BODY_CODES element is not an integer constant")
    if found is None:
        raise Untranslatable("no module-level NO_BODY_CODES in http.py")
    if any(c < 0 for c in found):
        raise Untranslatable("negative code in NO_BODY_CODES")
    return found


def _lst(b: bytes) -> str:
    return "[" + "; ".join(str(x) for x in b) + "]" if b else "[]"


def generate(repo: str, out_path: str):
    """returns None, or the error text"""
    try:
        table = _table(open(os.path.join(repo, "src/twisted/web/_responses.py")).read())
        default = _default(open(os.path.join(repo, "src/twisted/web/http.py")).read())
        tchars = _tchars(open(os.path.join(repo, "src/twisted/web/_abnf.py")).read())
        nobody = _no_body_codes(open(os.path.join(repo, "src/twisted/web/http.py")).read(),
                                open(os.path.join(repo, "src/twisted/web/_responses.py")).read())
    except (Untranslatable, OSError, SyntaxError) as e:
        return f"c20 translator: {e}"
    lines = ["(** GENERATED by translate/c20.py from src/twisted/web/_responses.py (RESPONSES) and the default in",
             "    Request.setResponseCode (src/twisted/web/http.py), and the token byte table of _abnf._istoken.  Do not edit. *)",
             "From Coq Require Import List NArith.", "Import ListNotations.", "Local Open Scope N_scope.", "",
             "Definition responses (c : N) : list N :=", "  match c with"]
    for code in sorted(table):
        lines.append(f"  | {code} => {_lst(table[code])}")
    lines.append(f"  | _ => {_lst(default)}")
    lines.append("  end.")
    lines += ["", "(** the byte table of twisted.web._abnf._istoken (a non-empty string of these bytes is a token) *)",
              f"Definition istoken_table : list N := {_lst(bytes(sorted(set(tchars))))}."]
    lines += ["", "(** http.NO_BODY_CODES: the statuses for which Request.write neither frames nor sends a body *)",
              "Definition no_body_codes : list N := " + ("[" + "; ".join(map(str, nobody)) + "]" if nobody else "[]") + "."]
    write_if_changed(out_path, "\n".join(lines) + "\n")
    return None
