"""C16 — framed-message receivers (protocols/basic.py): H-tie.

case = {"kind": "lineonly" | "line" | "int8" | "int16" | "int32" | "netstring",
        "max": MAX_LENGTH (instance attribute), "delim": hex (line kinds), "chunks": [hex, ...]}

     or {"kind", "max", "delim", "stream": hex, "family": "all" | "upto3"}  = every composition of the stream /
        the whole stream, every 2-split, every 3-split and the byte-by-byte split, as ONE case whose
        observation is the run-length-compressed list of the per-chunking observations.

Observation (per chunking): the events up to and including the first transport.loseConnection():
  L:<hex> lineReceived   S:<hex> stringReceived   X lineLengthExceeded   N:<n> lengthLimitExceeded   C loseConnection
followed by " |open" or " |closed".
"""
from __future__ import annotations

import itertools
import json
import os

from harness.common import Failure, Spec, coq_bytes, coq_list

LINE_KINDS = ("lineonly", "line")
APP_KINDS = ("lineapp", "intapp")        # receivers with a reacting application: harness/c16app.py
INT_KINDS = {"int8": 1, "int16": 2, "int32": 4}


# --------------------------------------------------------------------------------------------------
# implementation driver


def _protocol(kind, events):
    from twisted.protocols import basic

    if kind in LINE_KINDS:
        base = basic.LineOnlyReceiver if kind == "lineonly" else basic.LineReceiver

        class P(base):
            def lineReceived(self, line):
                events.append("L:" + bytes(line).hex())

            def lineLengthExceeded(self, line):
                events.append("X")
                return base.lineLengthExceeded(self, line)

        return P()
    if kind in INT_KINDS:
        base = {"int8": basic.Int8StringReceiver, "int16": basic.Int16StringReceiver,
                "int32": basic.Int32StringReceiver}[kind]

        class Q(base):
            def stringReceived(self, s):
                events.append("S:" + bytes(s).hex())

            def lengthLimitExceeded(self, length):
                events.append("N:%d" % length)
                return base.lengthLimitExceeded(self, length)

        return Q()

    class R(basic.NetstringReceiver):
        def stringReceived(self, s):
            events.append("S:" + bytes(s).hex())

    return R()


def run_impl(kind, mx, delim, chunks):
    from twisted.internet.testing import StringTransport

    events: list[str] = []

    class T(StringTransport):
        def loseConnection(self):
            events.append("C")
            StringTransport.loseConnection(self)

    p = _protocol(kind, events)
    p.MAX_LENGTH = mx
    if kind in LINE_KINDS:
        p.delimiter = delim
    t = T()
    p.makeConnection(t)
    for c in chunks:
        if "C" in events:
            break
        p.dataReceived(c)
    closed = "C" in events
    if closed:
        events = events[: events.index("C") + 1]
    return " ".join(events) + (" |closed" if closed else " |open")


def _parts(case):
    return (case["kind"], case["max"], bytes.fromhex(case.get("delim", "")),
            [bytes.fromhex(c) for c in case["chunks"]])


def comps(s: bytes):
    """every composition of s, in the order of coq/C16/Run.v [comps]"""
    if not s:
        return [[]]
    if len(s) == 1:
        return [[s]]
    out = []
    for c in comps(s[1:]):
        out.append([s[:1] + c[0]] + c[1:])
        out.append([s[:1]] + c)
    return out


def upto3(s: bytes):
    n = len(s)
    out = [[s]]
    out += [[s[:i], s[i:]] for i in range(1, n)]
    out += [[s[:i], s[i:j], s[j:]] for i in range(1, n) for j in range(i + 1, n)]
    out.append([s[i:i + 1] for i in range(n)])
    return out


def members(case):
    """the single-chunking cases a family case stands for"""
    s = bytes.fromhex(case["stream"])
    base = {k: v for k, v in case.items() if k not in ("stream", "family")}
    for cs in (comps(s) if case["family"] == "all" else upto3(s)):
        yield {**base, "chunks": [c.hex() for c in cs]}


def summary(results):
    out, prev, k = [], None, 0
    for r in results:
        if r == prev:
            k += 1
        else:
            if prev is not None:
                out.append(f"{k}*{prev}")
            prev, k = r, 1
    if prev is not None:
        out.append(f"{k}*{prev}")
    return ";".join(out)


CHUNKINGS = [0]      # number of (stream, chunking) pairs delivered to the real receivers in this run


def impl(case) -> str:
    if case["kind"] == "send":
        from harness import c16send
        CHUNKINGS[0] += 1
        return c16send.impl(case)
    if case["kind"] in APP_KINDS:
        from harness import c16app
        return c16app.impl(case, CHUNKINGS)
    if "family" in case:
        ms = list(members(case))
        CHUNKINGS[0] += len(ms)
        return summary(run_impl(*_parts(m)) for m in ms)
    CHUNKINGS[0] += 1
    return run_impl(*_parts(case))


# --------------------------------------------------------------------------------------------------
# the property, stated independently of the model: reference framers over the whole stream


def _overlap(tail: bytes, delim: bytes) -> int:
    """longest proper prefix of delim that is a suffix of tail"""
    for k in range(min(len(delim) - 1, len(tail)), 0, -1):
        if tail.endswith(delim[:k]):
            return k
    return 0


def reference(kind, mx, delim, stream):
    """-> (events that MUST be seen, tail verdict) ; verdict in {"open", "closed", "either"}"""
    ev = []
    pos = 0
    if kind in LINE_KINDS:
        while True:
            i = stream.find(delim, pos)
            if i < 0:
                tail = stream[pos:]
                if len(tail) >= mx + len(delim):
                    return ev + ["X", "C"], "closed"
                if len(tail) - _overlap(tail, delim) <= mx:
                    return ev, "open"            # may still become a line within the limit: must not be rejected
                return ev, "either"              # doomed, but the receiver may notice later
            if i - pos > mx:
                return ev + ["X", "C"], "closed"
            ev.append("L:" + stream[pos:i].hex())
            pos = i + len(delim)
    if kind in INT_KINDS:
        k = INT_KINDS[kind]
        while True:
            if len(stream) - pos < k:
                return ev, "open"
            n = int.from_bytes(stream[pos:pos + k], "big")
            if n > mx:
                return ev + ["N:%d" % n, "C"], "closed"
            if len(stream) - pos - k < n:
                return ev, "open"
            ev.append("S:" + stream[pos + k:pos + k + n].hex())
            pos += k + n
    # netstring (cr.yp.to/proto/netstrings.txt): [len]":"[string]","  with no leading zeros
    while True:
        if pos == len(stream):
            return ev, "open"
        j = pos
        while j < len(stream) and 48 <= stream[j] <= 57:
            j += 1
        digits = stream[pos:j]
        if not digits or (len(digits) > 1 and digits[0] == 48):
            return ev + ["C"], "closed"           # no number, or a leading zero
        n = int(digits)
        if n > mx:
            return ev + ["C"], "closed"
        if j == len(stream):
            return ev, "open"                     # a number that may still grow / get its colon
        if stream[j] != 58:
            if stream[j:] == b"\n":
                return ev, "either"               # regex "$" quirk: noticed only when the next byte arrives
            return ev + ["C"], "closed"
        body = stream[j + 1:]
        if len(body) < n + 1:
            return ev, "open"
        if body[n] != 44:
            return ev + ["C"], "closed"
        ev.append("S:" + body[:n].hex())
        pos = j + 1 + n + 1


def oracle(case, obs):
    if case["kind"] == "send":
        from harness import c16send
        return c16send.oracle(case, obs)
    if case["kind"] in APP_KINDS:
        from harness import c16app
        return c16app.oracle(case, obs)
    if "family" in case:
        for m in members(case):
            f = oracle1(m, run_impl(*_parts(m)))
            if f is not None:
                return f                      # reported (and shrunk, replayed) as a single-chunking case
        return None
    return oracle1(case, obs)


def oracle1(case, obs):
    kind, mx, delim, chunks = _parts(case)
    stream = b"".join(chunks)
    evs, state = obs.rsplit(" |", 1)
    got = evs.split(" ") if evs else []
    want, verdict = reference(kind, mx, delim, stream)
    # over-limit never delivered
    for e in got:
        if e[0] in "LS" and (len(e) - 2) // 2 > mx:
            return Failure(case, f"a message longer than MAX_LENGTH={mx} was delivered: {e}", f"{kind}-over-limit-delivered")
    if verdict == "either":
        ok = got == want or got[:len(want)] == want and got[len(want):] in (["X", "C"], ["C"])
    else:
        ok = got == want and state == verdict
    if not ok:
        n = 0
        while n < len(got) and n < len(want) and got[n] == want[n]:
            n += 1
        g = got[n] if n < len(got) else "-"
        w = want[n] if n < len(want) else "-"
        if g in ("X", "C") or g.startswith("N:"):
            if w == "-" and verdict == "open" or w[0] in "LS":
                tag = f"{kind}-within-limit-rejected"
            else:
                tag = f"{kind}-framing-mismatch"
        elif w in ("X", "C") or w.startswith("N:"):
            tag = f"{kind}-invalid-not-rejected"
        else:
            tag = f"{kind}-framing-mismatch"
        return Failure(case, f"reference framing of the whole stream gives {want} ({verdict}); the receiver gave {got} ({state}); "
                             f"first difference at event {n}: got {g}, expected {w}", tag)
    # segmentation invariance: the same stream delivered at once
    if len(chunks) != 1:
        whole = run_impl(kind, mx, delim, [stream])
        if whole != obs:
            return Failure(case, f"delivered at once: {whole}; delivered as {len(chunks)} chunks: {obs}", f"{kind}-split-differs")
    return None


# --------------------------------------------------------------------------------------------------
# generation


def random_split(rng, stream: bytes):
    out, i = [], 0
    while i < len(stream):
        k = rng.choice([1, 1, 2, 3, 5, 8, 13, 40])
        out.append(stream[i:i + k])
        i += k
    if rng.random() < 0.2:
        out.insert(rng.randrange(len(out) + 1), b"")
    return out


DELIMS = [b"\r\n", b"\n", b"ab", b"aa", b"\r\n\n", b"aba"]


def line_stream(rng, mx, delim, nlines):
    alpha = bytes(set(delim)) + b"xy"
    parts = []
    for _ in range(nlines):
        r = rng.random()
        if r < 0.55:
            ln = rng.choice([mx - 2, mx - 1, mx, mx, mx + 1, mx + 2, 0, 1])
        else:
            ln = rng.randrange(0, mx + 3)
        ln = max(0, ln)
        body = bytes(rng.choice(alpha) for _ in range(ln))
        parts.append(body + delim)
    tail_len = rng.choice([0, 0, 1, mx, mx + len(delim) - 1, mx + len(delim), mx + 1, rng.randrange(0, mx + 4)])
    parts.append(bytes(rng.choice(alpha) for _ in range(tail_len)))
    return b"".join(parts)


def int_stream(rng, k, mx, nmsgs):
    out = []
    for _ in range(nmsgs):
        r = rng.random()
        ln = rng.choice([mx - 1, mx, mx, mx + 1, 0, 1]) if r < 0.6 else rng.randrange(0, mx + 3)
        ln = max(0, ln)
        if ln >= 256 ** k:
            ln = 256 ** k - 1
        out.append(ln.to_bytes(k, "big") + bytes(rng.randrange(256) for _ in range(ln)))
    r = rng.random()
    if r < 0.3:      # incomplete tail
        ln = min(rng.randrange(0, mx + 1), 256 ** k - 1)
        full = ln.to_bytes(k, "big") + bytes(rng.randrange(256) for _ in range(ln))
        out.append(full[:rng.randrange(0, len(full) + 1)])
    elif r < 0.45:   # huge prefix
        out.append(bytes(rng.choice([255, 128, 1, 0]) for _ in range(k)) + b"zz")
    return b"".join(out)


def ns_stream(rng, mx, nmsgs):
    out = []
    for _ in range(nmsgs):
        r = rng.random()
        ln = rng.choice([mx - 1, mx, mx, mx + 1, 0, 1, 9, 10, 11]) if r < 0.6 else rng.randrange(0, mx + 3)
        ln = max(0, ln)
        body = bytes(rng.choice(b"ab,:0159\n") for _ in range(ln))
        out.append(str(ln).encode() + b":" + body + b",")
    r = rng.random()
    if r < 0.5:
        bad = rng.choice([b"01:a,", b"00:,", b"1\n", b"12\n:", b":", b"a", b"1:ab", b"2:ab;", b"3", b"10", b"99999999",
                          b"1", b"0", b"0:", b"0:,", b"0,", b"-1:", b" 1:a,", b"1 :a,", b"\n", b"5\n", b"1:a,2",
                          b"100", b"1000:", b"+1:a,"])
        out.append(bad)
    elif r < 0.7:
        ln = rng.randrange(0, mx + 1)
        full = str(ln).encode() + b":" + b"x" * ln + b","
        out.append(full[:rng.randrange(0, len(full))])
    return b"".join(out)


def mk(kind, mx, delim, chunks):
    c = {"kind": kind, "max": mx, "chunks": [bytes(x).hex() for x in chunks]}
    if kind in LINE_KINDS:
        c["delim"] = delim.hex()
    return c


def fam(kind, mx, delim, stream, family):
    c = {"kind": kind, "max": mx, "stream": bytes(stream).hex(), "family": family}
    if kind in LINE_KINDS:
        c["delim"] = delim.hex()
    return c


def gen(rng, tier):
    cases = []
    thorough = tier == "thorough"
    # 1. EVERY composition of short streams, small MAX_LENGTH
    n_short, cap = (40, 9) if not thorough else (150, 11)
    for kind in LINE_KINDS:
        for _ in range(n_short):
            mx = rng.randrange(1, 5)
            delim = rng.choice(DELIMS)
            cases.append(fam(kind, mx, delim, line_stream(rng, mx, delim, rng.randrange(1, 3))[:cap], "all"))
    for kind, k in INT_KINDS.items():
        for _ in range(n_short // 2):
            mx = rng.randrange(1, 5)
            cases.append(fam(kind, mx, b"", int_stream(rng, k, mx, rng.randrange(1, 3))[:cap], "all"))
    for _ in range(n_short):
        mx = rng.choice([1, 2, 3, 9, 10, 11, 12])
        cases.append(fam("netstring", mx, b"", ns_stream(rng, mx, rng.randrange(1, 3))[:cap], "all"))
    # 2. every 2-split and 3-split (and byte-by-byte) of medium streams (<= 24 bytes), MAX_LENGTH 3..10
    n_med = 16 if not thorough else 150
    for kind in LINE_KINDS:
        for _ in range(n_med):
            mx = rng.randrange(3, 11)
            delim = rng.choice(DELIMS)
            cases.append(fam(kind, mx, delim, line_stream(rng, mx, delim, rng.randrange(1, 4))[:24], "upto3"))
    for kind, k in INT_KINDS.items():
        for _ in range(n_med // 2):
            mx = rng.randrange(3, 11)
            cases.append(fam(kind, mx, b"", int_stream(rng, k, mx, rng.randrange(1, 4))[:24], "upto3"))
    for _ in range(n_med):
        mx = rng.choice([3, 5, 9, 10, 11, 12])
        cases.append(fam("netstring", mx, b"", ns_stream(rng, mx, rng.randrange(1, 4))[:24], "upto3"))
    # 3. random splits of long streams, larger limits
    n_long = 200 if not thorough else 2500
    for _ in range(n_long):
        kind = rng.choice(list(LINE_KINDS) * 2 + list(INT_KINDS) + ["netstring", "netstring"])
        mx = rng.choice([1, 2, 7, 9, 10, 16, 30, 99, 100, 101, 255, 256, 300])
        if kind in LINE_KINDS:
            delim = rng.choice(DELIMS)
            s = line_stream(rng, mx, delim, rng.randrange(1, 8))
        elif kind in INT_KINDS:
            delim = b""
            s = int_stream(rng, INT_KINDS[kind], mx, rng.randrange(1, 8))
        else:
            delim = b""
            s = ns_stream(rng, mx, rng.randrange(1, 8))
        for _ in range(3):
            cases.append(mk(kind, mx, delim, random_split(rng, s)))
    # 4. receivers with a reacting application (raw mode, mode switches, pause/resume, recvd)
    from harness import c16app, c16send
    cases += c16app.gen(rng, tier)
    # 5. the sending side: sendLine / sendString, wire form and sender -> receiver round trip
    cases += c16send.gen(rng, tier)
    return cases


def corpus():
    out = [
        # DESIGN.md section 6, F3: a line of exactly MAX_LENGTH, "\r" and "\n" in different deliveries
        mk("lineonly", 3, b"\r\n", [b"abc\r", b"\n"]),
        mk("lineonly", 3, b"\r\n", [b"abc\r\n"]),
        mk("line", 3, b"\r\n", [b"abc\r", b"\n"]),
        mk("lineonly", 3, b"\r\n", [b"abcd", b"\r\n"]),
        mk("line", 3, b"\r\n", [b"abcd\r", b"\n"]),
        mk("lineonly", 16384, b"\r\n", [b"x" * 16384 + b"\r", b"\nnext\r\n"]),
        mk("netstring", 10, b"", [b"5\n"]),
        mk("netstring", 10, b"", [b"5", b"\n", b":"]),
        mk("netstring", 10, b"", [b"10:0123456789,", b"11:0123456789a,"]),
        mk("netstring", 9, b"", [b"1", b"0:0123456789,"]),
        mk("int8", 3, b"", [b"\x03abc\x04abcd"]),
        mk("int32", 5, b"", [b"\x00\x00", b"\x00\x05hel", b"lo\xff\xff\xff\xffx"]),
    ]
    from harness import c16app, c16send
    out += c16app.corpus() + c16send.corpus()
    d = os.path.join(os.path.dirname(os.path.dirname(os.path.abspath(__file__))), "corpus", "C16")
    if os.path.isdir(d):
        for f in sorted(os.listdir(d)):
            if f.endswith(".json"):
                data = json.load(open(os.path.join(d, f)))
                out.append(data.get("case", data))
    return out


# --------------------------------------------------------------------------------------------------
# model side


def to_coq(case):
    if case["kind"] == "send":
        from harness import c16send
        return c16send.to_coq(case)
    if case["kind"] in APP_KINDS:
        from harness import c16app
        return c16app.to_coq(case)
    t = to_coq_plain(case)
    return None if t is None else f"inl ({t})"


def to_coq_plain(case):
    kind, mx = case["kind"], case["max"]
    delim = bytes.fromhex(case.get("delim", ""))
    if mx >= 5000 or mx < 1:
        return None        # no large nat literals; MAX_LENGTH < 1 is outside the modelled domain (log10)
    if kind == "lineonly":
        con = f"CLineOnly {mx}%nat {coq_bytes(delim)}"
    elif kind == "line":
        con = f"CLine {mx}%nat {coq_bytes(delim)}"
    elif kind in INT_KINDS:
        con = f"CIntN {INT_KINDS[kind]}%nat {mx}%N"
    else:
        con = f"CNet {mx}%N"
    if "family" in case:
        f = "AllComps" if case["family"] == "all" else "UpTo3"
        return f"inr (({con}), {f}, {coq_bytes(bytes.fromhex(case['stream']))})"
    cs = coq_list([coq_bytes(bytes.fromhex(c)) for c in case["chunks"]], "(list N)")
    return f"inl ({con} {cs})"


def shrink(case):
    if case["kind"] == "send":
        from harness import c16send
        yield from c16send.shrink(case)
        return
    if case["kind"] in APP_KINDS:
        from harness import c16app
        yield from c16app.shrink(case)
        return
    if "family" in case:
        return
    chunks = case["chunks"]
    # merge adjacent chunks, drop chunks, drop bytes
    for i in range(len(chunks) - 1):
        yield {**case, "chunks": chunks[:i] + [chunks[i] + chunks[i + 1]] + chunks[i + 2:]}
    for i in range(len(chunks)):
        yield {**case, "chunks": chunks[:i] + chunks[i + 1:]}
    for i, c in enumerate(chunks):
        for j in range(0, len(c), 2):
            yield {**case, "chunks": chunks[:i] + [c[:j] + c[j + 2:]] + chunks[i + 1:]}
    if case["max"] > 1:
        yield {**case, "max": case["max"] - 1}


def histogram(case, obs):
    if case["kind"] == "send":
        return "send/" + case["proto"]
    return case["kind"] + ("/" + case["family"] if "family" in case else "/closed" if obs.endswith("closed") else "/open")


SPEC = Spec(
    pid="C16",
    gen=gen, impl=impl, oracle=oracle, corpus=corpus, shrink=shrink,
    coq_header="From TwLib Require Import PyBytes Seg SegApp.\nFrom C16 Require Import Model ModelApp Run RunApp.",
    coq_fn="run_any",
    to_coq=to_coq,
    nontrivial=lambda c, o: ("family" in c or c["kind"] == "send" or len(c.get("chunks", c.get("ops", []))) > 1) and not o.endswith("* |open") and o != " |open",
    extra=lambda ctx: {"chunkings_run": CHUNKINGS[0]},
    histogram=histogram,
    rule="per receiver (LineOnlyReceiver, LineReceiver line mode, Int8/16/32StringReceiver, NetstringReceiver): "
         "EVERY composition of grammar streams of <= 9 (thorough 12) bytes with MAX_LENGTH 1-4, every 2-split, 3-split "
         "and the byte-by-byte split of streams <= 24 bytes with MAX_LENGTH 3-10, and random splits of long streams; "
         "streams are built from messages of length MAX-2..MAX+2, delimiters made of the same bytes as the payload "
         "(6 delimiters incl. self-overlapping ones), incomplete and over-long tails, invalid netstrings; "
         "non-trivial = more than one delivery and at least one event; distinct by (case, observation)",
    trusted=["hand-written model coq/C16/Model.v (tied by this correspondence run only)",
             "coq/Lib/PyBytes.v: split / find / int.from_bytes / int() as the assumed semantics of the CPython builtins",
             "NetstringReceiver is modelled through its buffer reading (unconsumed bytes of the current netstring), not "
             "its two-state payload accumulator; math.log10 is modelled exactly for the MAX_LENGTH values generated"],
    assumptions=["the application's lineReceived/stringReceived only record (no mode switch, pause, close or re-entrant "
                 "delivery); delimiter non-empty; 1 <= MAX_LENGTH < 5000 on the model side"],
)
