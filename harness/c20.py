"""C20 — HTTP/1.1 server responses are framed exactly and headers cannot be injected.

H-tie: coq/C20/Model.v (hand-written model of Request.write/finish/setResponseCode/addCookie,
HTTPChannel.writeHeaders/checkPersistence, http_headers.Headers) is evaluated by vm_compute on the same
scripted connections as the real HTTPChannel + Request and the emitted bytes are compared exactly.
T-tie (small): coq/C20/Gen.v (default reason phrases) is regenerated from the source on every run.
Oracle (independent of the model): a reference HTTP/1.1 response parser written here from RFC 9112 and
h11 both parse the emitted bytes; the result must be exactly one response per request with the status,
the headers set (line breaks -> SP, OWS trimmed) and the concatenated writes as the body.

case = {"split": bool, "reqs": [ {"v11": bool, "head": bool, "close": bool, "ops": [op...]} ... ]}
op   = ["code", int, hex|None] | ["set", T, [T...]] | ["add", T, T] | ["rm", T] | ["new", [[T, [T...]]...]]
     | ["cookie", T, T, {"expires","domain","path","max_age","comment": T|None}, secure, httpOnly, T|None]
     | ["write", hex]
T    = {"b": hex}  (bytes)  |  {"s": [code points]}  (str)
or   {"wh": {"v11": bool, "code": int, "reason": hex, "pairs": [[T, T]...], "body": hex}}: HTTPChannel.writeHeaders called
     directly with the documented backwards-compatibility iterable of (name, value) pairs, then channel.write(body)
"""
from __future__ import annotations

import os
import re

from harness.common import COQ, REPO, Failure, Spec, coq_bool, coq_bytes, coq_list, coq_option
from translate import c20 as tr

ATTRS = ["expires", "domain", "path", "max_age", "comment"]
TOKEN_RE = re.compile(rb"[!#$%&'*+\-.^_`|~0-9A-Za-z]+")


# --------------------------------------------------------------------------------------------------
# driving the real code


def _text(t):
    if t is None:
        return None
    if "b" in t:
        return bytes.fromhex(t["b"])
    return "".join(chr(c) for c in t["s"])


def _run_op(req, op) -> str:
    from twisted.web.http_headers import InvalidHeaderName

    try:
        k = op[0]
        if k == "code":
            if op[2] is None:
                req.setResponseCode(op[1])
            else:
                req.setResponseCode(op[1], bytes.fromhex(op[2]))
        elif k == "set":
            vals = [_text(v) for v in op[2]]
            if len(vals) == 1 and op[1].get("via") == "setHeader":
                req.setHeader(_text(op[1]), vals[0])
            else:
                req.responseHeaders.setRawHeaders(_text(op[1]), vals)
        elif k == "add":
            req.responseHeaders.addRawHeader(_text(op[1]), _text(op[2]))
        elif k == "rm":
            req.responseHeaders.removeHeader(_text(op[1]))
        elif k == "cookie":
            a = op[3]
            req.addCookie(_text(op[1]), _text(op[2]), expires=_text(a["expires"]), domain=_text(a["domain"]),
                          path=_text(a["path"]), max_age=_text(a["max_age"]), comment=_text(a["comment"]),
                          secure=op[4], httpOnly=op[5], sameSite=_text(op[6]))
        elif k == "write":
            req.write(bytes.fromhex(op[1]))
        elif k == "new":
            # the application replaces the header object: Headers({name: [values...], ...}) (valid names only)
            from twisted.web.http_headers import Headers
            req.responseHeaders = Headers({_text(nm): [_text(v) for v in vs] for nm, vs in op[1]})
            return "." * (1 + len(op[1]))
        else:
            raise AssertionError(op)
    except InvalidHeaderName:
        return "N"
    except UnicodeEncodeError:
        return "U"
    except ValueError as e:
        if k == "cookie" and "sameSite" in str(e):
            return "S"
        raise
    return "."


def _emit(case):
    """-> (outcome strings per processed request, bytes on the transport, transport closing?)"""
    from twisted.internet.testing import StringTransport
    from twisted.web import http

    scripts = [r["ops"] for r in case["reqs"]]
    outcomes = []

    class Scripted(http.Request):
        def process(self):
            ops = scripts[len(outcomes)]
            res = []
            outcomes.append(res)
            for op in ops:
                res.append(_run_op(self, op))
            self.finish()

    ch = http.HTTPChannel()
    ch.requestFactory = Scripted
    ch.timeOut = None
    t = StringTransport()
    ch.makeConnection(t)
    wire = []
    for r in case["reqs"]:
        wire.append((b"HEAD" if r["head"] else b"GET") + b" /x " + (b"HTTP/1.1" if r["v11"] else b"HTTP/1.0")
                    + b"\r\nHost: h\r\n" + (b"Connection: close\r\n" if r["close"] else
                                           b"Connection: keep-alive\r\n" if r.get("ka") else b"") + b"\r\n")
    if case.get("split"):
        for w in wire:
            ch.dataReceived(w)
    else:
        ch.dataReceived(b"".join(wire))
    return ["".join(o) for o in outcomes], t.value(), bool(t.disconnecting)


# --------------------------------------------------------------------------------------------------
# reference parser (oracle side; written from RFC 9112, independent of the Coq model and of twisted)


class ParseError(Exception):
    pass


_STATUS = re.compile(rb"HTTP/1\.([0-9]) ([0-9]{3}) ([^\r\n]*)\r\n")
_FIELD = re.compile(rb"([!#$%&'*+\-.^_`|~0-9A-Za-z]+):[ \t]*([^\r\n]*?)[ \t]*\r\n")
_CHUNK = re.compile(rb"([0-9A-Fa-f]+)(;[^\r\n]*)?\r\n")


def _fields(data, pos):
    out = []
    while True:
        if data.startswith(b"\r\n", pos):
            return out, pos + 2
        m = _FIELD.match(data, pos)
        if not m:
            raise ParseError(f"bad field line at {pos}")
        out.append((m.group(1), m.group(2)))
        pos = m.end()


def ref_parse(data: bytes, pos: int, is_head: bool):
    """one response starting at pos -> (dict, new pos)"""
    m = _STATUS.match(data, pos)
    if not m:
        raise ParseError(f"bad status line at {pos}")
    minor, status, reason = int(m.group(1)), int(m.group(2)), m.group(3)
    hs, pos = _fields(data, m.end())
    te = [v for k, v in hs if k.lower() == b"transfer-encoding"]
    cl = [v for k, v in hs if k.lower() == b"content-length"]
    trailers = []
    if is_head or 100 <= status <= 199 or status in (204, 304):
        framing, body = "none", b""
    elif te and cl:
        raise ParseError("both Transfer-Encoding and Content-Length")
    elif te:
        if len(te) != 1 or te[0].lower() != b"chunked":
            raise ParseError("unsupported transfer coding")
        framing, body = "chunked", b""
        while True:
            m = _CHUNK.match(data, pos)
            if not m:
                raise ParseError(f"bad chunk header at {pos}")
            n = int(m.group(1), 16)
            pos = m.end()
            if n == 0:
                break
            if pos + n + 2 > len(data) or data[pos + n:pos + n + 2] != b"\r\n":
                raise ParseError("chunk data not followed by CRLF / truncated")
            body += data[pos:pos + n]
            pos += n + 2
        trailers, pos = _fields(data, pos)
    elif cl:
        if not all(re.fullmatch(rb"[0-9]+", v) for v in cl) or len({int(v) for v in cl}) != 1:
            raise ParseError("bad Content-Length")
        n = int(cl[0])
        if pos + n > len(data):
            raise ParseError("body truncated")
        framing, body, pos = f"len{n}", data[pos:pos + n], pos + n
    else:
        framing, body, pos = "close", data[pos:], len(data)
    return {"minor": minor, "status": status, "reason": reason, "headers": hs, "framing": framing, "body": body,
            "trailers": trailers}, pos


def _show_resp(r) -> str:
    hl = lambda l: "[" + ",".join(k.hex() + ":" + v.hex() for k, v in l) + "]"
    ck = _ck(r["body"], 31, 7)
    return f"{r['minor']} {r['status']} {r['reason'].hex()} {hl(r['headers'])} {r['framing']} {len(r['body'])}~{ck} {hl(r['trailers'])}"


def ref_stream(data: bytes, heads):
    """-> list of responses; raises ParseError (also when bytes are left over)"""
    pos, out = 0, []
    for h in heads:
        r, pos = ref_parse(data, pos, h)
        out.append(r)
    if pos != len(data):
        raise ParseError("bytes left after the last response")
    return out


def _ck(b: bytes, m: int, i: int) -> int:
    for c in b:
        i = (i * m + c) % 4294967296
    return i


def digest(b: bytes) -> str:
    return f"{len(b)}~{_ck(b, 31, 7)}~{_ck(b, 16777619, 2166136261)}"


def model_equal(case, impl_obs: str, model_obs: str) -> bool:
    """the model prints a digest of the bytes instead of the bytes"""
    if impl_obs.startswith("wh:"):
        oc, _, hexdata = impl_obs.partition("|")
        return f"{oc}|{digest(bytes.fromhex(hexdata))}" == model_obs
    try:
        head, parsed = impl_obs.split("#", 1)
        oc, hexdata, closing = head.split("|")
    except ValueError:
        return False
    return f"{oc}|{digest(bytes.fromhex(hexdata))}|{closing}#{parsed}" == model_obs


def _impl_wh(w) -> str:
    from twisted.internet.testing import StringTransport
    from twisted.web import http
    from twisted.web.http_headers import InvalidHeaderName

    ch = http.HTTPChannel()
    ch.timeOut = None
    t = StringTransport()
    ch.makeConnection(t)
    oc = "."
    try:
        ch.writeHeaders(b"HTTP/1.1" if w["v11"] else b"HTTP/1.0", b"%d" % w["code"], bytes.fromhex(w["reason"]),
                        [(_text(n), _text(v)) for n, v in w["pairs"]])
        ch.write(bytes.fromhex(w["body"]))
    except InvalidHeaderName:
        oc = "N"
    except UnicodeEncodeError:
        oc = "U"
    return "wh:" + oc + "|" + t.value().hex()


def impl(case) -> str:
    if "wh" in case:
        return _impl_wh(case["wh"])
    outcomes, data, closing = _emit(case)
    heads = [r["head"] for r in case["reqs"]][:len(outcomes)]
    try:
        parsed = ";".join(_show_resp(r) for r in ref_stream(data, heads))
    except ParseError:
        parsed = "ERR"
    return "/".join(outcomes) + "|" + data.hex() + "|" + ("T" if closing else "F") + "#" + parsed


# --------------------------------------------------------------------------------------------------
# the property, stated on the implementation's bytes (independent of the model)


def _sanitised(v: bytes) -> bytes:
    """what a recipient must see for a value the application set: breaks -> SP, surrounding OWS dropped"""
    return re.sub(rb"\r\n|\r|\n", b" ", v).strip(b" \t")


def _enc(t, latin1=False):
    """-> bytes or None if the text cannot be encoded"""
    x = _text(t)
    if isinstance(x, bytes):
        return x
    try:
        return x.encode("iso-8859-1" if latin1 else "utf-8")
    except UnicodeEncodeError:
        return None


def _flat_ops(req):
    """["new", [[name, values]...]] = forget every header, then set each (one outcome character each)"""
    out = []
    for op in req["ops"]:
        if op[0] == "new":
            out.append(["reset"])
            out += [["set", nm, vs] for nm, vs in op[1]]
        else:
            out.append(op)
    return out


def _standard_phrase(code: int) -> bytes:
    from twisted.web._responses import RESPONSES
    return RESPONSES.get(code, b"Unknown Status")


def _expected(req, outcome: str):
    """independent bookkeeping of what the application set -> dict or a Failure reason (tag, text)"""
    hdr: dict[bytes, list[bytes]] = {}
    if req["v11"] and req["close"]:
        hdr[b"connection"] = [b"close"]
    cookies = []
    code, reason = 200, None
    started = False
    snap = None
    body = b""

    def snapshot():
        h = {k: list(v) for k, v in hdr.items()}
        if cookies:
            h[b"set-cookie"] = list(cookies)
        return (code, reason, h, bool(cookies))

    for op, oc in zip(_flat_ops(req), outcome):
        k = op[0]
        if k == "reset":
            hdr.clear()
            continue
        if k == "write":
            if not started:
                started, snap = True, snapshot()
            body += bytes.fromhex(op[1])
            continue
        if k == "code":
            # the phrase is the one implied by THIS (the last) call: the message given, else the standard phrase of the code
            code, reason = op[1], (_standard_phrase(op[1]) if op[2] is None else bytes.fromhex(op[2]))
            continue
        if k == "cookie":
            parts = [op[1], op[2]] + [op[3][a] for a in ATTRS if op[3][a] is not None]
            enc = [_enc(p) for p in parts]
            ss = _enc(op[6]) if op[6] is not None else None
            bad_ss = bool(ss) and ss.lower() not in (b"lax", b"strict")
            unenc = any(e is None for e in enc) or (op[6] is not None and ss is None)
            if unenc or bad_ss:
                if oc == ".":
                    return ("refusal-missing-cookie", f"addCookie accepted unencodable / invalid arguments {op}")
                continue
            if oc != ".":
                return ("refusal-spurious-cookie", f"addCookie refused valid arguments {op} -> {oc}")
            cs = lambda b: re.sub(rb"\r\n|\r|\n|;", b" ", b)
            c = cs(enc[0]) + b"=" + cs(enc[1])
            i = 2
            for a, label in zip(ATTRS, [b"Expires", b"Domain", b"Path", b"Max-Age", b"Comment"]):
                if op[3][a] is not None:
                    c += b"; " + label + b"=" + cs(enc[i])
                    i += 1
            if op[4]:
                c += b"; Secure"
            if op[5]:
                c += b"; HttpOnly"
            if ss:
                c += b"; SameSite=" + ss.lower()
            cookies.append(c)
            continue
        # header operations
        name = _enc(op[1], latin1=True)
        valid = name is not None and TOKEN_RE.fullmatch(name) is not None
        if not valid:
            if oc == ".":
                return ("invalid-name-accepted", f"header name {op[1]} is not a token but was accepted")
            continue
        vals = [_enc(v) for v in op[2]] if k == "set" else [_enc(op[2])] if k == "add" else []
        if any(v is None for v in vals):
            if oc == ".":
                return ("refusal-missing-value", f"unencodable header value accepted {op}")
            continue
        if oc != ".":
            return ("valid-name-refused", f"valid header operation {op} refused -> {oc}")
        ln = name.lower()
        if k == "set":
            hdr[ln] = vals
        elif k == "add":
            hdr.setdefault(ln, []).extend(vals)
        else:
            hdr.pop(ln, None)
    if not started:
        snap = snapshot()
    code, reason, h, ck = snap
    return {"code": code, "reason": reason, "headers": h, "body": body, "cookies": ck}


def _blanks(v: bytes) -> bytes:
    v = re.sub(rb"[ \t]+", b" ", v)
    return re.sub(rb" ?([;=]) ?", rb"\1", v).strip(b" ")


def _domain(req, exp):
    """is this request inside the property's domain (an application that frames consistently)?"""
    if not (200 <= exp["code"] <= 999):
        return False
    nobody = req["head"] or exp["code"] in (204, 304)
    cl = exp["headers"].get(b"content-length", [])
    te = exp["headers"].get(b"transfer-encoding", [])
    if nobody:
        return True
    if cl:
        ok = all(re.fullmatch(rb"[0-9]+", _sanitised(v)) and int(_sanitised(v)) == len(exp["body"]) for v in cl)
        return ok and not te
    if req["v11"]:
        return True          # chunked: an application-set Transfer-Encoding is overwritten
    return not te


def _h11_ok(b: bytes) -> bool:
    # h11's field-value / reason-phrase grammar refuses NUL, VT, FF (and the CR/LF that can no longer be there)
    return not any(c in b for c in b"\x00\x0b\x0c\r\n")


def _h11_parse(case, data, closing, n):
    """-> list of (status, reason, [(lname, value)], body) or raises"""
    import h11

    c = h11.Connection(h11.CLIENT, max_incomplete_event_size=1 << 24)
    c.receive_data(data)
    if closing:
        c.receive_data(b"")
    out = []
    for i, r in enumerate(case["reqs"][:n]):
        c.send(h11.Request(method="HEAD" if r["head"] else "GET", target="/x", headers=[("Host", "h")]))
        c.send(h11.EndOfMessage())
        resp, body = None, b""
        while True:
            ev = c.next_event()
            if ev is h11.NEED_DATA or ev is h11.PAUSED:
                raise ParseError("h11: incomplete response")
            if isinstance(ev, h11.Response):
                resp = ev
            elif isinstance(ev, h11.InformationalResponse):
                raise ParseError("h11: informational response")
            elif isinstance(ev, h11.Data):
                body += bytes(ev.data)
            elif isinstance(ev, h11.EndOfMessage):
                break
            elif isinstance(ev, h11.ConnectionClosed):
                raise ParseError("h11: closed before end of message")
        out.append((resp.status_code, bytes(resp.reason), [(bytes(k), bytes(v)) for k, v in resp.headers], body))
        if i + 1 < n:
            if c.our_state is h11.DONE and c.their_state is h11.DONE:
                c.start_next_cycle()
            else:
                raise ParseError("h11: connection not reusable but more responses expected")
    if c.trailing_data[0]:
        raise ParseError("h11: trailing data")
    return out


def _oracle_wh(case, obs):
    """the pair form: refused as a whole with nothing written, or a head that parses to exactly those headers"""
    w = case["wh"]
    oc, _, hexdata = obs[3:].partition("|")
    data = bytes.fromhex(hexdata)
    names = [_enc(n, latin1=True) for n, _ in w["pairs"]]
    vals = [_enc(v) for _, v in w["pairs"]]
    bad_name = [n for n, raw in zip(names, w["pairs"]) if n is None or TOKEN_RE.fullmatch(n) is None]
    unenc = any(v is None for v in vals)
    if oc != ".":
        if data:
            return Failure(case, f"writeHeaders raised but {len(data)} bytes reached the transport", "pair-form-partial-write")
        if not bad_name and not unenc:
            return Failure(case, "writeHeaders refused valid (name, value) pairs", "pair-form-valid-refused")
        return None
    if bad_name:
        return Failure(case, f"writeHeaders((name, value) pairs) accepted the header name {bad_name[0]!r}, which is not a token; "
                             f"on the wire: {data[:120]!r}", "pair-form-invalid-name-accepted")
    if unenc:
        return Failure(case, "writeHeaders accepted an unencodable value", "pair-form-unencodable-accepted")
    m = _STATUS.match(data)
    if not m:
        return Failure(case, "status line does not parse", "pair-form-unparseable")
    try:
        hs, pos = _fields(data, m.end())
    except ParseError as e:
        return Failure(case, f"head does not parse: {e}", "pair-form-unparseable")
    want: dict[bytes, list[bytes]] = {}
    for n, v in zip(names, vals):
        want.setdefault(n.lower(), []).append(_sanitised(v))
    have: dict[bytes, list[bytes]] = {}
    for k, v in hs:
        have.setdefault(k.lower(), []).append(v)
    if have != want or int(m.group(2)) != w["code"]:
        return Failure(case, f"head carries {have}, the pairs were {want}", "pair-form-headers")
    if data[pos:] != bytes.fromhex(w["body"]):
        return Failure(case, "bytes after the head are not the body written", "pair-form-body")
    # h11 on the same bytes (close-delimited), where its grammar admits the values and no framing header is among the pairs
    if all(_h11_ok(v) for vs in want.values() for v in vs) and _h11_ok(_sanitised(bytes.fromhex(w["reason"]))) \
            and not ({b"content-length", b"transfer-encoding", b"connection"} & set(want)) and 200 <= w["code"] <= 999 \
            and w["code"] not in (204, 304):
        import h11

        c = h11.Connection(h11.CLIENT, max_incomplete_event_size=1 << 24)
        c.send(h11.Request(method="GET", target="/x", headers=[("Host", "h")]))
        c.send(h11.EndOfMessage())
        c.receive_data(data)
        c.receive_data(b"")
        try:
            resp, body = None, b""
            while True:
                ev = c.next_event()
                if isinstance(ev, h11.Response):
                    resp = ev
                elif isinstance(ev, h11.Data):
                    body += bytes(ev.data)
                elif isinstance(ev, (h11.EndOfMessage, h11.ConnectionClosed)) or ev is h11.NEED_DATA:
                    break
        except Exception as e:
            if type(e).__name__ not in ("RemoteProtocolError", "LocalProtocolError"):
                raise
            return Failure(case, f"h11 rejects the head: {e}", "pair-form-h11-rejects")
        got = {}
        for k, v in (resp.headers if resp else []):
            got.setdefault(bytes(k), []).append(bytes(v))
        if resp is None or got != want or body != bytes.fromhex(w["body"]):
            return Failure(case, f"h11 reads {got} / {body[:30]!r}", "pair-form-h11-disagrees")
    return None


def oracle(case, obs):
    if "wh" in case:
        return _oracle_wh(case, obs)
    head, _, _parsed = obs.partition("#")
    oc_s, hexdata, closing = head.split("|")
    outcomes = oc_s.split("/") if oc_s or len(case["reqs"]) else []
    data = bytes.fromhex(hexdata)
    closing = closing == "T"
    reqs = case["reqs"]
    # how many requests must have been answered: all up to and including the first one after which the connection does
    # not stay open - the request did not allow it (HTTP/1.0, "Connection: close"), or the head the server wrote said
    # "Connection: close" (RFC 9112 section 9.6: whoever put it there, the sender MUST then close)
    if any(len(o) != len(_flat_ops(r)) for o, r in zip(outcomes, reqs)) or len(outcomes) > len(reqs) or not outcomes:
        return Failure(case, "malformed outcome list", "requests-processed")
    exps, n, said_close = [], 0, False
    for r, o in zip(reqs, outcomes):
        e = _expected(r, o)
        if isinstance(e, tuple):
            return Failure(case, e[1], e[0])
        exps.append(e)
        n += 1
        said_close = any(b"close" in [t.strip(b" \t").lower() for t in _sanitised(v).split(b",")]
                         for v in e["headers"].get(b"connection", []))
        if not (r["v11"] and not r["close"]) or said_close:
            break
    if len(outcomes) != n:
        why = ("the head of response %d said Connection: close (set by the application) but the server went on to answer "
               "the next request on the same connection" % (n - 1)) if said_close and reqs[n - 1]["v11"] and not reqs[n - 1]["close"] \
            else f"{len(outcomes)} requests processed, expected {n}"
        return Failure(case, why, "application-connection-close-not-honoured" if "said Connection" in why else "requests-processed")
    if n < len(reqs) and (reqs[n - 1]["v11"] and not reqs[n - 1]["close"]) and not said_close:
        return Failure(case, f"{n} requests processed, expected more", "requests-processed")
    if not all(_domain(r, e) for r, e in zip(reqs, exps)):
        return None
    persistent_last = reqs[n - 1]["v11"] and not reqs[n - 1]["close"] and not said_close
    if closing != (not persistent_last):
        tag = "application-connection-close-not-honoured" if said_close and not closing else "close-flag"
        return Failure(case, f"transport closing={closing} but the connection should {'stay open' if persistent_last else 'be closed'} "
                             f"after response {n - 1}", tag)

    cookies_set = [e["cookies"] for e in exps]

    def tag_for(i, kind):
        # one class for everything that follows from a reason phrase that reached the wire with its CR / LF
        if any(e["reason"] is not None and (b"\r" in e["reason"] or b"\n" in e["reason"]) and e["reason"] in data
               for e in exps):
            return "reason-phrase-crlf"
        return kind

    try:
        got = ref_stream(data, [r["head"] for r in reqs[:n]])
    except ParseError as e:
        # find the first response that cannot be parsed to name it
        pos, bad = 0, 0
        for i, r in enumerate(reqs[:n]):
            try:
                _, pos = ref_parse(data, pos, r["head"])
            except ParseError:
                bad = i
                break
            bad = i
        return Failure(case, f"emitted bytes do not parse as exactly {n} response(s): {e}", tag_for(bad, "unparseable"))
    for i, (r, e, g) in enumerate(zip(reqs, exps, got)):
        where = f"response {i}: "
        if g["framing"] == "close" and (i != n - 1 or not closing):
            return Failure(case, where + "close-delimited body but the connection stays open", tag_for(i, "close-delimited-open"))
        if g["status"] != e["code"] or g["minor"] != (1 if r["v11"] else 0):
            return Failure(case, where + f"status line {g['minor']} {g['status']}, expected {e['code']}", tag_for(i, "status"))
        if e["reason"] is not None and g["reason"].strip(b" \t") != _sanitised(e["reason"]):
            return Failure(case, where + f"reason {g['reason']!r}, expected {_sanitised(e['reason'])!r}", tag_for(i, "reason"))
        nobody = r["head"] or e["code"] in (204, 304)
        chunked_exp = r["v11"] and not e["headers"].get(b"content-length") and not nobody
        want = {k: [_sanitised(v) for v in vs] for k, vs in e["headers"].items() if vs}
        if chunked_exp:
            want[b"transfer-encoding"] = [b"chunked"]
        have: dict[bytes, list[bytes]] = {}
        for k, v in g["headers"]:
            have.setdefault(k.lower(), []).append(v)
        # Set-Cookie values are compared modulo runs of blanks (a break at the end of a cookie component is
        # dropped rather than replaced, and components are concatenated): no CR/LF/";" may survive either way
        if b"set-cookie" in want and cookies_set[i]:
            want[b"set-cookie"] = [_blanks(v) for v in want[b"set-cookie"]]
            if b"set-cookie" in have:
                have[b"set-cookie"] = [_blanks(v) for v in have[b"set-cookie"]]
        if have != want:
            diff = sorted(set(have) ^ set(want)) or [k for k in have if have[k] != want[k]]
            return Failure(case, where + f"headers differ at {diff[:3]}: got {have} want {want}", tag_for(i, "headers"))
        if nobody:
            if g["body"] or g["framing"] != "none":
                return Failure(case, where + "body bytes for HEAD/204/304", tag_for(i, "nobody-has-body"))
        else:
            if g["body"] != e["body"]:
                return Failure(case, where + f"body {g['body'][:40]!r}.. != concatenated writes", tag_for(i, "body"))
            if chunked_exp != (g["framing"] == "chunked"):
                return Failure(case, where + f"framing {g['framing']}, chunked expected={chunked_exp}", tag_for(i, "framing"))
        if g["trailers"]:
            return Failure(case, where + "unexpected trailers", tag_for(i, "trailers"))
    # second independent parser: h11, where its (stricter) value grammar admits what was set (and the application
    # did not itself announce "Connection: close" on a connection the server keeps open: h11 would stop there)
    usable = all(_h11_ok(_sanitised(v)) for e in exps for vs in e["headers"].values() for v in vs) and \
        all(e["reason"] is None or _h11_ok(_sanitised(e["reason"])) for e in exps) and \
        all(re.fullmatch(rb"[0-9]+", v) if k.lower() == b"content-length" else
            (v.lower() == b"chunked") if k.lower() == b"transfer-encoding" else True
            for g in got for k, v in g["headers"])
    if usable:
        try:
            hp = _h11_parse(case, data, closing, n)
        except ParseError as e:
            return Failure(case, f"h11 does not see exactly {n} response(s): {e}", "h11-unparseable")
        except Exception as e:  # h11.RemoteProtocolError and friends
            if type(e).__name__ not in ("RemoteProtocolError", "LocalProtocolError"):
                raise
            return Failure(case, f"h11 rejects the emitted bytes: {e}", "h11-rejects")
        for i, (g, (st, rs, hs, body)) in enumerate(zip(got, hp)):
            mine = [(k.lower(), v) for k, v in g["headers"]]
            cls = [v for k, v in mine if k == b"content-length"]
            if len(cls) > 1 and len(set(cls)) == 1:      # h11 folds equal Content-Length values into one
                first = [i for i, (k, _) in enumerate(mine) if k == b"content-length"][0]
                mine = [kv for i, kv in enumerate(mine) if kv[0] != b"content-length" or i == first]
            if st != g["status"] or mine != hs or body != g["body"] or rs.strip(b" \t") != g["reason"].strip(b" \t"):
                return Failure(case, f"response {i}: h11 and the reference parser disagree: {(st, rs, hs, body[:40])}",
                               "h11-disagrees")
    return None


# --------------------------------------------------------------------------------------------------
# Coq terms


def _hx(h: str) -> str:
    return f'(hx "{h}")' if h else "(@nil N)"


def _t(t) -> str:
    if "b" in t:
        return f"(TB {_hx(t['b'])})"
    return "(TS " + ("(@nil N)" if not t["s"] else "[" + ";".join(map(str, t["s"])) + "]%N") + ")"


def _ot(t) -> str:
    return coq_option(None if t is None else _t(t), "text")


def _op(op) -> str:
    k = op[0]
    if k == "code":
        return f"SetCode {op[1]}%N {coq_option(None if op[2] is None else _hx(op[2]), '(list N)')}"
    if k == "set":
        return f"SetRaw {_t(op[1])} {coq_list([_t(v) for v in op[2]], 'text')}"
    if k == "add":
        return f"AddRaw {_t(op[1])} {_t(op[2])}"
    if k == "rm":
        return f"Remove {_t(op[1])}"
    if k == "cookie":
        a = op[3]
        return ("AddCookie (mkCookie " + " ".join([_t(op[1]), _t(op[2])] + [_ot(a[x]) for x in ATTRS]
                                                  + [coq_bool(op[4]), coq_bool(op[5]), _ot(op[6])]) + ")")
    return f"Write {_hx(op[1])}"


def to_coq(case):
    if "wh" in case:
        w = case["wh"]
        pairs = coq_list([f"({_t(n)}, {_t(v)})" for n, v in w["pairs"]], "(text * text)%type")
        return (f"(inr (mkCfg {coq_bool(w['v11'])} false false, {w['code']}%N, {_hx(w['reason'])}, {pairs}, {_hx(w['body'])}))")
    return "(inl " + _to_coq_conn(case) + ")" if _to_coq_conn(case) is not None else None


def _to_coq_conn(case):
    if sum(len(op[1]) // 2 for r in case["reqs"] for op in r["ops"] if op[0] == "write") > 6000:
        return None
    for r in case["reqs"]:
        if any(o[0] == "new" for o in r["ops"][1:]):
            return None          # the model has no "replace the Headers object" call; as the first call it is remove + set
    conn = {"b": b"Connection".hex()}
    flat = lambda r: [["rm", conn] if o[0] == "reset" else o for o in _flat_ops(r)]
    reqs = [f"(mkCfg {coq_bool(r['v11'])} {coq_bool(r['head'])} {coq_bool(r['close'])}, "
            f"{coq_list([_op(o) for o in flat(r)], 'op')})" for r in case["reqs"]]
    return coq_list(reqs, "(cfg * list op)%type")


# --------------------------------------------------------------------------------------------------
# generator

GOOD_NAMES = [b"content-type", b"Content-Type", b"X-A", b"x-a", b"x-b", b"ETag", b"etag", b"te", b"Server", b"Date",
              b"Set-Cookie", b"set-cookie", b"WWW-Authenticate", b"x-xss-protection", b"content-md5", b"dnt", b"p3p",
              b"Connection", b"x--y-", b"-", b"a.b_c~d", b"!#$%&'*+-.^_`|~", b"Location", b"cONTENT-lANGUAGE", b"x-1a-b2"]
BAD_NAMES = [b"", b"x a", b"x:y", b"x\r\ny", b"x\ny: z", b"x\x00", b"caf\xe9", b"(x)", b"x\ty", b"a,b", b"x\r", b"\n",
             b"X-A\r\nX-Injected", b"a/b", b"a=b", b"a;b", b"{x}", b"\x7f", b"a\"b"]
BREAKS = [b"\r\n", b"\r", b"\n", b"\n\r", b"\r\r\n", b"\r\n\r\n", b"\r\n ", b"\r\n\t"]
SPICE = [b";", b" ", b"\t", b"\x00", b"\x0b", b"\x0c", b"\x85", b"\xff", b"\xe2\x80\xa8", b":", b"=", b",", b"\x1c", b"\x1d",
         b"\x1e", b"\x7f", b"HTTP/1.1 200 OK", b"X-Injected: 1", b"Content-Length: 0", b"0\r\n\r\n", b"Set-Cookie: a=b"]
WORDS = [b"a", b"text/html", b"v", b"abc def", b"1", b"W/\"x\"", b"value", b"x" * 40, b"close", b"chunked", b"Sat, 01 Jan 2000 00:00:00 GMT"]
SIZES = [0, 0, 1, 1, 2, 3, 5, 9, 10, 15, 16, 17, 3, 4, 1, 2, 31, 32, 100, 255, 256, 257]


def _val_bytes(rng, nasty=0.5) -> bytes:
    parts = []
    for _ in range(rng.randrange(0, 4)):
        r = rng.random()
        if r < nasty * 0.5:
            parts.append(rng.choice(BREAKS))
        elif r < nasty:
            parts.append(rng.choice(SPICE))
        elif r < 0.85:
            parts.append(rng.choice(WORDS))
        else:
            parts.append(bytes(rng.randrange(256) for _ in range(rng.randrange(1, 6))))
    return b"".join(parts)


def _as_text(rng, b: bytes, p_str=0.3, allow_bad=True):
    """wrap bytes as a bytes argument or as an equivalent / interesting str argument"""
    if rng.random() < p_str:
        r = rng.random()
        cps = list(b)                    # latin-1 code points
        if r < 0.3:
            cps += [rng.choice([0xE9, 0x100, 0x20AC, 0x2028, 0x2029, 0x85, 0x7FF, 0x800, 0xFFFF, 0x10000, 0x10FFFF, 0xD7FF, 0xE000])]
        elif r < 0.36 and allow_bad:
            cps.insert(rng.randrange(len(cps) + 1), rng.choice([0xD800, 0xDFFF, 0xDC80]))
        return {"s": cps}
    return {"b": b.hex()}


EDGE = [b"\n", b"\r", b" ", b"\t", b"\x00", b":", b"\r\n", b"\n\n", b"\x0b", b"\x0c", b"\x85", b"\x1c"]


def _edge_name(rng):
    """a valid token with one more byte (or break) at its end or start: what a sloppy token test lets through"""
    base = rng.choice([b"X-Custom", b"x-a", b"Content-Type", b"etag", b"a"])
    e = rng.choice(EDGE)
    b = base + e if rng.random() < 0.65 else e + base
    return {"s": list(b)} if rng.random() < 0.4 else {"b": b.hex()}


def _name(rng):
    if rng.random() < 0.08:
        return _edge_name(rng)
    r = rng.random()
    if r < 0.72:
        return _as_text(rng, rng.choice(GOOD_NAMES), allow_bad=False) if rng.random() < 0.9 else \
            _as_text(rng, bytes(rng.choice(b"abcXYZ019-_.!~") for _ in range(rng.randrange(1, 9))), allow_bad=False)
    if r < 0.9:
        return _as_text(rng, rng.choice(BAD_NAMES))
    if r < 0.95:
        return {"s": [ord("x"), rng.choice([0x100, 0x20AC, 0xD800, 0xFF, 0x80])]}
    b = bytearray(rng.choice(GOOD_NAMES))
    b.insert(rng.randrange(len(b) + 1), rng.randrange(256))
    return {"b": bytes(b).hex()}


def _body(rng, tier):
    n = rng.choice(SIZES) if rng.random() < 0.9 else rng.randrange(300)
    if tier == "thorough" and rng.random() < 0.02:
        n = rng.choice([4095, 4096, 4097])
    r = rng.random()
    if r < 0.2:
        return (rng.choice([b"\r\n", b"0\r\n\r\n", b"HTTP/1.1 200 OK\r\n\r\n", b"\n"]) * (n // 2 + 1))[:n]
    return bytes(rng.randrange(256) for _ in range(n)) if r < 0.6 else bytes([rng.choice(b"abc\r\n0")]) * n


def _header_op(rng):
    r = rng.random()
    if r < 0.45:
        op = ["set", _name(rng), [_as_text(rng, _val_bytes(rng)) for _ in range(rng.choice([1, 1, 1, 1, 2, 0, 3]))]]
        if len(op[2]) == 1 and rng.random() < 0.5:
            op[1] = dict(op[1], via="setHeader")
        return op
    if r < 0.7:
        return ["add", _name(rng), _as_text(rng, _val_bytes(rng))]
    if r < 0.76:
        return ["rm", _name(rng)]
    if r < 0.9:
        a = {x: (_as_text(rng, _val_bytes(rng, 0.4)) if rng.random() < 0.25 else None) for x in ATTRS}
        ss = None
        if rng.random() < 0.3:
            ss = _as_text(rng, rng.choice([b"lax", b"Strict", b"STRICT", b"LAX", b"", b"none", b"lax;x", b"strict\r\n"]))
        return ["cookie", _as_text(rng, _val_bytes(rng, 0.4) or b"k"), _as_text(rng, _val_bytes(rng, 0.4)), a,
                rng.random() < 0.3, rng.random() < 0.3, ss]
    code = rng.choice([200, 200, 201, 204, 205, 206, 304, 301, 404, 500, 599, 600, 999, rng.randrange(200, 600)])
    if rng.random() < 0.04:
        code = rng.choice([100, 101, 199, 99, 1000, 0])
    msg = None
    if rng.random() < 0.5:
        msg = rng.choice([b"OK", b"", b" ", b"Not Found", b"custom reason", b"\xe9t\xe9", b"a\tb",
                          b"OK\r\nX-Injected: 1", b"OK\r\n\r\nHTTP/1.1 200 OK\r\nContent-Length: 0\r\n\r\n", b"a\nb", b"a\rb",
                          b"OK\r\n", b"\r\nOK", b"OK\n", _val_bytes(rng)])
    return ["code", code, None if msg is None else msg.hex()]


def _request(rng, tier, last):
    v11 = rng.random() < 0.7
    head = rng.random() < 0.2
    close = (rng.random() < 0.25) if last else (rng.random() < 0.05)
    ops = [_header_op(rng) for _ in range(rng.choice([0, 1, 1, 2, 3, 4, 6]))]
    writes = [_body(rng, tier) for _ in range(rng.choice([0, 1, 1, 2, 3, 4]))]
    total = sum(map(len, writes))
    r = rng.random()
    if r < 0.35:
        # the application declares the length
        wrong = rng.random() < 0.06
        n = total + (rng.choice([1, -1, 5]) if wrong else 0)
        txt = str(max(n, 0)).encode()
        if rng.random() < 0.15:
            txt = rng.choice([b" ", b"\t", b"0", b""]) + txt + rng.choice([b" ", b"", b"\r\n", b"\n"])
        nm = rng.choice([b"content-length", b"Content-Length", b"CONTENT-LENGTH", b"Content-length"])
        cl = ["set", _as_text(rng, nm, allow_bad=False), [_as_text(rng, txt, allow_bad=False)]]
        if rng.random() < 0.1:
            cl = ["add", cl[1], cl[2][0]]
        ops.insert(rng.randrange(len(ops) + 1), cl)
    elif r < 0.4:
        ops.append(["set", {"b": rng.choice([b"transfer-encoding", b"Transfer-Encoding"]).hex()},
                    [{"b": rng.choice([b"chunked", b"gzip", b"identity"]).hex()}]])
    r2 = rng.random()
    if r2 < 0.12:
        # a framing-relevant header that is present with NO values (or removed again): must count as absent
        nm = rng.choice([b"content-length", b"Content-Length", b"transfer-encoding", b"Transfer-Encoding", b"connection", b"Connection"])
        tnm = {"s": list(nm)} if rng.random() < 0.3 else {"b": nm.hex()}
        extra = rng.choice([["set", tnm, []], ["rm", tnm]])
        if nm.lower() == b"connection" and rng.random() < 0.6:
            extra = ["set", tnm, [{"b": rng.choice([b"close", b"Close", b"keep-alive", b"upgrade, close", b"closed"]).hex()}]]
        ops.insert(rng.randrange(len(ops) + 1) if rng.random() < 0.5 else len(ops), extra)
    elif r2 < 0.18:
        # the application installs a fresh Headers object, possibly with empty value lists
        pool = [b"content-length", b"Content-Length", b"transfer-encoding", b"connection", b"x-a", b"Content-Type", b"etag"]
        items = []
        for nm in rng.sample(pool, rng.choice([1, 2, 3])):
            if nm.lower() == b"content-length":
                vs = rng.choice([[], [], [str(total).encode()]])
            elif nm.lower() == b"transfer-encoding":
                vs = []
            elif nm.lower() == b"connection":
                vs = rng.choice([[], [b"keep-alive"]])
            else:
                vs = [_val_bytes(rng) for _ in range(rng.choice([0, 1, 2]))]
            plain = lambda b: {"s": list(b)} if rng.random() < 0.3 and all(c < 128 for c in b) else {"b": b.hex()}
            items.append([plain(nm), [plain(v) for v in vs]])
        ops.insert(0, ["new", items])
    ops += [["write", w.hex()] for w in writes]
    if writes and rng.random() < 0.15:
        # header operations after the first write must not reach the wire
        k = len(ops) - rng.randrange(len(writes))
        ops[k:k] = [_header_op(rng) for _ in range(rng.choice([1, 2]))]
    if not v11 and not last and rng.random() < 0.8:
        v11 = True
    return {"v11": v11, "head": head, "close": close, "ka": (not close) and rng.random() < 0.3, "ops": ops}


def gen(rng, tier):
    cases = []
    n = 450 if tier == "quick" else 3000
    for _ in range(n):
        k = rng.choice([1, 1, 1, 2, 2, 3])
        reqs = [_request(rng, tier, i == k - 1) for i in range(k)]
        cases.append({"split": rng.random() < 0.5, "reqs": reqs})
    # systematic: every break sequence at every position of a short value, in each sanitised place
    for brk in BREAKS[:4]:
        for pos in range(4):
            v = b"abc"[:pos] + brk + b"abc"[pos:]
            for place in ("set", "add", "cookie-k", "cookie-v", "cookie-path", "reason"):
                a = {x: None for x in ATTRS}
                if place == "set":
                    op = ["set", {"b": b"x-a".hex()}, [{"b": v.hex()}]]
                elif place == "add":
                    op = ["add", {"b": b"x-a".hex()}, {"s": list(v)}]
                elif place == "cookie-k":
                    op = ["cookie", {"b": v.hex()}, {"b": b"v".hex()}, a, False, False, None]
                elif place == "cookie-v":
                    op = ["cookie", {"b": b"k".hex()}, {"s": list(v)}, a, True, False, None]
                elif place == "cookie-path":
                    op = ["cookie", {"b": b"k".hex()}, {"b": b"v".hex()}, dict(a, path={"b": v.hex()}), False, True, {"b": b"Lax".hex()}]
                else:
                    op = ["code", 200, v.hex()]
                for v11 in (True, False):
                    cases.append({"split": False, "reqs": [{"v11": v11, "head": False, "close": False,
                                                            "ops": [op, ["write", b"body".hex()]]}]})
    # systematic: framing matrix
    for v11 in (True, False):
        for head in (True, False):
            for code in (200, 204, 304, 404):
                for cl in (False, True):
                    for writes in ([], [b""], [b"x"], [b"ab", b"", b"cde"]):
                        ops = [["code", code, None]]
                        if cl:
                            ops.append(["set", {"b": b"content-length".hex()}, [{"b": str(sum(map(len, writes))).encode().hex()}]])
                        ops += [["write", w.hex()] for w in writes]
                        cases.append({"split": False, "reqs": [{"v11": v11, "head": head, "close": False, "ops": ops},
                                                               {"v11": True, "head": False, "close": True,
                                                                "ops": [["write", b"next".hex()]]}]})
    # HTTPChannel.writeHeaders called directly with (name, value) pairs (legacy / WSGI-ish callers): hostile names and values
    def wh(pairs, body=b"body", v11=True, code=200, reason=b"OK"):
        return {"wh": {"v11": v11, "code": code, "reason": reason.hex(), "pairs": pairs, "body": body.hex()}}

    okp = [{"b": b"Content-Type".hex()}, {"b": b"text/plain".hex()}]
    hostile = BAD_NAMES + [b"Set-Cookie: sid=evil; X", b"Foo Bar", b"X-A\r\nX-B", b"x\n", b"\nx", b"x:", b":x", b"x\x00y", b"na\xefve", b" x", b"x "]
    for nm in hostile:
        for t in ({"b": nm.hex()}, {"s": list(nm)}):
            for pos in (0, 1):
                pairs = [okp, okp]
                pairs[pos] = [t, {"b": b"v".hex()}]
                cases.append(wh(pairs))
            cases.append(wh([[t, {"b": b"v".hex()}]], body=b""))
    for _ in range(150 if tier == "quick" else 2500):
        pairs = [[_name(rng), _as_text(rng, _val_bytes(rng))] for _ in range(rng.choice([0, 1, 1, 2, 3, 5]))]
        cases.append(wh(pairs, body=_body(rng, tier)[:40], v11=rng.random() < 0.7,
                        code=rng.choice([200, 200, 404, 204, 304, 500]),
                        reason=rng.choice([b"OK", b"", b"Not Found", b"a\r\nb", b"x\ny"])))
    # systematic: EVERY status code the module knows (and some it does not) x {streamed, sized, HTTP/1.0, HEAD, no write},
    # each followed by a pipelined request: only 204 / 304 (and HEAD) may go without a body and without framing
    from twisted.web import http as _http
    codes = sorted({c for c in _http.RESPONSES if 200 <= c <= 999} | {209, 226, 299, 300, 399, 418, 451, 499, 511, 599, 600, 999})
    clh = {"b": b"content-length".hex()}
    nxt = {"v11": True, "head": False, "close": True, "ops": [["write", b"next".hex()]]}
    for code in codes:
        body = [["write", b"ab".hex()], ["write", b"cde".hex()]]
        variants = [
            {"v11": True, "head": False, "close": False, "ops": [["code", code, None]] + body},
            {"v11": True, "head": False, "close": False, "ops": [["code", code, None], ["set", clh, [{"b": b"5".hex()}]]] + body},
            {"v11": False, "head": False, "close": False, "ops": [["code", code, None]] + body},
            {"v11": True, "head": True, "close": False, "ops": [["code", code, None]] + body},
            {"v11": True, "head": False, "close": False, "ops": [["code", code, None]]},
        ]
        for v in variants:
            cases.append({"split": False, "reqs": [v, nxt]})
    # systematic: setResponseCode histories on ONE request - the phrase on the wire is the one implied by the LAST call
    # (custom message then the same / another code without message, the reverse, three steps, the default 200)
    for c, d in ((404, 500), (200, 404), (500, 200), (299, 404), (404, 299)):
        for msg in (b"Nope", b"custom reason"):
            for hist in ([[c, msg], [c, None]], [[c, msg], [d, None]], [[c, None], [c, msg]], [[c, None], [d, msg]],
                         [[c, msg], [d, None], [c, None]], [[c, msg], [c, None], [c, msg]], [[c, msg], [c, msg + b"2"], [c, None]],
                         [[200, msg], [200, None]], [[c, None], [c, None]]):
                ops = [["code", k, None if m is None else m.hex()] for k, m in hist] + [["write", b"body".hex()]]
                for v11 in (True, False):
                    cases.append({"split": False, "reqs": [{"v11": v11, "head": False, "close": False, "ops": ops}, nxt]})
    # systematic: Content-Length / Transfer-Encoding present with an empty value list, by every route
    cl, te = {"b": b"content-length".hex()}, {"b": b"Transfer-Encoding".hex()}
    for v11 in (True, False):
        for head in (True, False):
            for route in ([["set", cl, []]], [["set", cl, [{"b": b"1".hex()}]], ["set", cl, []]], [["new", [[cl, []]]]],
                          [["set", cl, [{"b": b"1".hex()}]], ["rm", cl]], [["set", te, []]], [["new", [[te, []], [cl, []]]]],
                          [["add", cl, {"s": [0xD800]}]]):
                for writes in ([], [b"x"]):
                    cases.append({"split": False, "reqs": [
                        {"v11": v11, "head": head, "close": False, "ops": route + [["write", w.hex()] for w in writes]},
                        {"v11": True, "head": False, "close": True, "ops": [["write", b"next".hex()]]}]})
    # systematic: a valid token followed / preceded by each single suspicious byte, as bytes and as str, by every call
    for base in (b"X-Custom", b"a"):
        for e in EDGE:
            for nm in (base + e, e + base):
                for t in ({"b": nm.hex()}, {"s": list(nm)}):
                    for op in (["set", t, [{"b": b"value".hex()}]], ["set", dict(t, via="setHeader"), [{"b": b"value".hex()}]],
                               ["add", t, {"b": b"value".hex()}], ["rm", t]):
                        cases.append({"split": False, "reqs": [{"v11": True, "head": False, "close": False,
                                                                "ops": [op, ["write", b"x".hex()]]}]})
    # systematic: the application itself announces "Connection: close" (or something that only looks like it)
    conn = {"b": b"connection".hex()}
    for val in (b"close", b"Close", b" close ", b"keep-alive, close", b"close,foo", b"CLOSE\t", b"closed", b"keep-alive", b"x-close", b"close;q=1"):
        for route in ([["set", conn, [{"b": val.hex()}]]], [["add", {"s": list(b"Connection")}, {"s": list(val)}]],
                      [["new", [[conn, [{"b": val.hex()}]]]]], [["set", conn, [{"b": b"keep-alive".hex()}, {"b": val.hex()}]]],
                      [["write", b"x".hex()], ["set", conn, [{"b": val.hex()}]]]):
            for head in (False, True):
                cases.append({"split": rng.random() < 0.5, "reqs": [
                    {"v11": True, "head": head, "close": False, "ops": route + [["write", b"body".hex()]]},
                    {"v11": True, "head": False, "close": False, "ops": [["write", b"next".hex()]]}]})
    return cases


def corpus():
    # import the code under test (and h11) outside the per-case time limit (slow on a busy machine)
    import h11  # noqa: F401
    import twisted.internet.testing  # noqa: F401
    import twisted.web.http  # noqa: F401
    a = {x: None for x in ATTRS}
    w = lambda b: ["write", b.hex()]
    one = lambda ops, **kw: {"split": False, "reqs": [dict({"v11": True, "head": False, "close": False, "ops": ops}, **kw)]}
    return [
        # F6 (DESIGN.md section 6): CR/LF in the reason phrase injects a header / splits the response
        one([["code", 200, b"OK\r\nX: y\r\n\r\nsmuggled".hex()], w(b"hello")]),
        one([["code", 200, b"OK\r\nX-Injected: 1".hex()], w(b"hello")]),
        one([["code", 404, b"a\nb".hex()]], v11=False),
        one([["set", {"b": b"x-a".hex()}, [{"b": b"v\r\nX-Injected: 1".hex()}]], w(b"hello")]),
        one([["cookie", {"b": b"k;1".hex()}, {"s": list(b"v\n2")}, dict(a, path={"b": b"/;x\r\nSet-Cookie: evil=1".hex()}),
              True, True, {"b": b"Strict".hex()}], w(b"x")]),
        one([["set", {"b": b"x\r\ny".hex()}, [{"b": b"v".hex()}]], ["set", {"s": [120, 256]}, []], w(b"")]),
        # the application announces Connection: close on a persistent connection; a second request is pipelined
        {"split": False, "reqs": [
            {"v11": True, "head": False, "close": False, "ops": [["set", {"b": b"Connection".hex()}, [{"b": b"close".hex()}]], w(b"bye")]},
            {"v11": True, "head": False, "close": False, "ops": [w(b"never")]}]},
        {"split": True, "reqs": [
            {"v11": True, "head": True, "close": False, "ops": [w(b"ignored")]},
            {"v11": True, "head": False, "close": False, "ops": [["code", 204, None], w(b"ignored")]},
            {"v11": False, "head": False, "close": False, "ops": [w(b"until"), w(b" close")]},
            {"v11": True, "head": False, "close": False, "ops": [w(b"never")]}]},
    ]


def shrink(case):
    if "wh" in case:
        w = case["wh"]
        for i in range(len(w["pairs"])):
            if len(w["pairs"]) > 1:
                yield {"wh": {**w, "pairs": w["pairs"][:i] + w["pairs"][i + 1:]}}
        if w["body"]:
            yield {"wh": {**w, "body": ""}}
        return
    reqs = case["reqs"]
    if len(reqs) > 1:
        for i in range(len(reqs)):
            yield {**case, "reqs": reqs[:i] + reqs[i + 1:]}
    for i, r in enumerate(reqs):
        for j in range(len(r["ops"])):
            yield {**case, "reqs": reqs[:i] + [{**r, "ops": r["ops"][:j] + r["ops"][j + 1:]}] + reqs[i + 1:]}
        for j, op in enumerate(r["ops"]):
            if op[0] == "write" and len(op[1]) > 2:
                yield {**case, "reqs": reqs[:i] + [{**r, "ops": r["ops"][:j] + [["write", op[1][:2]]] + r["ops"][j + 1:]}] + reqs[i + 1:]}


def _hist(case, obs):
    if "wh" in case:
        return "writeHeaders((name, value) pairs)"
    r = case["reqs"][0]
    return f"reqs={len(case['reqs'])} first={'1.1' if r['v11'] else '1.0'}{'/HEAD' if r['head'] else ''}"


def describe(case):
    if "wh" in case:
        return case
    return {"split": case.get("split"), "reqs": [{**r, "ops": [op if op[0] != "write" or len(op[1]) < 80 else ["write", op[1][:80] + "..."]
                                                                 for op in r["ops"]][:12]} for r in case["reqs"]]}


SPEC = Spec(
    pid="C20",
    gen=gen, impl=impl, oracle=oracle, corpus=corpus, shrink=shrink, describe=describe, histogram=_hist,
    regen=lambda: tr.generate(REPO, os.path.join(COQ, "C20", "Gen.v")),
    coq_header="From TwLib Require Import HttpRespBytes.\nFrom C20 Require Import Model Gen Run.",
    coq_fn="run_case",
    to_coq=to_coq, model_equal=model_equal,
    nontrivial=lambda c, o: len(o) > 40 and not o.endswith("#ERR") and not o.startswith(("wh:N", "wh:U")),
    rule="450 (quick) / 3000 (thorough) random connections of 1-3 pipelined requests (HTTP/1.0|1.1 x GET|HEAD x "
         "Connection: close), each a script of setResponseCode / setRawHeaders / setHeader / addRawHeader / removeHeader / "
         "addCookie / write calls with names and values over bytes 0-255 and str code points (incl. > 255, surrogates), "
         "CR/LF/CRLF placed in every sanitised position, body sizes at 0,1,15,16,17,255,256,257 (thorough also 4095-4097), "
         "declared Content-Length (right, padded, wrong), header calls after the first write; plus every break sequence at "
         "every offset of a short value in each sanitised place, every status code of http.RESPONSES (>= 200) and 12 unknown ones x {streamed, sized, HTTP/1.0, HEAD, no write} each followed by a pipelined request, and the framing matrix version x method x {200,204,304,404} x "
         "Content-Length x write pattern followed by a second pipelined request; non-trivial = the reference parser accepts "
         "the bytes; distinct by (case, observation)",
    trusted=["hand-written model coq/C20/Model.v part 2 (tied by this correspondence run: exact bytes on the transport)",
             "Spec parser coq/C20/Model.v part 1 (RFC 9112 transcription; cross-checked on every case against the harness' "
             "reference parser and, inside h11's value grammar, against h11 0.16)",
             "translate/c20.py (default reason phrase table)",
             "str.encode('utf8') / encode('iso-8859-1') as written in Model.utf8 / enc_name (validated by the correspondence)"],
    assumptions=["the application frames consistently: status 200-999; a Content-Length it sets equals the number of bytes it "
                 "writes (unless HEAD/204/304); it does not set Transfer-Encoding itself on a non-chunked response",
                 "header values containing NUL or other control bytes are passed through unchanged (only CR/LF are sanitised); "
                 "the Spec parser accepts them, h11 does not - h11 is consulted only inside its own value grammar"],
)


def main(tier, seed, replay):
    """standard protocol; model evaluation in smaller shards so that a quick run uses all workers"""
    from harness import common

    orig = common.coq_eval

    def sharded(pid, header, fn, terms, shard=400, **kw):
        per = max(40, min(400, -(-len(terms) // max(1, common.NPROC))))
        return orig(pid, header, fn, terms, shard=per, **kw)

    common.coq_eval = sharded
    try:
        return common.run_spec(SPEC, tier, seed, replay)
    finally:
        common.coq_eval = orig
