"""C57 — twisted.logger LogPublisher / LogLevelFilterPredicate / LimitedHistoryLogObserver: H-tie.

case kinds:
  {"k": "pub", "obs": [[bad_ev, bad_err], ...], "events": [n, ...]}
      observer i raises on ordinary events iff bad_ev, on observer-failure reports iff bad_err
      observation: deliveries in order "i:e<n>" / "i:x<b>" (failure report about observer b)
  {"k": "filter", "default": lvl, "sets": [[namespace, lvl], ...], "queries": [[lvl|None, namespace], ...]}
      levels 0..4 = debug, info, warn, error, critical; observation per query "<level index><T|F>"
  {"k": "buf", "size": n|None, "events": [n, ...]}     observation: the replayed events
  {"k": "fhist", "default": lvl, "ops": [["set", ns, lvl] | ["clear"] | ["q", ns] | ["f", lvl|None, ns], ...]}
      a HISTORY of calls on ONE LogLevelFilterPredicate: setLogLevelForNamespace / clearLogLevels /
      logLevelForNamespace (observation: level index) / predicate(event) (observation: T|F)
  {"k": "buf2", "size": n|None, "ops": [["e", n] | ["r"], ...]}   events and replayTo calls interleaved on ONE
      LimitedHistoryLogObserver; observation: what each replay delivered
  "pub" cases may carry "dup": [i, ...]: observer i is registered a second time through an EQUAL but not identical object
      (a fresh bound method of the same sink object, as in addObserver(sink.emit) twice) — still one logical observer
  {"k": "phist", "tab": [[bad_ev, bad_err], ...], "os": [i, ...], "ops": [["add", i] | ["rm", i] | ["ev", n], ...]}
      a HISTORY on ONE publisher: addObserver / removeObserver / events interleaved (observers registered through bound
      methods); the same observers fail again and again with registrations changing BETWEEN the failures
  {"k": "publive", "tab": [[bad_ev, bad_err, act], ...], "os": [i, ...], "events": [n, ...]}
      EXTENSION: observer i, when it gets an ordinary event, first does act (None | ["add", o] | ["rm", o]: addObserver /
      removeObserver of observer o on the SAME publisher, i.e. while the event is being dispatched), then raises iff
      bad_ev; it raises on failure reports iff bad_err.  "os" = the observers registered at the start.
"""
from __future__ import annotations

import itertools

from harness.common import Failure, Spec, coq_bool, coq_list, coq_option

SEGS = ["a", "b", "bc", "c", "ab", "x", "bcd"]


def _levels():
    from twisted.logger import LogLevel
    return [LogLevel.debug, LogLevel.info, LogLevel.warn, LogLevel.error, LogLevel.critical]


def impl(case) -> str:
    k = case["k"]
    if k == "pub":
        from twisted.logger import LogPublisher
        out = []

        class Boom(Exception):
            pass

        class Sink:
            def __init__(self, i, bad_ev, bad_err):
                self.i, self.bad_ev, self.bad_err = i, bad_ev, bad_err

            def emit(self, event):
                if "n" in event:
                    out.append(f"{self.i}:e{event['n']}")
                    if self.bad_ev:
                        raise Boom()
                else:
                    out.append(f"{self.i}:x{event['observer'].__self__.i}")
                    if self.bad_err:
                        raise Boom()
        sinks = [Sink(i, be, br) for i, (be, br) in enumerate(case["obs"])]
        pub = LogPublisher()
        for x in sinks:
            pub.addObserver(x.emit)
        for i in case.get("dup", []):
            pub.addObserver(sinks[i].emit)        # a new bound-method object, equal to the registered one
        for n in case["events"]:
            pub({"n": n})
        return " ".join(out)
    if k == "phist":
        from twisted.logger import LogPublisher
        out = []

        class Boom(Exception):
            pass

        class Sink:
            def __init__(self, i, bad_ev, bad_err):
                self.i, self.bad_ev, self.bad_err = i, bad_ev, bad_err

            def emit(self, event):
                if "n" in event:
                    out.append(f"{self.i}:e{event['n']}")
                    if self.bad_ev:
                        raise Boom()
                else:
                    out.append(f"{self.i}:x{event['observer'].__self__.i}")
                    if self.bad_err:
                        raise Boom()
        sinks = [Sink(i, be, br) for i, (be, br) in enumerate(case["tab"])]
        pub = LogPublisher()
        for i in case["os"]:
            pub.addObserver(sinks[i].emit)
        for op in case["ops"]:
            if op[0] == "add":
                pub.addObserver(sinks[op[1]].emit)
            elif op[0] == "rm":
                pub.removeObserver(sinks[op[1]].emit)
            else:
                pub({"n": op[1]})
        return " ".join(out)
    if k == "publive":
        from twisted.logger import LogPublisher
        out = []

        class Boom(Exception):
            pass
        pub = LogPublisher()
        obs = []

        def mk(i, bad_ev, bad_err, act):
            def ob(event):
                if "n" in event:
                    out.append(f"{i}:e{event['n']}")
                    if act is not None:
                        (pub.addObserver if act[0] == "add" else pub.removeObserver)(obs[act[1]])
                    if bad_ev:
                        raise Boom()
                else:
                    out.append(f"{i}:x{obs.index(event['observer'])}")
                    if bad_err:
                        raise Boom()
            return ob
        for i, (be, br, act) in enumerate(case["tab"]):
            obs.append(mk(i, be, br, act))
        for i in case["os"]:
            pub.addObserver(obs[i])
        for n in case["events"]:
            pub({"n": n})
        return " ".join(out)
    if k == "filter":
        from twisted.logger import LogLevelFilterPredicate, PredicateResult
        L = _levels()
        p = LogLevelFilterPredicate(defaultLogLevel=L[case["default"]])
        for ns, lvl in case["sets"]:
            p.setLogLevelForNamespace(ns, L[lvl])
        res = []
        for lvl, ns in case["queries"]:
            ev = {"log_namespace": ns}
            if lvl is not None:
                ev["log_level"] = L[lvl]
            r = p(ev)
            res.append(f"{L.index(p.logLevelForNamespace(ns))}{'T' if r is PredicateResult.maybe else 'F'}")
        return " ".join(res)
    if k == "fhist":
        from twisted.logger import LogLevelFilterPredicate, PredicateResult
        L = _levels()
        p = LogLevelFilterPredicate(defaultLogLevel=L[case["default"]])
        res = []
        for op in case["ops"]:
            if op[0] == "set":
                p.setLogLevelForNamespace(op[1], L[op[2]])
            elif op[0] == "clear":
                p.clearLogLevels()
            elif op[0] == "q":
                res.append(str(L.index(p.logLevelForNamespace(op[1]))))
            else:
                ev = {"log_namespace": op[2]}
                if op[1] is not None:
                    ev["log_level"] = L[op[1]]
                res.append("T" if p(ev) is PredicateResult.maybe else "F")
        return " ".join(res)
    if k == "buf2":
        from twisted.logger import LimitedHistoryLogObserver
        h = LimitedHistoryLogObserver(case["size"])
        res = []
        for op in case["ops"]:
            if op[0] == "e":
                h({"n": op[1]})
            else:
                got = []
                h.replayTo(lambda e: got.append(e["n"]))
                res.append("[" + ",".join(map(str, got)) + "]")
        return " ".join(res)
    from twisted.logger import LimitedHistoryLogObserver
    h = LimitedHistoryLogObserver(case["size"])
    for n in case["events"]:
        h({"n": n})
    got = []
    h.replayTo(lambda e: got.append(e["n"]))
    return "[" + ",".join(map(str, got)) + "]"


def oracle(case, obs):
    k = case["k"]
    if k == "pub":
        toks = obs.split(" ") if obs else []
        n_obs = len(case["obs"])
        pos = 0
        for n in case["events"]:
            want = [f"{i}:e{n}" for i in range(n_obs)]
            if toks[pos:pos + n_obs] != want:
                return Failure(case, f"event {n}: expected deliveries {want}, got {toks[pos:pos + n_obs]}", "pub-delivery-once-in-order")
            pos += n_obs
            seg = []
            while pos < len(toks) and ":x" in toks[pos]:
                seg.append(toks[pos])
                pos += 1
            for b, (be, _) in enumerate(case["obs"]):
                if be:
                    for o in range(n_obs):
                        if o != b and f"{o}:x{b}" not in seg:
                            return Failure(case, f"event {n}: failure of observer {b} not reported to observer {o}", "pub-failure-not-reported")
                if f"{b}:x{b}" in seg:
                    return Failure(case, f"event {n}: failure of observer {b} reported to itself", "pub-reported-to-self")
            for t in seg:
                o, b = t.split(":x")
                if not case["obs"][int(b)][0] and not case["obs"][int(b)][1]:
                    return Failure(case, f"event {n}: report about observer {b}, which never raises", "pub-spurious-report")
        if pos != len(toks):
            return Failure(case, "unexpected trailing deliveries", "pub-delivery-once-in-order")
        return None
    if k == "filter":
        cfg = {}
        default = case["default"]
        for ns, lvl in case["sets"]:
            if ns:
                cfg[ns] = lvl
            else:
                default = lvl
        toks = obs.split(" ") if obs else []
        for (lvl, ns), t in zip(case["queries"], toks):
            # most specific configured dotted prefix, computed on the strings
            best = None
            for key in cfg:
                if ns == key or ns.startswith(key + "."):
                    if best is None or len(key) > len(best):
                        best = key
            want_level = cfg[best] if best is not None and ns else default
            want_pass = lvl is not None and bool(ns) and lvl >= want_level
            if t != f"{want_level}{'T' if want_pass else 'F'}":
                return Failure(case, f"namespace {ns!r} level {lvl}: got {t}, expected level {want_level} pass={want_pass}",
                               "filter-most-specific-prefix" if t[:-1] != str(want_level) else "filter-decision")
        return None
    if k == "phist":
        toks = obs.split(" ") if obs else []
        tab = case["tab"]
        cur = []
        for i in case["os"]:
            if i not in cur:
                cur.append(i)
        pos = 0
        failed_before = set()
        for n_op, op in enumerate(case["ops"]):
            if op[0] == "add":
                if op[1] not in cur:
                    cur.append(op[1])
                continue
            if op[0] == "rm":
                if op[1] in cur:
                    cur.remove(op[1])
                continue
            n = op[1]
            want = [f"{i}:e{n}" for i in cur]
            if toks[pos:pos + len(want)] != want:
                return Failure(case, f"op {n_op} event {n}: expected deliveries {want} to the observers registered now, got "
                               f"{toks[pos:pos + len(want)]}", "phist-delivery-once-in-order")
            pos += len(want)
            seg = []
            while pos < len(toks) and ":x" in toks[pos]:
                seg.append(toks[pos])
                pos += 1
            for t in seg:
                o, b = (int(x) for x in t.split(":x"))
                if o == b:
                    return Failure(case, f"op {n_op} event {n}: failure of observer {b} reported to itself", "pub-reported-to-self")
                if o not in cur:
                    return Failure(case, f"op {n_op} event {n}: report about {b} delivered to observer {o}, which is not registered "
                                   f"now ({cur})", "phist-report-to-unregistered-observer")
            for b in cur:
                if tab[b][0]:
                    for o in cur:
                        if o != b and f"{o}:x{b}" not in seg:
                            again = b in failed_before
                            return Failure(case, f"op {n_op} event {n}: failure of observer {b} not reported to observer {o}, "
                                           f"registered now ({cur})" + (" — a repeated failure of that observer" if again else ""),
                                           "phist-repeated-failure-not-reported-to-current-observers" if again
                                           else "pub-failure-not-reported")
                    failed_before.add(b)
        if pos != len(toks):
            return Failure(case, "unexpected trailing deliveries", "phist-delivery-once-in-order")
        return None
    if k == "publive":
        toks = obs.split(" ") if obs else []
        tab = case["tab"]
        for t in toks:
            o, e = t.split(":")
            if e.startswith("x") and o == e[1:]:
                return Failure(case, f"failure of observer {o} reported to itself", "pub-reported-to-self")
        if any(a is not None and a[0] == "rm" for _, _, a in tab):
            return None       # removal during dispatch: outside the property; behaviour pinned by the model only
        # observers only add observers: every observer listed when an event is published gets it once, in order
        cur = list(case["os"])
        pos = 0
        for n in case["events"]:
            want = [f"{i}:e{n}" for i in cur]
            got = [t for t in toks[pos:] if t.endswith(f":e{n}")]
            if got[:len(want)] != want:
                return Failure(case, f"event {n}: listed observers {cur} expected first, once, in order; got {got}",
                               "publive-listed-observers-once-in-order")
            if len(set(got)) != len(got):
                return Failure(case, f"event {n}: an observer got the event twice: {got}", "publive-delivered-twice")
            while pos < len(toks) and (toks[pos].endswith(f":e{n}") or ":x" in toks[pos]):
                pos += 1
            for i in [int(t.split(":")[0]) for t in got]:
                a = tab[i][2]
                if a is not None and a[1] not in cur:
                    cur.append(a[1])
        return None
    if k == "fhist":
        cfg, default = {}, case["default"]
        toks = obs.split(" ") if obs else []
        pos = 0

        def ref(ns):
            # most specific configured dotted prefix of the CURRENT configuration, on the strings
            if ns:
                segs = ns.split(".")
                for i in range(len(segs), 0, -1):
                    key = ".".join(segs[:i])
                    if key in cfg:
                        return cfg[key]
            return default
        for n, op in enumerate(case["ops"]):
            if op[0] == "set":
                if op[1]:
                    cfg[op[1]] = op[2]
                else:
                    default = op[2]
            elif op[0] == "clear":
                cfg, default = {}, case["default"]
            else:
                if pos >= len(toks):
                    return Failure(case, "missing answers", "log")
                t = toks[pos]
                pos += 1
                if op[0] == "q":
                    if t != str(ref(op[1])):
                        stale = any(o[0] in ("q", "f") and o[-1] == op[1] for o in case["ops"][:n])
                        return Failure(case, f"op {n} {op}: level {t}, expected {ref(op[1])} for the current configuration {cfg} "
                                       f"default {default}", "filter-history-stale-level" if stale else "filter-most-specific-prefix")
                else:
                    lvl, ns = op[1], op[2]
                    want = lvl is not None and bool(ns) and lvl >= ref(ns)
                    if t != ("T" if want else "F"):
                        stale = any(o[0] in ("q", "f") and o[-1] == ns for o in case["ops"][:n])
                        return Failure(case, f"op {n} {op}: decision {t}, expected {want} for the current configuration {cfg} "
                                       f"default {default}", "filter-history-stale-decision" if stale else "filter-decision")
        return None
    if k == "buf2":
        seen, size, want = [], case["size"], []
        for op in case["ops"]:
            if op[0] == "e":
                seen.append(op[1])
            else:
                w = seen if size is None else (seen[max(0, len(seen) - size):] if size else [])
                want.append("[" + ",".join(map(str, w)) + "]")
        got = obs.split(" ") if obs else []
        for n, (a, b) in enumerate(zip(got + ["?"] * len(want), want)):
            if a != b:
                return Failure(case, f"replay number {n} delivered {a}, expected the last {size} of {seen}: {b}",
                               "buffer-last-n" if n == 0 else "buffer-later-replay")
        return None
    ev, size = case["events"], case["size"]
    want = ev if size is None else (ev[max(0, len(ev) - size):] if size else [])
    if obs != "[" + ",".join(map(str, want)) + "]":
        return Failure(case, f"replayed {obs}, expected {want}", "buffer-last-n")
    return None


def _ns(rng):
    return ".".join(rng.choice(SEGS[:6]) for _ in range(rng.choice([0, 1, 1, 2, 2, 3, 4])))


def gen(rng, tier):
    cases = []
    # publisher: every raise pattern for up to 4 (quick) / 5 (thorough) observers
    top = 4 if tier == "quick" else 5
    for n in range(0, top + 1):
        for pat in itertools.product([(False, False), (True, False), (False, True), (True, True)], repeat=n):
            if n == top and rng.random() > (0.4 if tier == "quick" else 0.5):
                continue
            cases.append({"k": "pub", "obs": [list(p) for p in pat], "events": [1, 2] if n < 3 else [1]})
    for _ in range(30 if tier == "quick" else 300):
        n = rng.randrange(5, 8)
        cases.append({"k": "pub", "obs": [[rng.random() < 0.3, rng.random() < 0.2] for _ in range(n)],
                      "events": list(range(rng.randrange(1, 4)))})
    # publisher histories: the same observers fail repeatedly; addObserver / removeObserver BETWEEN the failures
    for first in (0, 1, 2):
        for mid in ([["add", 3]], [["rm", 1]], [["rm", 1], ["add", 3]], [["add", 3], ["rm", 3], ["add", 4]], [["rm", 1], ["add", 1]], []):
            tab = [[i == first, False] for i in range(3)] + [[False, False], [False, True]]
            cases.append({"k": "phist", "tab": tab, "os": [0, 1, 2],
                          "ops": [["ev", 1]] + mid + [["ev", 2]] + [["add", 4], ["ev", 3]]})
    for _ in range(200 if tier == "quick" else 4000):
        n = rng.randrange(2, 7)
        tab = [[rng.random() < 0.35, rng.random() < 0.15] for _ in range(n)]
        os_ = [i for i in range(n) if rng.random() < 0.5]
        ops, e = [], 0
        for _ in range(rng.randrange(3, 14)):
            r = rng.random()
            if r < 0.4:
                ops.append(["ev", e])
                e += 1
            elif r < 0.75:
                ops.append(["add", rng.randrange(n)])
            else:
                ops.append(["rm", rng.randrange(n)])
        cases.append({"k": "phist", "tab": tab, "os": os_, "ops": ops + [["ev", e]]})
    # extension: observers that add / remove observers while the event is dispatched
    for _ in range(300 if tier == "quick" else 5000):
        n = rng.randrange(2, 7)
        removals = rng.random() < 0.5
        tab = []
        for i in range(n):
            r = rng.random()
            act = None
            if r < 0.35:
                act = ["add", rng.randrange(n)]
            elif r < 0.6 and removals:
                act = ["rm", rng.randrange(n)]
            tab.append([rng.random() < 0.2, rng.random() < 0.15, act])
        os_ = [i for i in range(n) if rng.random() < 0.6] or [0]
        rng.shuffle(os_)
        cases.append({"k": "publive", "tab": tab, "os": os_, "events": list(range(rng.randrange(1, 4)))})
    # filter: shared prefixes a, a.b, a.bc, ...
    for _ in range(300 if tier == "quick" else 6000):
        sets = [[_ns(rng), rng.randrange(5)] for _ in range(rng.randrange(0, 6))]
        qs = [[rng.choice([None, 0, 1, 2, 3, 4]), _ns(rng)] for _ in range(rng.randrange(1, 8))]
        qs += [[rng.randrange(5), s[0] + rng.choice(["", ".b", ".bc", ".x.a"])] for s in sets[:3] if s[0]]
        cases.append({"k": "filter", "default": rng.randrange(5), "sets": sets, "queries": qs})
    # filter as a history on one predicate: a family of namespaces sharing dotted prefixes, each queried / filtered
    # repeatedly before and after its ancestors (and itself, and the default) are configured, re-configured, cleared
    for _ in range(400 if tier == "quick" else 8000):
        root = rng.choice(SEGS[:6])
        fam = [root]
        for _ in range(rng.randrange(2, 6)):
            fam.append(rng.choice(fam) + "." + rng.choice(SEGS[:6]))
        fam += [rng.choice(SEGS[:6]), ""]
        ops = []
        for _ in range(rng.randrange(4, 30)):
            r = rng.random()
            ns = rng.choice(fam)
            if r < 0.3:
                ops.append(["set", ns, rng.randrange(5)])
            elif r < 0.35:
                ops.append(["clear"])
            elif r < 0.7:
                ops.append(["q", ns])
            else:
                ops.append(["f", rng.choice([None, 0, 1, 2, 3, 4]), ns])
        cases.append({"k": "fhist", "default": rng.randrange(5), "ops": ops})
    # one logical observer registered twice through equal-but-not-identical objects
    for n in range(1, 5):
        for d in range(n):
            for pat in ((False, False), (True, False), (True, True)):
                cases.append({"k": "pub", "obs": [list(pat) if i == d else [False, False] for i in range(n)], "events": [1, 2],
                              "dup": [d] + ([0] if n > 2 else [])})
    # publisher histories (addObserver / removeObserver / events interleaved, the same observers failing repeatedly with registrations changing between the failures); replays interleaved with events on one buffer
    for size in [None, 0, 1, 2, 3, 5]:
        for _ in range(6 if tier == "quick" else 60):
            ops = []
            for _ in range(rng.randrange(2, 16)):
                ops.append(["r"] if rng.random() < 0.3 else ["e", rng.randrange(100)])
            cases.append({"k": "buf2", "size": size, "ops": ops + [["r"], ["e", 7], ["r"], ["r"]]})
    # buffer: N from 0 up, stream lengths around N
    for size in [None, 0, 1, 2, 3, 5, 8]:
        for ln in range(0, 12):
            cases.append({"k": "buf", "size": size, "events": [rng.randrange(100) for _ in range(ln)]})
    return cases


def corpus():
    return [
        {"k": "pub", "obs": [[False, False], [True, False], [False, True], [True, True]], "events": [7]},
        {"k": "filter", "default": 1, "sets": [["a", 3], ["a.b", 0], ["a.bc", 4], ["", 2]],
         "queries": [[2, "a"], [2, "a.b"], [2, "a.bc"], [2, "a.b.c"], [2, "a.bcd"], [2, "ab"], [None, "a"], [4, ""], [2, "x"]]},
        {"k": "fhist", "default": 2, "ops": [["q", "a.b.c"], ["f", 1, "a.b.c"], ["set", "a.b", 0], ["q", "a.b.c"], ["f", 1, "a.b.c"],
                                              ["set", "a", 4], ["q", "a.b.c"], ["q", "a.c"], ["clear"], ["q", "a.b.c"], ["set", "", 3], ["q", "a.b.c"]]},
        {"k": "publive", "tab": [[False, False, ["rm", 0]], [False, False, None], [False, False, None]], "os": [0, 1, 2], "events": [7, 8]},
        {"k": "publive", "tab": [[True, False, ["add", 3]], [False, True, None], [False, False, ["add", 0]], [True, True, ["add", 1]]],
         "os": [0, 1, 2], "events": [1, 2]},
        {"k": "phist", "tab": [[True, False], [False, False], [False, False]], "os": [0, 1],
         "ops": [["ev", 1], ["add", 2], ["ev", 2], ["rm", 1], ["ev", 3]]},
        {"k": "buf2", "size": 3, "ops": [["e", 1], ["e", 2], ["e", 3], ["e", 4], ["r"], ["r"], ["e", 5], ["r"]]},
        {"k": "pub", "obs": [[False, False], [True, False]], "events": [1], "dup": [0, 1]},
        {"k": "buf", "size": 0, "events": [1, 2, 3]},
        {"k": "buf", "size": 3, "events": [1, 2, 3, 4, 5]},
    ]


def _seg_ids(ns):
    return [] if ns == "" else [SEGS.index(x) for x in ns.split(".")]


def to_coq(case):
    k = case["k"]
    if k == "pub":
        obs = [f"mkO {i} {coq_bool(a)} {coq_bool(b)}" for i, (a, b) in enumerate(case["obs"])]
        return f"CPub {coq_list(obs, 'obs')} {coq_list(map(str, case['events']), 'nat')}"
    if k == "filter":
        default = case["default"]
        entries = []
        for ns, lvl in case["sets"]:
            if ns:
                entries.insert(0, f"({coq_list(map(str, _seg_ids(ns)), 'nat')}, {lvl})")
            else:
                default = lvl
        qs = [f"({coq_option(None if l is None else str(l), 'nat')}, {coq_list(map(str, _seg_ids(ns)), 'nat')})"
              for l, ns in case["queries"]]
        return f"CFilter {coq_list(entries, '(list nat * nat)%type')} {default} {coq_list(qs, '(option nat * list nat)%type')}"
    if k == "publive":
        def lob(x):
            a = "ONone" if x[2] is None else (f"(OAdd {x[2][1]})" if x[2][0] == "add" else f"(ORemove {x[2][1]})")
            return f"mkL {coq_bool(x[0])} {coq_bool(x[1])} {a}"
        return (f"CPubLive {coq_list(map(lob, case['tab']), 'lobs')} {coq_list(map(str, case['os']), 'nat')} "
                f"{coq_list(map(str, case['events']), 'nat')}")
    if k == "fhist":
        def fop(o):
            if o[0] == "set":
                return f"FSet {coq_list(map(str, _seg_ids(o[1])), 'nat')} {o[2]}"
            if o[0] == "clear":
                return "FClear"
            if o[0] == "q":
                return f"FQuery {coq_list(map(str, _seg_ids(o[1])), 'nat')}"
            return f"FFilter {coq_option(None if o[1] is None else str(o[1]), 'nat')} {coq_list(map(str, _seg_ids(o[2])), 'nat')}"
        return f"CFHist {case['default']} {coq_list(map(fop, case['ops']), 'fop')}"
    if k == "phist":
        tab = [f"mkL {coq_bool(a)} {coq_bool(b)} ONone" for a, b in case["tab"]]
        ops = [("PAdd %d" % o[1]) if o[0] == "add" else ("PRem %d" % o[1]) if o[0] == "rm" else ("PEv %d" % o[1]) for o in case["ops"]]
        return f"CPHist {coq_list(tab, 'lobs')} {coq_list(map(str, case['os']), 'nat')} {coq_list(ops, 'pop')}"
    if k == "buf2":
        size = coq_option(None if case["size"] is None else str(case["size"]), "nat")
        ops = ["BReplay" if o[0] == "r" else f"BEvent {o[1]}" for o in case["ops"]]
        return f"CBuf2 {size} {coq_list(ops, 'bop')}"
    size = coq_option(None if case["size"] is None else str(case["size"]), "nat")
    return f"CBuf {size} {coq_list(map(str, case['events']), 'nat')}"


def shrink(case):
    if case["k"] == "publive":
        for i in range(len(case["events"])):
            yield {**case, "events": case["events"][:i] + case["events"][i + 1:]}
        for i in range(len(case["os"])):
            yield {**case, "os": case["os"][:i] + case["os"][i + 1:]}
        for i, x in enumerate(case["tab"]):
            if x[2] is not None or x[0] or x[1]:
                yield {**case, "tab": case["tab"][:i] + [[False, False, None]] + case["tab"][i + 1:]}
        return
    for key in ("events", "obs", "sets", "queries", "ops"):
        if key in case:
            l = case[key]
            for i in range(len(l)):
                yield {**case, key: l[:i] + l[i + 1:]}


SPEC = Spec(
    pid="C57",
    gen=gen, impl=impl, oracle=oracle, corpus=corpus, shrink=shrink,
    coq_header="From C57 Require Import Model Run.",
    coq_fn="run_show",
    to_coq=to_coq,
    nontrivial=lambda c, o: (c["k"] == "pub" and ":x" in o) or (c["k"] == "publive" and any(x[2] is not None for x in c["tab"])) or (c["k"] == "filter" and bool(c["sets"])) or (c["k"] == "fhist" and any(o[0] == "set" for o in c["ops"])) or (c["k"] == "buf" and len(c["events"]) > (c["size"] or 0)) or (c["k"] == "buf2") or (c["k"] == "phist" and ":x" in o),
    histogram=lambda c, o: c["k"],
    rule="publisher: every raise pattern (ok / raises on events / raises on failure reports / both) for 0-4 observers "
         "(thorough 0-5; largest size sampled) plus random sets of 5-7 observers, 1-3 events; extension: 2-6 observers that add / remove observers of the publisher while an event is dispatched (half of the cases without removals), some raising, 1-3 events; filter: random configurations of "
         "0-5 namespaces drawn from segments a,b,bc,c,ab,x (shared string prefixes a.b / a.bc), default set through the empty "
         "namespace, queries with and without level, on configured names and their extensions; filter histories: 4-29 interleaved set / clear / query / filter calls on ONE predicate over a family of namespaces sharing dotted prefixes (each queried repeatedly before and after changes to its ancestors, itself and the default); buffer: N in {None,0,1,2,3,5,8} "
         "x stream lengths 0-11; replays interleaved with events on one buffer (several replays, events in between); observers registered twice through equal-but-not-identical bound methods; non-trivial = a failure report delivered / a configured filter / an overflowing buffer",
    trusted=["hand-written model coq/C57/Model.v (tied by this correspondence run only)",
             "observers that add/remove observers during a dispatch (extension, outside the property's quantifier) are modelled "
             "with a live list iterator; with removals the behaviour is pinned by the correspondence only (no oracle claim)",
             "namespaces are modelled as lists of segments; the string-level prefix confusion (a.b vs a.bc) is checked by the "
             "oracle on the implementation only"],
    assumptions=["str.split('.') / '.'.join are inverse on the generated namespaces (no empty segments)",
                 "collections.deque(maxlen=N) keeps the last N appended items"],
)
