"""C02 — Deferred chaining depth never exhausts the stack.
H-tie: the ghost frame depth of coq/C02/Model.v (theorems in coq/C02) against frame depths measured with
sys.setprofile on real Deferreds, operation by operation, on chain programs of small length and random cancel-free
programs.  Oracle (runs on everything, incl. chains and inlineCallbacks/coroutine loops of up to 10^5 elements, which
are too long for the model): completes without RecursionError, right result, depth <= 4 per kernel operation and the
same depth as the same shape with 10 elements."""
from __future__ import annotations

import gc
import sys
import warnings

from harness import deferredk as K
from harness.common import Failure, Spec

SHAPES = ["outer", "inner", "prefired", "paused-inner"]


# ---------------------------------------------------------------------------------------------------
# measuring frame depth: frames of defer.py code and of the harness callbacks, nothing else


class Depth:
    def __init__(self):
        from twisted.internet import defer

        self.files = {defer.__file__}
        self.cb_file = K.__file__
        self.cur = 0
        self.max = 0

    def _tracked(self, code):
        if code.co_name == "__del__":
            return False
        if code.co_filename in self.files:
            return True
        return code.co_filename == self.cb_file and code.co_name in ("f", "canceller")

    def __call__(self, frame, event, arg):
        if event == "call":
            if self._tracked(frame.f_code):
                self.cur += 1
                if self.cur > self.max:
                    self.max = self.cur
        elif event == "return":
            if self._tracked(frame.f_code) and self.cur > 0:
                self.cur -= 1

    def measure(self, fn):
        self.cur = self.max = 0
        sys.setprofile(self)
        try:
            return fn()
        finally:
            sys.setprofile(None)


CLS = ["plain", "sub", "mixed"]


def cls_pattern(kind, nd):
    return None if kind == "plain" else [1] * nd if kind == "sub" else [i % 2 for i in range(nd)]


def chain_ops(shape, fail, n, cls="plain", selfadd=False):
    """Deferreds 0..n; Deferred i's callback (errback when failing) returns Deferred i+1;
    cls: all plain Deferreds / all instances of a trivial subclass / alternating"""
    link = (lambda i: ["add", i, None, ["ret", ["D", i + 1]]]) if fail else (lambda i: ["add", i, ["ret", ["D", i + 1]], None])
    fire = (lambda i: ["eb", i, 1]) if fail else (lambda i: ["cb", i, 1])
    ops = [link(i) for i in range(n)]
    if selfadd:
        # every link also carries a later callback that, while it runs, adds a pass-through callback to ITS OWN
        # Deferred (re-entrant add: must only be appended; guard _runningCallbacks on the Deferred whose callback runs)
        for i in range(n):
            sc = ["script", [["add", i, ["pass"], ["pass"]]], ["pass"]]
            ops.append(["add", i, sc, sc])
    if shape == "outer":
        ops += [fire(i) for i in range(n)] + [fire(n)]
    elif shape == "inner":
        ops += [fire(i) for i in reversed(range(n))] + [fire(n)]
    elif shape == "prefired":
        ops += [fire(n)] + [fire(i) for i in reversed(range(n))]
    else:
        ops += [fire(i) for i in range(n)] + [["pause", n], fire(n), ["unpause", n]]
    return {"canc": [["none"]] * (n + 1), "ops": ops, "cls": cls_pattern(cls, n + 1)}


def run_measured(program, light=False):
    """-> (list of per-operation depths, final state string)"""
    K.quiet_logging()
    meter = Depth()
    r = K.Runner(program["canc"], program.get("cls"))
    depths = []
    run = r.op_light if light else r.op
    for o in program["ops"]:
        if o[1] >= len(r.ds):
            depths.append(0)
            continue
        meter.measure(lambda: run(o))
        depths.append(meter.max)
    return depths, r.final(), r


def impl(case) -> str:
    if case.get("debug"):
        from twisted.internet import defer

        old = defer.getDebugging()
        defer.setDebugging(True)          # trial --debug: must not change the stack use
        try:
            return impl({k: v for k, v in case.items() if k != "debug"})
        finally:
            defer.setDebugging(old)
    with warnings.catch_warnings():
        warnings.simplefilter("ignore")
        if case.get("n", 0) >= 1000:
            gc.collect()           # (a full collection per small case would dominate the run time)
        gc.disable()
        try:
            return _impl(case)
        except RecursionError:
            return "RecursionError"
        finally:
            gc.enable()


def _impl(case) -> str:
    kind = case["kind"]
    if kind == "program":
        depths, final, _ = run_measured(case["program"])
        return " ".join(map(str, depths)) + " | " + final
    if kind == "chain":
        n, fail = case["n"], case["fail"]
        depths, final, r = run_measured(chain_ops(case["shape"], fail, n, case.get("cls", "plain"),
                                                  bool(case.get("selfadd"))), light=True)
        states = final.split(" ")
        want0 = "T:E1:0:[]" if fail else "T:1:0:[]"
        rest_ok = all(s == "T:N:0:[]" for s in states[1:])
        # failures were handed over, nothing is left to report; drop the Deferreds without recursion
        r.ds[0].addErrback(lambda f: None)
        return f"max={max(depths)} first={'ok' if states[0] == want0 else states[0]} rest={'ok' if rest_ok else 'bad'}"
    if kind == "inline":
        return _inline(case)
    if kind == "iprog":
        return _iprog(case)
    if kind == "rchain":
        # a short chain whose links re-entrantly add callbacks to themselves: the plain observation (callback calls
        # with arguments, final states), for the value / order oracle
        return K.run_program(chain_ops(case["shape"], case["fail"], case["n"], "plain", True))
    raise ValueError(kind)


def _inline(case) -> str:
    from twisted.internet import defer

    K.quiet_logging()
    n, style, fail, lazy = case["n"], case["style"], case["fail"], case["lazy"]
    ds = []
    unfired = []
    for i in range(n):
        if (lazy == "first" and i == 0) or (lazy and lazy != "first" and i % lazy == lazy - 1):
            d = defer.Deferred()
            unfired.append((d, i))
        elif fail and i == n - 1:
            d = defer.fail(K.exc_class(1)())
        else:
            d = defer.succeed(1)
        ds.append(d)
    E1 = K.exc_class(1)
    sub = case.get("sub")
    if sub == "gen":
        def helper(d):              # a plain generator OBJECT is yielded, not a Deferred
            x = yield d
            return x
    elif sub == "coro":
        async def helper(d):        # a coroutine OBJECT is yielded
            return await d
    else:
        helper = lambda d: d
    if style == "gen":
        @defer.inlineCallbacks
        def body():
            total = 0
            for d in ds:
                try:
                    total += yield helper(d)
                except E1:
                    total += 1000
            return total
        start = body
    else:
        async def co():
            total = 0
            for d in ds:
                try:
                    total += await d
                except E1:
                    total += 1000
            return total
        start = lambda: defer.ensureDeferred(co())
    meter = Depth()
    out = []
    top = 0
    res = meter.measure(start)
    top = max(top, meter.max)
    res.addCallbacks(out.append, lambda f: out.append("failed:" + f.type.__name__))
    for d, i in unfired:
        if fail and i == n - 1:
            meter.measure(lambda: d.errback(E1()))
        else:
            meter.measure(lambda: d.callback(1))
        top = max(top, meter.max)
    return f"max={top} result={out[0] if out else 'pending'}"


def _iprog(case) -> str:
    """one generator / coroutine over explicit Deferreds, driven operation by operation, depth per operation"""
    from twisted.internet import defer

    K.quiet_logging()
    ds = []
    for a in case["awaits"]:
        if a is None:
            ds.append(defer.Deferred())
        elif a[0] == "I":
            ds.append(defer.succeed(a[1]))
        else:
            ds.append(defer.fail(K.exc_class(a[1])()))
    if case["style"] == "gen":
        @defer.inlineCallbacks
        def body():
            total = 0
            for d in ds:
                try:
                    total += yield d
                except Exception:
                    total += 1000
            return total
        start = body
    else:
        async def co():
            total = 0
            for d in ds:
                try:
                    total += await d
                except Exception:
                    total += 1000
            return total
        start = lambda: defer.ensureDeferred(co())
    meter = Depth()
    res = meter.measure(start)
    depths = [meter.max]
    for o in case["ops"]:
        if o[0] == "rec":
            meter.measure(lambda: res.addBoth(K.make_recorder()))
        else:
            d = ds[o[1]]

            def fire():
                try:
                    if o[0] == "fire":
                        d.callback(o[2])
                    else:
                        d.errback(K.exc_class(o[2])())
                except defer.AlreadyCalledError:
                    pass
            meter.measure(fire)
        depths.append(meter.max)
    index = {id(d): i for i, d in enumerate(ds + [res])}
    states = []
    for d in ds + [res]:
        r = K.show_value(d.result, index) if hasattr(d, "result") else "-"
        states.append(f"{'T' if d.called else 'F'}:{r}:{d.paused}")
    if res.called:
        res.addErrback(lambda f: None)
    return " ".join(map(str, depths)) + " | " + " ".join(states)


def coq_iprogram(case) -> str:
    def aw(a):
        if a is None:
            return "None"
        return "(Some (VInt (%d)%%Z))" % a[1] if a[0] == "I" else "(Some (VFail (%d)%%Z))" % a[1]

    def op(o):
        if o[0] == "rec":
            return "IRec"
        return ("IFire %d%%nat (%d)%%Z" if o[0] == "fire" else "IFail %d%%nat (%d)%%Z") % (o[1], o[2])

    from harness.common import coq_list
    return "(%s, %s, %s)" % ("SGen" if case["style"] == "gen" else "SCoro",
                             coq_list(map(aw, case["awaits"]), "(option value)"), coq_list(map(op, case["ops"]), "iop"))


def to_coq(case):
    if case["kind"] == "program":
        return "inl " + K.coq_program(case["program"])
    if case["kind"] == "iprog":
        return "inr " + coq_iprogram(case)
    return None


# ---------------------------------------------------------------------------------------------------
# oracle

_BASE: dict = {}


def _baseline(case) -> str:
    key = (case["kind"], case.get("shape"), case.get("cls"), case.get("style"), case["fail"], case.get("lazy"),
           case.get("sub"), bool(case.get("debug")), bool(case.get("selfadd")),
           __import__("os").environ.get("VERIF_REPO", ""))
    if key not in _BASE:
        _BASE[key] = impl({**case, "n": 10})
    return _BASE[key]


def _shape(case):
    if case["kind"] == "chain":
        return f"chain-{case['shape']}-{'failure' if case['fail'] else 'success'}" + (
            "" if case.get("cls", "plain") == "plain" else "-" + case["cls"] + "class") + (
            "-debug" if case.get("debug") else "") + ("-reentrant-self-add" if case.get("selfadd") else "")
    if case["kind"] == "rchain":
        return f"chain-{case['shape']}-{'failure' if case['fail'] else 'success'}-reentrant-self-add"
    if case["kind"] == "inline":
        return f"inline-{case['style']}-{'failure' if case['fail'] else 'success'}" + (
            "-after-first-suspension" if case["lazy"] == "first" else "-some-unfired" if case["lazy"] else "") + (
            f"-yielding-{case['sub']}-objects" if case.get("sub") else "") + ("-debug" if case.get("debug") else "")
    if case["kind"] == "iprog":
        return f"iprog-{case['style']}"
    return "program"


def oracle(case, obs):
    shape = _shape(case)
    if obs == "RecursionError":
        return Failure(case, "RecursionError at the default recursion limit", "recursion-error:" + shape)
    if case["kind"] == "program":
        depths = [int(x) for x in obs.split(" | ")[0].split(" ") if x]
        for k, (o, dep) in enumerate(zip(case["program"]["ops"], depths)):
            if dep > 4:
                return Failure(case, f"op {k} {o} reached frame depth {dep} (> 4: callback -> _startRunCallbacks -> "
                               "_runCallbacks -> user callback)", "op-depth:" + o[0])
        if case.get("shape"):
            fail, states = case["fail"], obs.split(" | ")[1].split(" ")
            if states[0] != ("T:E1:0:[]" if fail else "T:1:0:[]") or any(s != "T:N:0:[]" for s in states[1:]):
                return Failure(case, "the chain did not deliver the innermost result to the outermost Deferred: " + obs[-200:],
                               "wrong-result:chain-" + case["shape"])
        return None
    if case["kind"] == "rchain":
        # value / order: a callback added to a Deferred from inside one of its own callbacks runs after the running one
        # has returned, with its result (reference interpreter; the guard is on the Deferred whose callback runs:
        # C01 theorem reentrant_loop_refines_spec over coq/Lib/DeferredKR.v)
        want = K.reference(chain_ops(case["shape"], case["fail"], case["n"], "plain", True))
        if obs != want:
            return Failure(case, f"implementation {obs[:300]} / reference interpreter {want[:300]}",
                           "reentrant-order:" + shape)
        return None
    if case["kind"] == "iprog":
        depths = [int(x) for x in obs.split(" | ")[0].split(" ") if x]
        names = ["start"] + [o[0] for o in case["ops"]]
        for k, dep in enumerate(depths):
            if dep > 9:
                return Failure(case, f"operation {k} ({names[k]}) reached frame depth {dep} (> 9) with "
                               f"{len(case['awaits'])} awaits: the driver nests per await", "depth-grows:" + shape)
        # the result, independently: every await delivered exactly once, in order
        have = list(case["awaits"])
        for o in case["ops"]:
            if o[0] in ("fire", "fail") and have[o[1]] is None:
                have[o[1]] = ["I", o[2]] if o[0] == "fire" else ["F", o[2]]
        want = "F:-:0"
        if all(a is not None for a in have):
            want = "T:%d:0" % sum(a[1] if a[0] == "I" else 1000 for a in have)
        got = obs.split(" | ")[1].split(" ")[-1]
        if got != want:
            return Failure(case, f"result Deferred {got}, expected {want}", "wrong-result:" + shape)
        return None
    fields = dict(f.split("=") for f in obs.split(" "))
    n = case["n"]
    if case["kind"] == "chain":
        if fields["first"] != "ok" or fields["rest"] != "ok":
            return Failure(case, "the chain did not deliver the innermost result to the outermost Deferred: " + obs,
                           "wrong-result:" + shape)
    else:
        want = n if not case["fail"] else n - 1 + 1000
        if fields["result"] != str(want):
            return Failure(case, f"result {fields['result']}, expected {want}", "wrong-result:" + shape)
    base = dict(f.split("=") for f in _baseline(case).split(" ")) if _baseline(case) != "RecursionError" else {"max": "?"}
    if fields["max"] != base["max"]:
        return Failure(case, f"frame depth {fields['max']} with {n} elements but {base['max']} with 10: stack use grows "
                       "with the length", "depth-grows:" + shape)
    # (a callback that itself calls addBoth on its Deferred adds addBoth -> _runCallbacks, which returns at once: 6)
    limit = 6 if case.get("selfadd") else 4
    if case["kind"] == "chain" and int(fields["max"]) > limit:
        return Failure(case, f"frame depth {fields['max']} > {limit}", "op-depth:" + shape)
    return None


# ---------------------------------------------------------------------------------------------------
# cases

W = {"add": 6, "cb": 3, "eb": 2}


def rand_iprog(rng):
    n = rng.randrange(0, 10)
    aw = [None if rng.random() < 0.35 else (["F", rng.randrange(3)] if rng.random() < 0.15 else ["I", rng.randrange(1, 5)])
          for _ in range(n)]
    ops = []
    unfired = [i for i, a in enumerate(aw) if a is None]
    rng.shuffle(unfired)
    for i in unfired:
        if rng.random() < 0.85:
            ops.append(["fire", i, rng.randrange(1, 5)] if rng.random() < 0.8 else ["fail", i, rng.randrange(3)])
    if rng.random() < 0.7:
        ops.insert(rng.randrange(len(ops) + 1), ["rec"])
    if n and rng.random() < 0.2:
        ops.insert(rng.randrange(len(ops) + 1), ["fire", rng.randrange(n), 7])      # a second firing / an early one
    return {"kind": "iprog", "style": rng.choice(["gen", "coro"]), "awaits": aw, "ops": ops}


def gen(rng, tier):
    cases = []
    small = [0, 1, 2, 3, 5, 8, 13, 21, 34] if tier == "quick" else list(range(0, 41)) + [60, 90]
    for shape in SHAPES:
        for fail in (False, True):
            for n in small:
                cases.append({"kind": "program", "shape": shape, "fail": fail, "n": n,
                              "program": chain_ops(shape, fail, n)})
                if n % 2 or tier != "quick":
                    for cls in ("sub", "mixed"):
                        cases.append({"kind": "program", "shape": shape, "fail": fail, "n": n, "cls": cls,
                                      "program": chain_ops(shape, fail, n, cls)})
            big = [100, 1000, 10000]
            if tier != "quick":
                big.append(100000)
            for n in big:
                cases.append({"kind": "chain", "shape": shape, "fail": fail, "n": n})
            for cls in ("sub", "mixed"):                    # chains of Deferred-subclass instances, >= 3000 links
                for n in ([3000] if tier == "quick" else [3000, 30000]):
                    cases.append({"kind": "chain", "shape": shape, "fail": fail, "n": n, "cls": cls})
    # chains whose links re-entrantly add a callback to their own Deferred from inside a callback
    for shape in ("outer", "inner", "paused-inner"):
        for fail in (False, True):
            for n in ([1, 2, 3, 5, 8] if tier == "quick" else list(range(0, 16)) + [30, 60]):
                cases.append({"kind": "rchain", "shape": shape, "fail": fail, "n": n})
            for n in ([100, 1000, 3000] if tier == "quick" else [100, 1000, 10000, 100000]):
                cases.append({"kind": "chain", "shape": shape, "fail": fail, "n": n, "selfadd": True})
    # under Deferred debugging (defer.setDebugging(True)) the stack use must not grow either
    for shape in SHAPES:
        for fail in (False, True):
            for n in ([3000] if tier == "quick" else [3000, 10000]):
                cases.append({"kind": "chain", "shape": shape, "fail": fail, "n": n, "debug": True})
    for lazy in (0, "first"):
        for n in ([2000] if tier == "quick" else [2000, 20000]):
            cases.append({"kind": "inline", "style": "gen", "fail": False, "lazy": lazy, "n": n, "debug": True})
    # a generator that yields generator / coroutine OBJECTS which complete synchronously
    for sub in ("gen", "coro"):
        for fail in (False, True):
            for lazy in (0, "first", 7):
                for n in ([30, 2000] if tier == "quick" else [30, 2000, 20000]):
                    cases.append({"kind": "inline", "style": "gen", "fail": fail, "lazy": lazy, "n": n, "sub": sub})
    for style in ("gen", "coro"):
        for fail in (False, True):
            for lazy in (0, 7, "first"):
                for n in ([30, 1000, 20000] if tier == "quick" else [30, 1000, 10000, 100000]):
                    cases.append({"kind": "inline", "style": style, "fail": fail, "lazy": lazy, "n": n})
    # inline programs, operation by operation against the driver model (coq/C02/InlineModel.v)
    for style in ("gen", "coro"):
        for n in ([0, 1, 2, 5, 13, 40] if tier == "quick" else list(range(0, 30)) + [60, 120]):
            cases.append({"kind": "iprog", "style": style, "awaits": [["I", 1]] * n, "ops": []})
            cases.append({"kind": "iprog", "style": style, "awaits": [None] + [["I", 1]] * n, "ops": [["rec"], ["fire", 0, 1]]})
            cases.append({"kind": "iprog", "style": style, "awaits": [None] + [["I", 1]] * n + [["F", 1]],
                          "ops": [["fail", 0, 2], ["rec"]]})
    for _ in range(500 if tier == "quick" else 8000):
        cases.append(rand_iprog(rng))
    # random cancel-free programs without user pauses (independent of finding F1), per-operation depths
    for _ in range(400 if tier == "quick" else 6000):
        p = K.rand_program(rng, rng.randrange(1, 7), rng.randrange(2, 21), weights=W, cancellers=False)
        if rng.random() < 0.4:
            p["cls"] = K.rand_cls(rng, len(p["canc"]))
        cases.append({"kind": "program", "program": p})
    # programs with pauses placed only on Deferreds that never wait on another one
    for _ in range(200 if tier == "quick" else 3000):
        nd = rng.randrange(2, 6)
        p = K.rand_program(rng, nd, rng.randrange(4, 18), weights=W, cancellers=False)
        leaf = nd - 1
        ops = []
        for o in p["ops"]:
            if o[0] == "add" and o[1] == leaf:
                o = ["add", leaf, ["ret", ["I", 3]], ["pass"]]        # the leaf never returns a Deferred
            ops.append(o)
            r = rng.random()
            if r < 0.15:
                ops.append(["pause", leaf])
            elif r < 0.3:
                ops.append(["unpause", leaf])
        cases.append({"kind": "program", "program": {"canc": p["canc"], "ops": ops}})
    return cases


def corpus():
    return [
        {"kind": "program", "shape": "outer", "fail": False, "n": 4, "program": chain_ops("outer", False, 4)},
        {"kind": "chain", "shape": "outer", "fail": True, "n": 2000},
        {"kind": "chain", "shape": "outer", "fail": False, "n": 3000, "cls": "sub"},        # seeded C02-D scenario
        {"kind": "chain", "shape": "outer", "fail": False, "n": 2000, "selfadd": True},     # seeded C02-H scenario
        {"kind": "rchain", "shape": "outer", "fail": False, "n": 4},
        {"kind": "chain", "shape": "inner", "fail": True, "n": 3000, "cls": "mixed"},
        {"kind": "chain", "shape": "paused-inner", "fail": False, "n": 2000},
        {"kind": "inline", "style": "gen", "fail": False, "lazy": 0, "n": 2000},
        {"kind": "inline", "style": "coro", "fail": True, "lazy": 0, "n": 2000},
        {"kind": "inline", "style": "gen", "fail": False, "lazy": "first", "n": 2000},      # seeded C02-A scenario
        {"kind": "iprog", "style": "gen", "awaits": [None] + [["I", 1]] * 30, "ops": [["rec"], ["fire", 0, 1]]},
        {"kind": "iprog", "style": "coro", "awaits": [None, ["I", 2], None, ["F", 1], ["I", 3]],
         "ops": [["fire", 2, 4], ["rec"], ["fire", 0, 1], ["fire", 0, 1]]},
    ]


def shrink(case):
    if case["kind"] == "program":
        ops = case["program"]["ops"]
        if not case.get("shape"):
            for i in range(len(ops)):
                yield {"kind": "program", "program": {**case["program"], "ops": ops[:i] + ops[i + 1:]}}
    elif case["kind"] == "iprog":
        aw, ops = case["awaits"], case["ops"]
        for i in range(len(ops)):
            yield {**case, "ops": ops[:i] + ops[i + 1:]}
        if aw and not any(o[0] != "rec" and o[1] == len(aw) - 1 for o in ops):
            yield {**case, "awaits": aw[:-1]}
    elif case["kind"] == "rchain":
        if case["n"] > 1:
            yield {**case, "n": case["n"] - 1}
    else:
        n = case["n"]
        for m in (n // 2, n - n // 4):
            if 10 < m < n:
                yield {**case, "n": m}


def histogram(case, obs):
    if case["kind"] == "program":
        return f"program {'chain-' + case['shape'] if case.get('shape') else 'random'}"
    if case["kind"] == "iprog":
        return f"inline program {case['style']} awaits={5 * (len(case['awaits']) // 5)}+"
    if case["kind"] == "rchain":
        return "short chain with re-entrant self-adds (value/order oracle)"
    return f"{_shape(case)} n={case['n']}"


def describe(case):
    if case["kind"] == "program":
        return {"kind": "program", "shape": case.get("shape"), "n": case.get("n"), "ops": case["program"]["ops"][:10]}
    return case


SPEC = Spec(
    pid="C02",
    gen=gen, impl=impl, oracle=oracle, corpus=corpus, shrink=shrink,
    coq_header="From TwLib Require Import DeferredK DeferredKShow.\nFrom C02 Require Import Model InlineModel Run.",
    coq_fn="show_case",
    to_coq=to_coq,
    nontrivial=lambda c, o: c["kind"] not in ("program", "iprog") or " 4" in o or o.startswith("4") or
    (c["kind"] == "iprog" and len(c["awaits"]) > 0),
    histogram=histogram, describe=describe,
    case_timeout=120.0,
    rule="4 chain shapes (outer fired first, inner fired first, innermost pre-fired, innermost paused by the user) x "
         "{success, failure} x {plain Deferreds, instances of a trivial Deferred subclass, alternating}: as kernel programs for 9 lengths <= 34 (quick) / 43 lengths <= 90 (thorough) with the "
         "frame depth of every operation compared with the model, and with 100 ... 10 000 (thorough 100 000) Deferreds "
         "against the 10-element baseline; chains of 100 ... 3 000 (100 000) links whose links re-entrantly add a callback to their own Deferred (depth oracle) and short ones against the reference interpreter (value / order oracle); chains of 3 000 (10 000) links also under defer.setDebugging(True); generators yielding generator / coroutine objects that complete synchronously; inlineCallbacks generators and coroutines awaiting 30 ... 20 000 (100 000) "
         "Deferreds, all pre-fired, every 7th fired later, or only the first one unfired (re-entry after a real suspension), last "
         "one failing or not; inline programs (generator / coroutine, 0-9 awaits pre-fired with values or failures or "
         "unfired, recorder, firings in any order incl. repeated ones; families 'all pre-fired' and 'first unfired then n "
         "pre-fired' up to n = 40 (120)) with the frame depth of the start and of every operation and the final state of "
         "every Deferred compared with the driver model: 500 (8 000) random; 400 (6 000) random cancel-free "
         "programs and 200 (3 000) with pauses on a non-waiting Deferred, depth per operation compared with the model. "
         "non-trivial = depth 4 reached or a long chain/loop; distinct by (case, observation)",
    trusted=["hand-written kernel model coq/Lib/DeferredK.v and the ghost depth of coq/C02/Model.v (tied by measured "
             "frame depths on the modelled cases only)",
             "sys.setprofile frame accounting in harness/c02.py: frames of defer.py code and of the harness callbacks",
             "hand-written model of _inlineCallbacks / _gotResultInlineCallbacks / Deferred.__await__ "
             "(coq/C02/InlineModel.v): one generator or coroutine with the fixed body 'sum the awaited results, 1000 per "
             "failure' over distinct callback-free Deferreds; tied by measured per-operation depths and final states",
             "CPython's C-stack use per Python frame is outside the model"],
    assumptions=["recursion limit at its default; cancel() forwarding (a genuine recursion) is outside C02"],
)


def main(tier, seed, replay):
    return K.run_spec_sharded(SPEC, tier, seed, replay)
