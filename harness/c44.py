"""C44 — Banana: H-tie (hand-written model coq/C44, correspondence on generated expressions, splits
and malformed streams)."""
from __future__ import annotations

import itertools
import json
import os
import struct

from harness.common import VERIF, Failure, Spec, coq_bool, coq_bytes, coq_list

SIZE_LIMIT = 640 * 1024
LONG = 2 ** 448 - 1
VOCAB_WORDS = ["None", "class", "dereference", "reference", "dictionary", "function", "instance", "list", "module",
               "persistent", "tuple", "unpersistable", "copy", "cache", "cached", "remote", "local", "lcache",
               "version", "login", "password", "challenge", "logged_in", "not_logged_in", "cachemessage", "message",
               "answer", "error", "decref", "decache", "uncache"]


# ---- expressions: JSON form {"i": int} | {"s": hex} | {"f": hex16} | {"l": [...], "t": bool(tuple)} ----

class Unsendable:
    """an object Banana cannot send (BananaError: 'Banana cannot send ... objects')"""


def to_py(e):
    if "x" in e:
        return Unsendable() if e["x"] else None
    if "i" in e:
        return e["i"]
    if "s" in e:
        return bytes.fromhex(e["s"])
    if "f" in e:
        return struct.unpack("!d", bytes.fromhex(e["f"]))[0]
    xs = [to_py(x) for x in e["l"]]
    return tuple(xs) if e.get("t") else xs


def show_py(o) -> str:
    if isinstance(o, bool):
        return "b" + str(o)
    if isinstance(o, int):
        return "i" + str(o)
    if isinstance(o, bytes):
        return "s" + o.hex()
    if isinstance(o, float):
        return "f" + struct.pack("!d", o).hex()
    if isinstance(o, (list, tuple)):
        return "[" + ",".join(show_py(x) for x in o) + "]"
    return "?" + type(o).__name__


def show_case_expr(e) -> str:
    if "x" in e:
        return "?"
    if "i" in e:
        return "i" + str(e["i"])
    if "s" in e:
        return "s" + e["s"]
    if "f" in e:
        return "f" + e["f"]
    return "[" + ",".join(show_case_expr(x) for x in e["l"]) + "]"


def chunks(cuts, data: bytes):
    out = []
    for k in cuts:
        if not data:
            return out
        if k == 0:
            out.append(data)
            return out
        out.append(data[:k])
        data = data[k:]
    if data:
        out.append(data)
    return out


def _proto(pb, lim=64):
    from twisted.internet.testing import StringTransport
    from twisted.spread import banana
    got = []

    class B(banana.Banana):
        def expressionReceived(self, obj):
            got.append(obj)

    b = B(isClient=True)
    t = StringTransport()
    b.makeConnection(t)
    b._selectDialect(b"pb" if pb else b"none")
    if lim != 64:
        b.setPrefixLimit(lim)           # the per-connection prefix limit (64 unless changed)
    t.clear()
    return b, t, got


def _feed(pb, pieces, lim=64) -> str:
    b, t, got = _proto(pb, lim)
    err = "ok"
    for c in pieces:
        try:
            b.dataReceived(c)
        except Exception as e:       # every class is an observation here; the oracle judges it
            err = type(e).__name__
            break
    return " ".join(show_py(x) for x in got) + "|" + err


def impl(case) -> str:
    from twisted.spread import banana
    k = case["kind"]
    lim = case.get("lim", 64)
    if k == "rt":
        b, t, _ = _proto(case["pb"], lim)
        try:
            b.sendEncoded(to_py(case["e"]))
        except banana.BananaError:
            return "E:BananaError" + ("" if t.value() == b"" else "+partial-write")
        data = t.value()
        return data.hex() + "|" + _feed(case["pb"], chunks(case["cuts"], data), lim)
    if k == "raw":
        return _feed(case["pb"], chunks(case["cuts"], bytes.fromhex(case["data"])), lim)
    if k == "hist":
        # several sendEncoded calls on ONE connection; the transport is observed after every call
        b, t, _ = _proto(case["pb"], lim)
        flags = ""
        for e in case["es"]:
            before = len(t.value())
            try:
                b.sendEncoded(to_py(e))
                flags += "A"
            except banana.BananaError:
                flags += "R" if len(t.value()) == before else "W"       # W: a refused call wrote something
        data = t.value()
        return flags + "|" + data.hex() + "|" + _feed(case["pb"], chunks(case["cuts"], data), lim)
    if k == "b128":
        out = []
        banana.int2b128(case["n"], out.append)
        d = b"".join(out)
        return d.hex() + "|" + str(banana.b1282int(d))
    if k == "from":
        return str(banana.b1282int(bytes.fromhex(case["digits"])))
    raise ValueError(k)


# ---- reference encoder written from the Banana specification (docs/core/specifications/banana.rst) ----

def ref_b128(n):
    if n == 0:
        return b"\0"
    out = bytearray()
    while n:
        out.append(n % 128)
        n //= 128
    return bytes(out)


def ref_encode(o, pb, lim=64):
    """lim = the prefix limit both peers use: an integer is sendable iff it needs at most lim base-128 digits"""
    if o is None or isinstance(o, Unsendable):
        raise OverflowError
    if isinstance(o, (list, tuple)):
        if len(o) > SIZE_LIMIT:
            raise OverflowError
        return ref_b128(len(o)) + b"\x80" + b"".join(ref_encode(x, pb, lim) for x in o)
    if isinstance(o, int):
        if len(ref_b128(abs(o))) > lim:
            raise OverflowError
        if o >= 0:
            return ref_b128(o) + (b"\x81" if o < 2 ** 31 else b"\x85")
        return ref_b128(-o) + (b"\x83" if o >= -2 ** 31 else b"\x86")
    if isinstance(o, float):
        return b"\x84" + struct.pack("!d", o)
    if pb and o.decode("latin-1") in VOCAB_WORDS:
        return ref_b128(VOCAB_WORDS.index(o.decode("latin-1")) + 1) + b"\x87"
    if len(o) > SIZE_LIMIT:
        raise OverflowError
    return ref_b128(len(o)) + b"\x82" + o


def oracle(case, obs):
    k = case["kind"]
    lim = case.get("lim", 64)
    if k == "rt":
        try:
            want = ref_encode(to_py(case["e"]), case["pb"], lim)
        except OverflowError:
            if obs != "E:BananaError":
                return Failure(case, f"value outside the limits was not refused cleanly: {obs[:80]}", "encode-not-refused")
            return None
        if obs.startswith("E:"):
            return Failure(case, "a value within the limits was refused", "encode-refused")
        enc, outs, err = obs.split("|")
        if enc != want.hex():
            return Failure(case, f"encoding differs from the specification: {enc[:80]} vs {want.hex()[:80]}", "encode-bytes")
        if err != "ok":
            return Failure(case, f"decoding its own encoding raised {err} (cuts {case['cuts'][:10]})", "rt-exception")
        if outs != show_case_expr(case["e"]):
            return Failure(case, f"decoded {outs[:100]} != sent {show_case_expr(case['e'])[:100]} (cuts {case['cuts'][:10]})",
                           "rt-differs" if not case["cuts"] else "rt-differs-split")
        return None
    if k == "hist":
        want_flags, want_bytes, want_outs = "", b"", []
        for e in case["es"]:
            try:
                want_bytes += ref_encode(to_py(e), case["pb"], lim)
                want_flags += "A"
                want_outs.append(show_case_expr(e))
            except OverflowError:
                want_flags += "R"
        flags, enc, outs, err = obs.split("|")
        if "W" in flags:
            return Failure(case, f"a refused sendEncoded wrote to the transport (calls: {flags})", "refusal-wrote")
        if flags != want_flags:
            return Failure(case, f"accept/refuse pattern {flags}, expected {want_flags}", "history-refusal")
        if enc != want_bytes.hex():
            return Failure(case, f"after the calls {flags} the transport holds something other than the encodings of "
                                 f"the accepted expressions: {enc[:80]} vs {want_bytes.hex()[:80]}", "history-bytes")
        if err != "ok" or outs != " ".join(want_outs):
            return Failure(case, f"the receiver got {outs[:100]}|{err}, sent (accepted) {' '.join(want_outs)[:100]}",
                           "history-decode")
        return None
    if k == "raw":
        raw = bytes.fromhex(case["data"])
        whole = _feed(case["pb"], [raw] if raw else [], lim)
        if obs != whole:
            return Failure(case, f"segmentation changes the result: split {obs[:100]} vs whole {whole[:100]}", "split-differs")
        # the verdict must not depend on the segmentation at all: also cut right after the first element's header
        # and (small inputs) feed byte by byte
        hl = 0
        while hl < len(raw) and raw[hl] < 0x80:
            hl += 1
        alts = [chunks([hl + 1], raw)] if hl + 1 < len(raw) else []
        if len(raw) <= 600:
            alts.append(chunks([1] * len(raw), raw))
        for alt in alts:
            other = _feed(case["pb"], alt, lim)
            if other != whole:
                return Failure(case, f"segmentation changes the result: whole {whole[:80]} vs pieces of "
                                     f"{[len(c) for c in alt][:6]} {other[:80]}", "split-differs-whole")
        err = obs.split("|")[1]
        if err not in ("ok", "BananaError", "NotImplementedError", "KeyError"):
            return Failure(case, f"unexpected exception class {err}", "raw-exception-" + err)
        # refusal half: oversized prefix / length
        d = bytes.fromhex(case["data"])
        n = 0
        while n < len(d) and d[n] < 0x80:
            n += 1
        if n > lim and not obs.endswith("|BananaError"):
            return Failure(case, "a prefix of more than 64 bytes was not refused", "long-prefix-accepted")
        if n <= lim and n < len(d) and d[n] in (0x80, 0x82):
            v = sum(c * 128 ** i for i, c in enumerate(d[:n]))
            if v > SIZE_LIMIT and not obs.endswith("|BananaError"):
                return Failure(case, "a list/string length above SIZE_LIMIT was not refused", "long-length-accepted")
            if 0 < v <= SIZE_LIMIT and len(d) == n + 1 and obs != "|ok":
                # only the header of a list/string within the limit has arrived: nothing to refuse
                return Failure(case, f"a list/string header of length {v} <= SIZE_LIMIT was refused: {obs}",
                               "length-within-limit-refused")
        return None
    if k == "b128":
        want = ref_b128(case["n"]).hex() + "|" + str(case["n"])
        if obs != want:
            return Failure(case, f"int2b128/b1282int: {obs[:80]} vs {want[:80]}", "b128")
        return None
    if k == "from":
        d = bytes.fromhex(case["digits"])
        if obs != str(sum(c * 128 ** i for i, c in enumerate(d))):
            return Failure(case, "b1282int is not the base-128 little-endian value", "b1282int")
        return None
    return Failure(case, "unknown kind", "harness")


# ---- generators ----

BOUNDARY_INTS = [0, 1, -1, 127, 128, -128, 2 ** 31 - 2, 2 ** 31 - 1, 2 ** 31, 2 ** 31 + 1, -2 ** 31 + 1, -2 ** 31,
                 -2 ** 31 - 1, 2 ** 32, 2 ** 63, -2 ** 63, 2 ** 64, 2 ** 447, LONG - 1, LONG, -LONG, -LONG + 1]
FLOATS = ["0000000000000000", "8000000000000000", "7ff0000000000000", "fff0000000000000", "7ff8000000000000",
          "fff8000000000001", "7ff8000000001234", "3ff0000000000000", "400921fb54442d18", "0000000000000001",
          "7fefffffffffffff"]


def _rbytes(rng, n):
    return bytes(rng.getrandbits(8) for _ in range(n))


def gen_expr(rng, depth):
    k = rng.random()
    if depth > 0 and k < 0.3:
        n = rng.choice([0, 0, 1, 1, 2, 3, 4, 7])
        return {"l": [gen_expr(rng, depth - 1) for _ in range(n)], "t": rng.random() < 0.3}
    if k < 0.55:
        j = rng.random()
        if j < 0.4:
            return {"i": rng.choice(BOUNDARY_INTS)}
        if j < 0.7:
            b = rng.choice([6, 7, 8, 13, 14, 15, 20, 21, 22, 27, 28, 29, 30, 31, 32, 34, 35, 36, 62, 63, 64, 447, 448])
            return {"i": max(-LONG, min(LONG, rng.choice([1, -1]) * (2 ** b + rng.choice([-1, 0, 1]))))}
        return {"i": rng.choice([1, -1]) * rng.getrandbits(rng.randrange(1, 449))}
    if k < 0.85:
        j = rng.random()
        if j < 0.3:
            return {"s": rng.choice(VOCAB_WORDS).encode().hex()}
        if j < 0.4:
            w = rng.choice(VOCAB_WORDS)
            return {"s": rng.choice([w.upper(), w + "x", w[:-1], " " + w]).encode().hex()}
        if j < 0.6:
            # string contents that look like banana syntax
            return {"s": rng.choice([b"", b"\x80", b"\x01\x82a", b"\x00\x80", b"\x7f" * 70, b"\x05\x82ab"]).hex()}
        return {"s": _rbytes(rng, rng.choice([0, 1, 2, 5, 127, 128, 129, 300])).hex()}
    return {"f": rng.choice(FLOATS) if rng.random() < 0.7 else _rbytes(rng, 8).hex()}


def _fix_nan(e):
    """random 8-byte floats: keep signalling NaNs out (the FPU may quiet them; struct is trusted)"""
    if "f" in e:
        b = bytes.fromhex(e["f"])
        v = int.from_bytes(b, "big")
        if (v >> 52) & 0x7FF == 0x7FF and v & ((1 << 52) - 1) and not v & (1 << 51):
            e["f"] = (v | (1 << 51)).to_bytes(8, "big").hex()
    for x in e.get("l", []):
        _fix_nan(x)
    return e


def _rand_cuts(rng, n):
    k = rng.random()
    if k < 0.25 or n < 2:
        return []
    if k < 0.5:
        return [1] * n                                  # byte at a time
    if k < 0.7:
        return [rng.randrange(1, n)]                    # one cut
    return [rng.choice([1, 1, 2, 3, 5, 8, 13]) for _ in range(rng.randrange(1, 12))]


def _mutate(rng, d: bytes) -> bytes:
    b = bytearray(d)
    k = rng.random()
    if k < 0.25 and b:
        del b[rng.randrange(len(b)):]
    elif k < 0.55 and b:
        i = rng.randrange(len(b))
        b[i] = rng.choice([0x00, 0x7F, 0x80, 0x81, 0x82, 0x83, 0x84, 0x85, 0x86, 0x87, 0x88, 0xFF, b[i] ^ (1 << rng.randrange(8))])
    elif k < 0.8:
        i = rng.randrange(len(b) + 1)
        b[i:i] = _rbytes(rng, rng.randrange(1, 4))
    else:
        i = rng.randrange(len(b) + 1)
        b[i:i] = bytes([rng.randrange(128)]) * rng.choice([60, 63, 64, 65, 66])
    return bytes(b)


def _bad_atom(rng, heavy=False):
    """something _encode must refuse"""
    k = rng.random()
    if heavy and k < 0.5:
        return {"s": "61" * (SIZE_LIMIT + 1)}
    if k < 0.6:
        return {"i": rng.choice([LONG + 1, -LONG - 1, 2 ** 449, -2 ** 500, 2 ** 448])}
    return {"x": rng.choice([0, 1])}                      # None / an arbitrary object: unsupported type


def _nest_bad(rng, bad, depth):
    """put `bad` at the given nesting depth, AFTER some encodable siblings at every level"""
    e = bad
    for _ in range(depth):
        before = [_fix_nan(gen_expr(rng, rng.choice([0, 0, 1]))) for _ in range(rng.choice([1, 1, 2, 3]))]
        after = [_fix_nan(gen_expr(rng, 0)) for _ in range(rng.choice([0, 0, 1]))]
        e = {"l": before + [e] + after, "t": rng.random() < 0.3}
    return e


def gen_history(rng, heavy=False):
    es = []
    for _ in range(rng.choice([2, 3, 3, 4, 5])):
        if rng.random() < 0.45:
            es.append(_nest_bad(rng, _bad_atom(rng, heavy), rng.choice([0, 1, 1, 2, 3])))
        else:
            es.append(_fix_nan(gen_expr(rng, rng.choice([0, 1, 2]))))
    if all(_refused(e) for e in es):
        es.append({"l": [{"i": 1}, {"s": "6162"}], "t": False})
    pb = rng.random() < 0.3
    ln = sum(len(ref_encode(to_py(e), pb)) for e in es if not _refused(e))
    return {"kind": "hist", "pb": pb, "es": es, "cuts": _rand_cuts(rng, min(ln, 4000))}


def _refused(e) -> bool:
    try:
        ref_encode(to_py(e), False)
        return False
    except OverflowError:
        return True


LIMITS = [1, 2, 3, 4, 5, 9, 10, 64]


def limit_family(rng, per_limit):
    """the prefix limit as a case parameter, the same on the encoder and on the decoder: integers around
    2^(7 lim) (the largest value lim base-128 digits can carry) and around +-2^31 (INT/NEG vs LONGINT/LONGNEG),
    alone, nested, in histories, and raw prefixes of lim / lim+1 digits; string and list lengths stay below 128^lim"""
    out = []
    for lim in LIMITS:
        top = 128 ** lim
        vals = [0, 1, -1, 127, -127, 128, -128, top - 2, top - 1, top, top + 1, -(top - 1), -top, -(top + 1),
                2 ** 31 - 1, 2 ** 31, -2 ** 31, -2 ** 31 - 1, 2 ** 14, 2 ** 21 - 1, 2 ** 21, 2 ** 28, -2 ** 28, 2 ** 35]
        for v in vals:
            out.append({"kind": "rt", "lim": lim, "pb": False, "e": {"i": v}, "cuts": rng.choice([[], [1] * 12, [1]])})
        for _ in range(per_limit):
            v = rng.choice(vals + [rng.choice([1, -1]) * rng.getrandbits(rng.randrange(1, 7 * lim + 3))])
            e = {"l": [{"i": rng.choice([0, 5, -3, top - 1])}, {"s": "6162"}, {"l": [{"i": v}], "t": False}], "t": False}
            out.append({"kind": "rt", "lim": lim, "pb": rng.random() < 0.3, "e": e, "cuts": rng.choice([[], [2], [1] * 40])})
            es = [{"i": rng.choice(vals)} if rng.random() < 0.6 else {"l": [{"i": 1}, {"i": rng.choice(vals)}], "t": False}
                  for _ in range(3)]
            out.append({"kind": "hist", "lim": lim, "pb": False, "es": es, "cuts": rng.choice([[], [1]])})
        for nd in (lim - 1, lim, lim + 1):
            if nd >= 1:
                out.append({"kind": "raw", "lim": lim, "pb": False, "data": "01" * nd + "81", "cuts": rng.choice([[], [1]])})
                out.append({"kind": "raw", "lim": lim, "pb": False, "data": "01" * nd, "cuts": []})
    return out


def corpus():
    cs = []
    for lim in (2, 4):        # 2^(7 lim) and -2^(7 lim) need lim + 1 digits: refused; one less is sent and read back
        for v in (128 ** lim, -(128 ** lim), 128 ** lim - 1, -(128 ** lim - 1)):
            cs.append({"kind": "rt", "lim": lim, "pb": False, "e": {"i": v}, "cuts": []})
    # a refusal part-way through a nested structure, then a valid message on the same connection (seeded C44-B)
    cs.append({"kind": "hist", "pb": False, "cuts": [],
               "es": [{"l": [{"i": 1}, {"s": "6162"}, {"l": [{"i": 7}, {"i": LONG + 1}], "t": False}], "t": False},
                      {"l": [{"i": 2}, {"s": "6364"}], "t": False}]})
    cs.append({"kind": "hist", "pb": True, "cuts": [1, 2],
               "es": [{"l": [{"s": "6c697374"}, {"x": 0}], "t": True}, {"i": 5},
                      {"l": [{"f": FLOATS[3]}, {"l": [{"x": 1}], "t": False}], "t": False}, {"s": "6f6b"}]})
    cs.append({"kind": "hist", "pb": False, "cuts": [],
               "es": [{"l": [{"i": 3}, {"s": "61" * (SIZE_LIMIT + 1)}], "t": False}, {"l": [], "t": False}]})
    for n in (64, 65):
        for tail in ("", "81", "99"):
            cs.append({"kind": "raw", "pb": False, "data": "01" * n + tail, "cuts": []})
            cs.append({"kind": "raw", "pb": False, "data": "01" * n + tail, "cuts": [63, 1, 1]})
    for v in (SIZE_LIMIT, SIZE_LIMIT + 1):
        for ty in ("80", "82"):
            cs.append({"kind": "raw", "pb": False, "data": ref_b128(v).hex() + ty, "cuts": [1, 1]})
    # an oversized string / a string at the limit with the WHOLE body present: delivered in one piece, cut only
    # inside the 3-digit length prefix, cut right after the header, and byte-wise through the header (seeded C44-D)
    for v in (SIZE_LIMIT + 1, SIZE_LIMIT):
        whole = ref_b128(v).hex() + "82" + "61" * v + "0181"
        for cuts in ([], [1], [2], [3], [4], [1, 1, 1, 1], [70000]):
            cs.append({"kind": "raw", "pb": False, "data": whole, "cuts": cuts})
    for pb in (False, True):
        cs.append({"kind": "raw", "pb": pb, "data": "0187" + "2087" + "0087", "cuts": [1]})       # VOCAB ids 1, 32, 0
    cs.append({"kind": "rt", "pb": False, "e": {"i": LONG + 1}, "cuts": []})
    cs.append({"kind": "rt", "pb": False, "e": {"i": -LONG - 1}, "cuts": []})
    cs.append({"kind": "rt", "pb": False, "e": {"s": "61" * (SIZE_LIMIT + 1)}, "cuts": []})
    cs.append({"kind": "rt", "pb": False, "e": {"s": "61" * SIZE_LIMIT}, "cuts": [1, 2, 3, 70000]})
    cs.append({"kind": "rt", "pb": False, "e": {"l": [{"i": 0}] * (SIZE_LIMIT + 1)}, "cuts": []})
    p = os.path.join(VERIF, "corpus/C44/seeds.json")
    if os.path.exists(p):
        cs += json.load(open(p))
    return cs


def gen(rng, tier):
    cases = []
    n = 350 if tier == "quick" else 3500
    for v in BOUNDARY_INTS + [2 ** (7 * k) + d for k in range(1, 10) for d in (-1, 0, 1)]:
        if v >= 0:
            cases.append({"kind": "b128", "n": v})
    for _ in range(n // 5):
        cases.append({"kind": "b128", "n": rng.getrandbits(rng.randrange(1, 500))})
        cases.append({"kind": "from", "digits": _rbytes(rng, rng.randrange(0, 8)).hex()})
    # every atom at every boundary, whole and byte-at-a-time
    for v in BOUNDARY_INTS:
        for cuts in ([], [1] * 80):
            cases.append({"kind": "rt", "pb": False, "e": {"i": v}, "cuts": cuts})
    for w in VOCAB_WORDS:
        cases.append({"kind": "rt", "pb": True, "e": {"l": [{"s": w.encode().hex()}, {"i": 1}], "t": False}, "cuts": [1, 1, 1]})
        cases.append({"kind": "rt", "pb": False, "e": {"s": w.encode().hex()}, "cuts": [2]})
    for f in FLOATS:
        cases.append({"kind": "rt", "pb": False, "e": {"l": [{"f": f}], "t": True}, "cuts": [3, 4]})
    # exhaustive two-way and three-way splits of a few small structured messages
    small = [{"l": [{"i": 1}, {"s": "6162"}, {"l": [], "t": False}, {"f": FLOATS[8]}, {"l": [{"i": -2 ** 31 - 1}], "t": True}], "t": False},
             {"l": [{"l": [{"l": [{"l": [{"l": [{"l": [{"s": ""}], "t": False}], "t": False}], "t": False}], "t": False}], "t": False}], "t": False}]
    for e in small:
        ln = len(ref_encode(to_py(e), False))
        for i in range(1, ln):
            cases.append({"kind": "rt", "pb": False, "e": e, "cuts": [i]})
        if tier == "thorough":
            for i, j in itertools.combinations(range(1, ln), 2):
                cases.append({"kind": "rt", "pb": False, "e": e, "cuts": [i, j - i]})
    for _ in range(n):
        e = _fix_nan(gen_expr(rng, rng.choice([0, 1, 2, 3, 6])))
        if rng.random() < 0.04:
            e = {"l": [e, {"i": rng.choice([LONG + 1, -LONG - 1, 2 ** 449, -2 ** 500])}], "t": False}
        pb = rng.random() < 0.4
        try:
            ln = len(ref_encode(to_py(e), pb))
        except OverflowError:
            ln = 0
        cases.append({"kind": "rt", "pb": pb, "e": e, "cuts": _rand_cuts(rng, ln)})
    cases += limit_family(rng, 2 if tier == "quick" else 40)
    for i in range(n // 3):
        cases.append(gen_history(rng, heavy=(i % 97 == 0)))
    for _ in range(n):
        es = [_fix_nan(gen_expr(rng, rng.choice([0, 1, 2]))) for _ in range(rng.choice([1, 1, 2, 3]))]
        pb = rng.random() < 0.4
        d = b"".join(ref_encode(to_py(e), pb) for e in es)
        if len(d) > 3000:
            continue
        for _ in range(rng.choice([1, 1, 2])):
            d = _mutate(rng, d)
        cases.append({"kind": "raw", "pb": pb, "data": d.hex(), "cuts": _rand_cuts(rng, len(d))})
    return cases


# ---- model terms ----

def _has_x(e) -> bool:
    return "x" in e or any(_has_x(x) for x in e.get("l", []))


def coq_sexp(e) -> str:
    if "i" in e:
        return f"(SInt ({e['i']})%Z)"
    if "s" in e:
        return f"(SStr {coq_bytes(bytes.fromhex(e['s']))})"
    if "f" in e:
        return f"(SFloat {coq_bytes(bytes.fromhex(e['f']))})"
    return "(SList " + coq_list([coq_sexp(x) for x in e["l"]], "sexp") + ")"


def _size(e):
    if "s" in e:
        return len(e["s"]) // 2 + 2
    if "l" in e:
        return 2 + sum(_size(x) for x in e["l"])
    return 10


def _cuts(c):
    return coq_list([f"{k}%N" for k in c], "N")


def to_coq(case):
    k = case["kind"]
    if k == "rt":
        if _size(case["e"]) > 1500:
            return None
        return f"CRt {case.get('lim', 64)}%N {coq_bool(case['pb'])} {coq_sexp(case['e'])} {_cuts(case['cuts'])}"
    if k == "raw":
        if len(case["data"]) > 3000:
            return None
        return f"CRaw {case.get('lim', 64)}%N {coq_bool(case['pb'])} {coq_bytes(bytes.fromhex(case['data']))} {_cuts(case['cuts'])}"
    if k == "hist":
        if any(_has_x(e) for e in case["es"]) or sum(_size(e) for e in case["es"]) > 1500:
            return None                 # unsupported Python types have no counterpart in the model: oracle only
        return f"CHist {case.get('lim', 64)}%N {coq_bool(case['pb'])} {coq_list([coq_sexp(e) for e in case['es']], 'sexp')} {_cuts(case['cuts'])}"
    if k == "b128":
        return f"CB128 {case['n']}%N"
    if k == "from":
        return f"CFrom {coq_bytes(bytes.fromhex(case['digits']))}"
    return None


def hist(case, obs):
    k = case["kind"]
    if k == "rt":
        return "rt:" + ("refused" if obs.startswith("E:") else ("split" if case["cuts"] else "whole")) + (":pb" if case["pb"] else "")
    if k == "raw":
        return "raw:" + obs.split("|")[-1]
    if k == "hist":
        f = obs.split("|")[0]
        return "hist:" + ("refusal-then-accept" if "RA" in f or "WA" in f else ("with-refusal" if "R" in f else "all-accepted"))
    return k


def describe(case):
    c = dict(case)
    if "data" in c and len(c["data"]) > 400:
        c["data"] = c["data"][:60] + "...(%d bytes)" % (len(case["data"]) // 2)
    if "e" in c and _size(c["e"]) > 200:
        c["e"] = {"large-expression-of-size": _size(case["e"])}
    if "data" in c and len(c["data"]) > 400:
        c["data"] = c["data"][:400] + "..."
    if len(c.get("cuts", [])) > 20:
        c["cuts"] = c["cuts"][:20] + ["..."]
    return c


def shrink(case):
    k = case["kind"]
    if k == "rt":
        e = case["e"]
        if case["cuts"]:
            yield {**case, "cuts": []}
            yield {**case, "cuts": case["cuts"][:-1]}
        if "l" in e:
            for i in range(len(e["l"])):
                yield {**case, "e": {**e, "l": e["l"][:i] + e["l"][i + 1:]}}
                yield {**case, "e": e["l"][i]}
        if "s" in e and len(e["s"]) > 2:
            yield {**case, "e": {"s": e["s"][: (len(e["s"]) // 4) * 2]}}
    elif k == "hist":
        es = case["es"]
        if case["cuts"]:
            yield {**case, "cuts": []}
        for i in range(len(es)):
            yield {**case, "es": es[:i] + es[i + 1:]}
        for i, e in enumerate(es):
            if "l" in e:
                for j in range(len(e["l"])):
                    yield {**case, "es": es[:i] + [{**e, "l": e["l"][:j] + e["l"][j + 1:]}] + es[i + 1:]}
    elif k == "raw":
        d = case["data"]
        if case["cuts"]:
            yield {**case, "cuts": case["cuts"][:-1]}
        if len(d) > 2:
            yield {**case, "data": d[:-2]}
            yield {**case, "data": d[2:]}


SPEC = Spec(
    pid="C44",
    gen=gen,
    impl=impl,
    oracle=oracle,
    coq_header="From TwLib Require Import PyInt.\nFrom C44 Require Import Model Run.",
    coq_fn="run_show",
    to_coq=to_coq,
    corpus=corpus,
    shrink=shrink,
    histogram=hist,
    describe=describe,
    nontrivial=lambda c, o: c["kind"] in ("rt", "raw", "hist") and o not in ("|ok",),
    case_timeout=20.0,
    rule="b128/from: boundary and random integers up to 2^500, random digit strings; rt: every boundary integer "
         "(0, +-1, +-2^31 +-1, 2^63, 2^64, +-(2^448-1), +-2^448 refused) whole and byte-at-a-time, every vocabulary "
         "word in both dialects, NaN/inf/-0.0/denormal floats, every 2-way (thorough: 3-way) split of two structured "
         "messages incl. depth 6, random expressions depth 0-6 (tuples and lists, near-vocabulary words, strings that "
         "look like banana syntax, 127/128/129-byte strings) under random segmentations (whole, byte-wise, one cut, "
         "Fibonacci-sized chunks), strings/lists at SIZE_LIMIT and SIZE_LIMIT+1 (oracle only); limit family: the prefix limit (1,2,3,4,5,9,10,64, set "
         "with setPrefixLimit on BOTH peers) with integers around 2^(7 lim) and +-2^31, nested and in histories, and raw "
         "prefixes of lim-1 / lim / lim+1 digits - an integer must be refused iff it needs more than lim base-128 "
         "digits, otherwise the same-limit peer must read it back; hist: 2-5 sendEncoded calls on ONE "
         "connection, 45% of them must be refused with the offending element (int beyond +-(2^448-1), unsupported "
         "type, rarely a SIZE_LIMIT+1 string) nested 0-3 levels deep AFTER encodable siblings, checking after every "
         "call that a refusal wrote nothing and that the receiver gets exactly the accepted expressions; raw: valid "
         "streams mutated (truncate, replace a byte by a type byte / 0x7f / bit flip, insert, insert 60-66 digit bytes), "
         "prefixes of 64/65 digits with and without a type byte. non-trivial = rt/raw with at least one delivered "
         "expression or an exception",
    trusted=[
        "hand-written model coq/C44/Model.v (tied only as far as the generated cases reach)",
        "coq/Lib/PyInt.v little-endian base-128 digits = int2b128 / b1282int (validated by the b128/from cases)",
        "struct.pack('!d') / struct.unpack('!d') are inverse on the 8-byte patterns used (floats are opaque bytes "
        "in the model; signalling NaNs are excluded from the generator)",
        "the dialect is selected before data flows; the dialect negotiation itself is not modelled",
    ],
    assumptions=["deliveries are non-empty (an empty delivery while a partial element is buffered trips an assert in "
                 "dataReceived; transports never deliver empty data)",
                 "bool values are not sent (bool is an int subclass and is encoded as 0/1)"],
)
