"""C07 — DeferredQueue: H-tie (hand-written model coq/C07, correspondence on generated histories).

A case is {"size", "backlog", "ops": [...], "react": {"<get id>": [...ops...]}}.  ops are ["put", k] | ["get"] |
["cancel", i]; the object put by ["put", k] is Val(k): objects with k1 % 2 == k2 % 2 compare EQUAL (and hash alike)
but are distinct objects, and every observation names the object by its k, so equality-based bookkeeping in the
implementation cannot hide behind indistinguishable values.  "react" gives, per get number, the queue operations the
application's callback on that get performs when its Deferred fires or fails (re-entrant use of the queue)."""
from __future__ import annotations

import itertools

from harness.common import Failure, Spec, coq_list, coq_option


class Val:
    __slots__ = ("k",)

    def __init__(self, k):
        self.k = k

    def __eq__(self, other):
        return isinstance(other, Val) and other.k % 2 == self.k % 2

    def __hash__(self):
        return hash(self.k % 2)

    def __repr__(self):
        return str(self.k)


def impl(case) -> str:
    from twisted.internet import defer

    q = defer.DeferredQueue(size=case["size"], backlog=case["backlog"])
    react = {int(k): v for k, v in case.get("react", {}).items()}
    gets = []           # Deferreds handed out by get(), in call order
    events = []
    state = {"attaching": False, "fired": 0}

    def run_reaction(i):
        for op in react.get(i, []):
            try:
                do(op)
            except BaseException as e:   # an exception inside a callback would vanish into the Deferred
                events.append("X" + type(e).__name__)

    def on_ok(i):
        def cb(v):
            state["fired"] += 1
            events.append(("I" if state["attaching"] else "D") + f"{i}:{v!r}")
            state["attaching"] = False
            run_reaction(i)
        return cb

    def on_err(i):
        def eb(f):
            state["fired"] += 1
            name = f.type.__name__
            events.append(f"C{i}" if name == "CancelledError" else f"E{i}:{name}")
            run_reaction(i)
        return eb

    def do(op):
        n0 = state["fired"]
        if op[0] == "put":
            try:
                q.put(Val(op[1]))
            except defer.QueueOverflow:
                events.append("O")
                return
            if state["fired"] == n0:
                events.append("Q")
        elif op[0] == "get":
            try:
                d = q.get()
            except defer.QueueUnderflow:
                events.append("U")
                return
            i = len(gets)
            gets.append(d)
            state["attaching"] = True
            d.addCallbacks(on_ok(i), on_err(i))
            if state["attaching"]:          # nothing fired while attaching: an unfired Deferred
                state["attaching"] = False
                events.append(f"W{i}")
        else:
            i = op[1]
            if i >= len(gets):
                events.append(f"N{i}")
                return
            gets[i].cancel()
            if state["fired"] == n0:
                events.append(f"N{i}")

    for op in case["ops"]:
        do(op)
    # final state through the public attributes the class documents (waiting / pending)
    w = [gets.index(d) if d in gets else -1 for d in q.waiting]
    return " ".join(events) + " |w=[" + ",".join(map(str, w)) + "] p=[" + ",".join(repr(v) for v in q.pending) + "]"


def reference(case):
    """The property as a reference FIFO (independent of the Coq model): expected events, depth-first reactions."""
    size, backlog = case["size"], case["backlog"]
    react = {int(k): v for k, v in case.get("react", {}).items()}
    queued, waiting, events = [], [], []
    nget = [0]

    def do(op, depth=0):
        if depth > 200:
            raise RecursionError
        if op[0] == "put":
            x = op[1]
            if waiting:
                i = waiting.pop(0)
                events.append((f"D{i}:{x}", "put-with-waiter"))
                for o in react.get(i, []):
                    do(o, depth + 1)
            elif size is not None and len(queued) >= size:
                events.append(("O", "overflow"))
            else:
                queued.append(x)
                events.append(("Q", "put-queue"))
        elif op[0] == "get":
            if queued:
                x = queued.pop(0)
                i = nget[0]
                nget[0] += 1
                events.append((f"I{i}:{x}", "get-order"))
                for o in react.get(i, []):
                    do(o, depth + 1)
            elif backlog is not None and len(waiting) >= backlog:
                events.append(("U", "underflow"))
            else:
                waiting.append(nget[0])
                events.append((f"W{nget[0]}", "get-wait"))
                nget[0] += 1
        else:
            i = op[1]
            if i in waiting:
                waiting.remove(i)
                events.append((f"C{i}", "cancel"))
                for o in react.get(i, []):
                    do(o, depth + 1)
            else:
                events.append((f"N{i}", "cancel-noop"))

    for op in case["ops"]:
        do(op)
    return events, waiting, queued


def oracle(case, obs):
    """Every object put is delivered exactly once, in put order, to the oldest pending uncancelled get or else to a
    later get; QueueOverflow / QueueUnderflow exactly under the stated conditions — compared event by event."""
    head, _, tail = obs.partition(" |")
    evs = head.split(" ") if head else []
    exp, waiting, queued = reference(case)
    for k, (want, kind) in enumerate(exp):
        got = evs[k] if k < len(evs) else "<nothing>"
        if got != want:
            tag = kind
            if got.startswith("X"):
                tag = "exception-in-callback:" + got[1:]
            elif kind == "overflow":
                tag = "overflow-missing"
            elif kind == "underflow":
                tag = "underflow-missing"
            elif got == "O":
                tag = "overflow-spurious"
            elif got == "U":
                tag = "underflow-spurious"
            if case.get("react"):
                tag += "/reentrant"
            return Failure(case, f"event {k}: expected {want}, observed {got} (events: {head})", tag)
    if len(evs) != len(exp):
        return Failure(case, f"{len(evs)} events observed, {len(exp)} expected (events: {head})", "extra-events")
    want_tail = "w=[" + ",".join(map(str, waiting)) + "] p=[" + ",".join(map(str, queued)) + "]"
    if tail != want_tail:
        return Failure(case, f"final state {tail}, expected {want_tail}", "final-state")
    return None


def gen(rng, tier):
    cases = []
    lims = [None, 0, 1, 2]
    depth = 5 if tier == "quick" else 7
    # bounded-exhaustive: every history up to `depth` over a small alphabet (puts carry their index as value)
    alpha = ["p", "g", "c0", "c1"]
    for size in lims:
        for backlog in lims:
            for n in range(1, depth + 1):
                for word in itertools.product(alpha, repeat=n):
                    if tier == "quick" and n == depth and rng.random() > 0.25:
                        continue
                    ops = []
                    for k, a in enumerate(word):
                        ops.append(["put", k] if a == "p" else ["get"] if a == "g" else ["cancel", int(a[1])])
                    cases.append({"size": size, "backlog": backlog, "ops": ops})
    # random long histories
    for _ in range(400 if tier == "quick" else 20000):
        size, backlog = rng.choice(lims + [3, 5]), rng.choice(lims + [3, 5])
        ops, ngets = [], 0
        bias = rng.choice([0.3, 0.5, 0.7])
        for k in range(rng.randrange(8, 60)):
            r = rng.random()
            if r < bias * 0.9:
                ops.append(["put", k])
            elif r < 0.9:
                ops.append(["get"])
                ngets += 1
            else:
                ops.append(["cancel", rng.randrange(ngets + 2)])
        cases.append({"size": size, "backlog": backlog, "ops": ops})
    # re-entrant histories: callbacks of gets issue further operations (get / put / cancel) from inside put / cancel
    kid = [1000]

    def rop(ngets):
        r = rng.random()
        kid[0] += 1
        if r < 0.4:
            return ["get"]
        if r < 0.8:
            return ["put", kid[0]]
        return ["cancel", rng.randrange(ngets + 3)]

    # exhaustive small: one reacting get, every reaction of length <= 2 over {get, put}, limits at their boundaries
    for size in lims:
        for backlog in lims:
            for rx in [[["get"]], [["put", 901]], [["get"], ["put", 902]], [["put", 903], ["get"]], [["get"], ["get"]],
                       [["put", 904], ["put", 905]], [["cancel", 1]]]:
                for pre in ([["get"]], [["get"], ["get"]], [["put", 1], ["get"]], [["put", 1], ["put", 3], ["get"]]):
                    for post in ([["put", 5]], [["put", 5], ["put", 7]], [["cancel", 0], ["put", 5]],
                                 [["put", 5], ["get"], ["put", 6]]):
                        cases.append({"size": size, "backlog": backlog, "ops": pre + post,
                                      "react": {"0": rx, "1": [["put", 906]] if rng.random() < 0.3 else []}})
    for _ in range(600 if tier == "quick" else 20000):
        size, backlog = rng.choice(lims + [3]), rng.choice(lims + [3])
        ops, ngets = [], 0
        for k in range(rng.randrange(3, 16)):
            r = rng.random()
            if r < 0.4:
                ops.append(["put", k])
            elif r < 0.85:
                ops.append(["get"])
                ngets += 1
            else:
                ops.append(["cancel", rng.randrange(ngets + 2)])
        react = {}
        for i in range(rng.randrange(1, 5)):
            react[str(rng.randrange(ngets + 3))] = [rop(ngets) for _ in range(rng.randrange(1, 4))]
        cases.append({"size": size, "backlog": backlog, "ops": ops, "react": react})
    return cases


def corpus():
    return [
        {"size": 1, "backlog": 2, "ops": [["get"], ["get"], ["get"], ["cancel", 0], ["put", 5], ["put", 6],
                                            ["put", 7], ["get"], ["get"]]},
        {"size": 0, "backlog": 0, "ops": [["put", 1], ["get"], ["put", 2]]},
        {"size": None, "backlog": None, "ops": [["get"], ["get"], ["cancel", 1], ["cancel", 1], ["put", 1],
                                                  ["put", 2], ["cancel", 0]]},
        # the usual worker loop with backlog=1: the callback asks for the next object from inside put
        {"size": None, "backlog": 1, "ops": [["get"], ["put", 1], ["put", 2]], "react": {"0": [["get"]], "1": [["get"]]}},
        # a callback that puts while no other get is pending
        {"size": None, "backlog": None, "ops": [["get"], ["put", 1], ["get"]], "react": {"0": [["put", 3]]}},
        # a rejected put whose object equals a queued one (1 == 3 under Val's equality), then the queue is drained
        {"size": 2, "backlog": None, "ops": [["put", 1], ["put", 2], ["put", 3], ["get"], ["get"]]},
        {"size": 1, "backlog": None, "ops": [["put", 2], ["put", 4], ["get"], ["get"]]},
    ]


def _op(o):
    if o[0] == "put":
        return f"Put ({o[1]})%Z"
    if o[0] == "get":
        return "Get"
    return f"Cancel {o[1]}%nat"


def to_coq(case):
    lim = lambda v: coq_option(None if v is None else f"{v}%nat", "nat")
    reacts = coq_list((f"({int(k)}%nat, {coq_list(map(_op, v), 'op')})" for k, v in sorted(case.get("react", {}).items())),
                      "(nat * list op)")
    return f"({lim(case['size'])}, {lim(case['backlog'])}, {reacts}, {coq_list(map(_op, case['ops']), 'op')})"


def shrink(case):
    ops = case["ops"]
    for i in range(len(ops)):
        yield {**case, "ops": ops[:i] + ops[i + 1:]}
    for k in list(case.get("react", {})):
        r = dict(case["react"])
        del r[k]
        yield {**case, "react": r}
        if len(case["react"][k]) > 1:
            for j in range(len(case["react"][k])):
                r2 = dict(case["react"])
                r2[k] = case["react"][k][:j] + case["react"][k][j + 1:]
                yield {**case, "react": r2}


SPEC = Spec(
    pid="C07",
    gen=gen, impl=impl, oracle=oracle, corpus=corpus, shrink=shrink,
    coq_header="From C07 Require Import Model Run.",
    coq_fn="run_show_re",
    to_coq=to_coq,
    nontrivial=lambda c, o: any(t in o for t in ("D", "I", "C", "O", "U")),
    histogram=lambda c, o: f"size={c['size']} backlog={c['backlog']}" + (" reentrant" if c.get("react") else ""),
    rule="every history of length <= 5 (quick, the longest length sampled 25%) / <= 7 (thorough) over {put, get, "
         "cancel get#0, cancel get#1} for size, backlog in {None,0,1,2}^2; random histories of 8-60 ops with limits up "
         "to 5; re-entrant histories (callbacks of gets issuing get/put/cancel from inside put/cancel): a systematic "
         "block over 16 limit pairs x 7 reactions x 4 prefixes x 4 suffixes and random ones; put objects compare equal "
         "in two classes but are distinct; non-trivial = at least one delivery, cancellation, overflow or underflow; "
         "distinct by (case, observation)",
    trusted=["hand-written model coq/C07/Model.v (tied by this correspondence run only)",
             "re-entrant operations are modelled as running right after the operation that fired the Deferred "
             "(theorem reentrant_history_is_its_flattening); that this is what the code does is what the "
             "correspondence checks"],
    assumptions=["Deferred firing/cancellation behaves as in C03 (fired Deferred ignores cancel; unfired one with a "
                 "canceller that does not fire it fails with CancelledError)"],
    shard=600,
)
