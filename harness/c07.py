"""C07 — DeferredQueue: H-tie (hand-written model coq/C07, correspondence on generated histories)."""
from __future__ import annotations

import itertools

from harness.common import Failure, Spec, coq_list, coq_option


# case = {"size": int|None, "backlog": int|None, "ops": [["put", x] | ["get"] | ["cancel", i]]}


def impl(case) -> str:
    from twisted.internet import defer

    q = defer.DeferredQueue(size=case["size"], backlog=case["backlog"])
    gets = []           # Deferreds handed out by get(), in call order
    fired = []          # (get id, 'ok'/'err', value) in firing order, via callbacks only (API-level)
    events = []

    def watch(i, d):
        d.addCallbacks(lambda v: fired.append((i, "ok", v)), lambda f: fired.append((i, "err", f.type.__name__)))

    for op in case["ops"]:
        n0 = len(fired)
        if op[0] == "put":
            try:
                q.put(op[1])
            except defer.QueueOverflow:
                events.append("O")
                continue
            new = fired[n0:]
            if not new:
                events.append("Q")
            else:
                events.append("+".join(f"D{i}:{v}" if k == "ok" else f"E{i}:{v}" for i, k, v in new))
        elif op[0] == "get":
            try:
                d = q.get()
            except defer.QueueUnderflow:
                events.append("U")
                continue
            i = len(gets)
            gets.append(d)
            watch(i, d)
            new = fired[n0:]
            if not new:
                events.append(f"W{i}")
            else:
                events.append("+".join(f"I{i}:{v}" if k == "ok" else f"E{i}:{v}" for i, k, v in new))
        else:
            i = op[1]
            if i >= len(gets):
                events.append(f"N{i}")
                continue
            gets[i].cancel()
            new = fired[n0:]
            if not new:
                events.append(f"N{i}")
            else:
                events.append("+".join(f"C{i}" if (k, v) == ("err", "CancelledError") else f"X{i}:{k}:{v}"
                                       for i, k, v in new))
    # final state through the public attributes the class documents (waiting / pending)
    w = [gets.index(d) for d in q.waiting]
    return " ".join(events) + " |w=[" + ",".join(map(str, w)) + "] p=[" + ",".join(map(str, q.pending)) + "]"


def oracle(case, obs):
    """The property, evaluated on the implementation's event log with independent bookkeeping."""
    evs = obs.split(" |")[0].split(" ") if case["ops"] else []
    size, backlog = case["size"], case["backlog"]
    queued = []          # accepted, undelivered objects in put order
    waiting = []         # pending uncancelled gets, oldest first
    nget = 0
    if len(evs) != len(case["ops"]):
        return Failure(case, "malformed log", "log")
    for k, (op, e) in enumerate(zip(case["ops"], evs)):
        where = f"op {k} {op} -> {e}: "
        if "+" in e or e[0] in "EX":
            return Failure(case, where + "more than one Deferred fired, or an unexpected failure", "multi-fire")
        if op[0] == "put":
            x = op[1]
            if waiting:
                want = f"D{waiting[0]}:{x}"
                if e != want:
                    return Failure(case, where + f"expected delivery to the oldest uncancelled get ({want})",
                                   "put-with-waiter")
                waiting.pop(0)
            elif size is not None and len(queued) >= size:
                if e != "O":
                    return Failure(case, where + "expected QueueOverflow", "overflow-missing")
            else:
                if e != "Q":
                    return Failure(case, where + ("unexpected QueueOverflow" if e == "O" else "expected queued"),
                                   "overflow-spurious" if e == "O" else "put-queue")
                queued.append(x)
        elif op[0] == "get":
            if queued:
                want = f"I{nget}:{queued[0]}"
                if e != want:
                    return Failure(case, where + f"expected the oldest queued object ({want})", "get-order")
                queued.pop(0)
                nget += 1
            elif backlog is not None and len(waiting) >= backlog:
                if e != "U":
                    return Failure(case, where + "expected QueueUnderflow", "underflow-missing")
            else:
                if e != f"W{nget}":
                    return Failure(case, where + ("unexpected QueueUnderflow" if e == "U" else "expected a waiting get"),
                                   "underflow-spurious" if e == "U" else "get-wait")
                waiting.append(nget)
                nget += 1
        else:
            i = op[1]
            if i in waiting:
                if e != f"C{i}":
                    return Failure(case, where + "cancelling a pending get must fail it with CancelledError",
                                   "cancel")
                waiting.remove(i)
            elif e != f"N{i}":
                return Failure(case, where + "cancelling a finished get must do nothing", "cancel-noop")
    return None


def _ops_alphabet(nvals=2):
    return [["put", 0], ["get"], ["cancel", 0], ["cancel", 1]]


def gen(rng, tier):
    cases = []
    lims = [None, 0, 1, 2]
    depth = 5 if tier == "quick" else 7
    # bounded-exhaustive: every history up to `depth` over a small alphabet (puts carry their index as value)
    alpha = ["p", "g", "c0", "c1"]
    for size in lims:
        for backlog in lims:
            for n in range(1, depth + 1):
                for word in itertools.product(alpha, repeat=n):
                    if tier == "quick" and n == depth and rng.random() > 0.25:
                        continue
                    ops = []
                    for k, a in enumerate(word):
                        ops.append(["put", k] if a == "p" else ["get"] if a == "g" else ["cancel", int(a[1])])
                    cases.append({"size": size, "backlog": backlog, "ops": ops})
    # random long histories
    for _ in range(400 if tier == "quick" else 20000):
        size, backlog = rng.choice(lims + [3, 5]), rng.choice(lims + [3, 5])
        ops, ngets = [], 0
        bias = rng.choice([0.3, 0.5, 0.7])
        for k in range(rng.randrange(8, 60)):
            r = rng.random()
            if r < bias * 0.9:
                ops.append(["put", k])
            elif r < 0.9:
                ops.append(["get"])
                ngets += 1
            else:
                ops.append(["cancel", rng.randrange(ngets + 2)])
        cases.append({"size": size, "backlog": backlog, "ops": ops})
    return cases


def corpus():
    return [
        {"size": 1, "backlog": 2, "ops": [["get"], ["get"], ["get"], ["cancel", 0], ["put", 5], ["put", 6],
                                            ["put", 7], ["get"], ["get"]]},
        {"size": 0, "backlog": 0, "ops": [["put", 1], ["get"], ["put", 2]]},
        {"size": None, "backlog": None, "ops": [["get"], ["get"], ["cancel", 1], ["cancel", 1], ["put", 1],
                                                  ["put", 2], ["cancel", 0]]},
    ]


def to_coq(case):
    def op(o):
        if o[0] == "put":
            return f"Put ({o[1]})%Z"
        if o[0] == "get":
            return "Get"
        return f"Cancel {o[1]}%nat"

    lim = lambda v: coq_option(None if v is None else f"{v}%nat", "nat")
    return f"({lim(case['size'])}, {lim(case['backlog'])}, {coq_list(map(op, case['ops']), 'op')})"


def shrink(case):
    ops = case["ops"]
    for i in range(len(ops)):
        yield {**case, "ops": ops[:i] + ops[i + 1:]}


SPEC = Spec(
    pid="C07",
    gen=gen, impl=impl, oracle=oracle, corpus=corpus, shrink=shrink,
    coq_header="From C07 Require Import Model Run.",
    coq_fn="run_show",
    to_coq=to_coq,
    nontrivial=lambda c, o: any(t in o for t in ("D", "I", "C", "O", "U")),
    histogram=lambda c, o: f"size={c['size']} backlog={c['backlog']}",
    rule="every history of length <= 5 (quick, the longest length sampled 25%) / <= 7 (thorough) over {put, get, "
         "cancel get#0, cancel get#1} for size, backlog in {None,0,1,2}^2, plus random histories of 8-60 ops with "
         "limits up to 5; non-trivial = at least one delivery, cancellation, overflow or underflow; distinct by "
         "(case, observation)",
    trusted=["hand-written model coq/C07/Model.v (tied by this correspondence run only)",
             "callbacks attached by the harness only record; re-entrant use of the queue from a get callback is not modelled"],
    assumptions=["Deferred firing/cancellation behaves as in C03 (fired Deferred ignores cancel; unfired one with a "
                 "canceller that does not fire it fails with CancelledError)"],
)
