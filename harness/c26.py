"""C26 — FilePath.child / preauthChild / descendant and static.File never escape their directory.

H-tie: coq/C26 (hand-written model over coq/Lib/PyPath.v) evaluated by vm_compute against
 * os.path.normpath / join / abspath, bytes.split, unquote + UTF-8 decodability  (validates PyPath.v),
 * FilePath(parent).child / preauthChild / descendant  (pure string API, bytes and str modes),
 * a real twisted.web.server.Site(static.File(root)) on a scratch tree, driven through
   HTTPChannel.dataReceived with a StringTransport; the files it opens / directories it lists are
   observed with a sys.addaudithook (API independent).
The oracle states containment segment-wise, independently of the model."""
from __future__ import annotations

import atexit
import itertools
import os
import shutil
import sys
import tempfile

from harness.common import Failure, Spec, coq_bytes, coq_list

H = lambda b: bytes(b).hex()
B = bytes.fromhex
CWD = os.getcwdb()

# --------------------------------------------------------------------------------------------
# scratch tree for the static cases (outside /repo and /verif; removed at exit)

_SITE = {}

TREE_DIRS = ["root", "root/sub", "root/sub2", "root/...", "root/%2e%2e", "root/sub/deep", "rootsecret", "roo", "root.d",
             "root/page.d", "root/sub3"]
TREE_FILES = ["root/a.txt", "root/sub/b.txt", "root/sub/index.html", "root/sp ace.txt", "root/é.txt",
              "root/.hidden", "root/.../x", "root/%2e%2e/y", "root/sub/deep/index.html", "root/sub2/c",
              "root/root", "rootsecret/s.txt", "secret.txt", "roo/t.txt", "a.txt",
              # for ignoredExts / processors: names reachable only through an ignored extension, processor
              # extensions, and decoys next to the root that an escaping search would find
              "root/page.html", "root/page.txt", "root/doc.txt", "root/script.cgi", "root/sub/tool.rpy",
              "root/arch.tar.gz", "root/.hidden.txt", "root/sub/only.html", "root/noext", "root/star*",
              "root.txt", "root.html", "root.cgi", "root.d/x.txt", "secret.txt.txt", "root/sub3/z.txt"]
INDEX = ["index", "index.html", "index.htm", "index.rpy"]   # static.File.indexNames default

# configurations of the root File: (ignoredExts, processor extensions, putChild names, custom childNotFound?)
CONFIGS = [
    {"ignored": [], "proc": [], "children": [], "notfound": False},
    {"ignored": [".txt", ".html"], "proc": [".cgi", ".rpy"], "children": ["static", "a.txt", "..", "%2e"], "notfound": False},
    {"ignored": ["*"], "proc": [".cgi"], "children": [""], "notfound": True},
    {"ignored": ["", ".html", "*", ".gz"], "proc": [".gz", ".txt"], "children": ["sub"], "notfound": False},
]


def _make_site(cfg, root):
    from twisted.web import resource, server, static

    class Leaf(resource.Resource):
        isLeaf = True

        def __init__(self, tag):
            resource.Resource.__init__(self)
            self.tag = tag

        def render(self, request):
            return b"@@" + self.tag + b"|" + b"/".join(H(x).encode() for x in request.postpath) + b"@@"

    def processor(path, registry):
        return Leaf(b"PROC|" + H(os.fsencode(path)).encode())

    res = static.File(root, ignoredExts=list(cfg["ignored"]))
    assert list(res.indexNames) == INDEX, res.indexNames
    res.processors = {e: processor for e in cfg["proc"]}
    for i, name in enumerate(cfg["children"]):
        res.putChild(name.encode(), Leaf(b"CHILD|%d" % i))
    if cfg["notfound"]:
        res.childNotFound = Leaf(b"NOTFOUND")
    site = server.Site(res)
    site.displayTracebacks = False
    return site


def _site():
    if _SITE:
        return _SITE

    base = os.path.realpath(tempfile.mkdtemp(prefix="verif_c26_"))
    atexit.register(shutil.rmtree, base, True)
    for d in TREE_DIRS:
        os.makedirs(os.path.join(base, d), exist_ok=True)
    for f in TREE_FILES:
        with open(os.path.join(base, f), "w") as fh:
            fh.write("SECRET" if not f.startswith("root/") else "public")
    root = os.path.join(base, "root")
    sites = [_make_site(cfg, root) for cfg in CONFIGS]
    # failures logged by the code under test (undecodable segment, ValueError from os.stat) are expected
    # observations here, not noise for stderr
    from twisted.logger import globalLogBeginner
    try:
        globalLogBeginner.beginLoggingTo([lambda event: None], redirectStandardIO=False, discardBuffer=True)
    except Exception:
        pass
    log, stats = [], []
    state = {"on": False}
    ignore = tuple(os.fsencode(p) for p in {os.environ.get("VERIF_REPO", "/repo"), sys.prefix, sys.base_prefix,
                                           "/usr/lib", "/venv"})

    def hook(event, args):
        if not state["on"]:
            return
        if event in ("open", "os.listdir", "os.scandir"):
            p = args[0]
            if isinstance(p, int) or p is None:
                return
            try:
                pb = os.fsencode(p)
            except Exception:
                return
            if pb.startswith(ignore) or pb.endswith(b".py"):
                return
            log.append(("o" if event == "open" else "l", pb))

    sys.addaudithook(hook)

    # os.stat / os.lstat are not audit events: wrap them (oracle only; exists(), isdir(), getsize() end here)
    def wrap(fn):
        def stat(path, *a, **kw):
            if state["on"] and isinstance(path, (str, bytes)):
                try:
                    pb = os.fsencode(path)
                    if not (pb.startswith(ignore) or pb.endswith(b".py")):
                        stats.append(pb)
                except Exception:
                    pass
            return fn(path, *a, **kw)
        return stat

    import twisted.python.filepath as fpm
    os.stat, os.lstat = wrap(os.stat), wrap(os.lstat)
    for name in ("stat", "lstat"):
        if hasattr(fpm, name):
            setattr(fpm, name, wrap(getattr(fpm, name)))
    _SITE.update(base=base, root=root, sites=sites, log=log, stats=stats, state=state)
    return _SITE


def _static(url: bytes, cfg: int = 0) -> str:
    from twisted.internet.error import ConnectionDone
    from twisted.internet.testing import StringTransport
    from twisted.python.failure import Failure as TFailure

    S = _site()
    proto = S["sites"][cfg].buildProtocol(None)
    t = StringTransport()
    del S["log"][:]
    del S["stats"][:]
    S["state"]["on"] = True
    try:
        proto.makeConnection(t)
        proto.dataReceived(b"GET " + url + b" HTTP/1.0\r\n\r\n")
    finally:
        S["state"]["on"] = False
    acc = list(S["log"])
    value = t.value()
    head = value.split(b"\r\n", 1)[0]
    proto.connectionLost(TFailure(ConnectionDone()))
    code = head.split(b" ")[1].decode() if head.startswith(b"HTTP/") and len(head.split(b" ")) > 1 else ""
    opened = [p for k, p in acc if k == "o"]
    leaf = value.split(b"@@")[1] if value.count(b"@@") >= 2 else None
    if leaf is not None and leaf.startswith(b"PROC|"):
        _, path, rest = leaf.split(b"|")
        out = "P:" + path.decode() + ":" + rest.decode()
    elif leaf is not None and leaf.startswith(b"CHILD|"):
        _, i, rest = leaf.split(b"|")
        out = "C:" + i.decode() + ":" + rest.decode()
    elif leaf is not None and leaf.startswith(b"NOTFOUND"):
        out = "N"
    elif code == "" and opened:
        out = "S:" + H(opened[-1])
    elif code == "200" and acc and acc[-1][0] == "l":
        out = "L:" + H(acc[-1][1])
    elif code == "302":
        out = "R"
    elif code == "404":
        out = "N"
    elif code == "500":
        out = "E"
    else:
        out = "?" + code
    return ",".join(k + ":" + H(p) for k, p in acc) + "|" + out + " #" + ",".join(H(p) for p in sorted(set(S["stats"])))


# --------------------------------------------------------------------------------------------
# implementation driver


def _conv(b: bytes, t: str):
    return b if t == "b" else os.fsdecode(b)


def impl(case) -> str:
    k = case["k"]
    if k == "norm":
        return "P:" + H(os.path.normpath(B(case["s"])))
    if k == "join":
        return "P:" + H(os.path.join(B(case["a"]), B(case["b"])))
    if k == "abs":
        return "P:" + H(os.path.abspath(B(case["s"])))
    if k == "segs":
        return ",".join(H(c) for c in B(case["s"]).split(b"/") if c)
    if k == "unq":
        from twisted.web.http import unquote
        u = unquote(B(case["s"]))
        try:
            u.decode("utf-8")
            return H(u) + ":u"
        except UnicodeDecodeError:
            return H(u) + ":b"
    if k == "static":
        return _static(B(case["url"]), case.get("cfg", 0))
    if k == "dir":
        p = B(case["s"])
        return H(os.path.dirname(p)) + "|" + H(os.path.basename(p)) + "|" + H(os.path.splitext(p)[1])
    from twisted.python.filepath import FilePath, InsecurePath

    t = case.get("t", "bb")
    fp = FilePath(_conv(B(case["parent"]), t[0]))
    try:
        if k == "child":
            r = fp.child(_conv(B(case["name"]), t[1]))
        elif k == "pre":
            r = fp.preauthChild(_conv(B(case["name"]), t[1]))
        else:
            r = fp.descendant([_conv(B(s), t[1]) for s in case["segs"]])
    except InsecurePath:
        return "X"
    want = bytes if t[1] == "b" else str
    if type(r.path) is not want:
        return "?type"
    return "P:" + H(os.fsencode(r.path))


# --------------------------------------------------------------------------------------------
# the property, stated on the observation (independent of the Coq model)


def _segs(p: bytes):
    return [c for c in p.split(b"/") if c]


def _clean(segs):
    return all(c not in (b".", b"..") for c in segs)


def oracle(case, obs):
    k = case["k"]
    if k in ("norm", "join", "abs", "segs", "unq", "dir"):
        return None
    if k == "static":
        S = _site()
        root = os.fsencode(S["root"])
        head, _, stats = obs.partition(" #")
        acc, _, outcome = head.partition("|")
        touched = [(item[0], B(item[2:])) for item in filter(None, acc.split(","))]
        if outcome.startswith("P:"):
            touched.append(("processor", B(outcome[2:].split(":")[0])))
        # os.stat / os.lstat (exists, isdir, getsize): ancestors of the root are legitimately stat'ed by nobody
        touched += [("stat", B(h)) for h in filter(None, stats.split(","))]
        for kind, p in touched:
            if kind == "stat" and b"\x00" in p:
                continue            # os.stat refuses the name itself (ValueError) before touching anything
            real = os.path.realpath(p)
            if not (real == root or real.startswith(root + b"/")) or b"\x00" in p:
                return Failure(case, f"static.File accessed {p!r} ({kind}), outside its root {root!r}",
                               "static-escape" if kind != "stat" else "static-stat-escape")
        if head.startswith("?") or "|?" in head:
            return Failure(case, "unexpected response " + obs, "static-unexpected-response")
        return None
    if obs == "X":
        return None
    if not obs.startswith("P:"):
        return Failure(case, "unexpected observation " + obs, "filepath-unexpected")
    from twisted.python.filepath import FilePath

    r = B(obs[2:])
    parent = os.fsencode(FilePath(B(case["parent"])).path)
    ps, rs = _segs(parent), _segs(r)
    if not _clean(rs):
        return Failure(case, f"{k}: result {r!r} still has '.'/'..' components", k + "-unnormalised")
    if k == "child":
        if rs == ps or (rs[:-1] == ps and len(rs) == len(ps) + 1):
            return None
        return Failure(case, f"child: {r!r} is neither {parent!r} nor directly inside it", "child-escape")
    if rs[:len(ps)] == ps:
        return None
    if r.startswith(parent):
        # the string-prefix class (finding F8): a sibling whose name extends the parent's name
        return Failure(case, f"{k}: {r!r} is outside {parent!r} (a sibling sharing its name as a string prefix)",
                       ("preauthChild" if k == "pre" else "descendant") + "-prefix-sibling")
    return Failure(case, f"{k}: {r!r} is outside {parent!r}", ("preauthChild" if k == "pre" else "descendant") + "-escape")


# --------------------------------------------------------------------------------------------
# generators

PIECES = [b"/", b"//", b"///", b".", b"..", b"...", b"a", b"b", b"foo", b"foobar", b"foo.", b"fo", b"tmp", b"\\",
          b"%2e", b"%2f", b"\x00", b"\xff", b"\xc3\xa9", b" ", b"~", b":", b"..a", b"a..", b".a", b"x"]
PARENTS = [b"/", b"//", b"///", b"/tmp/foo", b"/tmp/foo/", b"//tmp/foo", b"/tmp//foo/./", b"/tmp/foo/../foo", b"/a",
           b"/a/b/c", b"/.../x", b"/tmp/foo.", b"/tmp/fo", b"//a", b"/..", b"/../a", b"/a/..", b"/\xff/a", b"rel/dir",
           b".", b"", b"..", b"/tmp/foo/bar"]


def _rand_path(rng, maxn=6):
    n = rng.randrange(0, maxn)
    out = b""
    for _ in range(n):
        out += rng.choice(PIECES)
        r = rng.random()
        if r < 0.6:
            out += b"/"
        elif r < 0.65:
            out += b"//"
    return out


def _sibling_attack(rng, parent: bytes):
    """'..' out of the parent, then a name extending the parent's last component"""
    ap = os.path.abspath(parent)
    segs = _segs(ap)
    k = rng.randrange(1, 3)
    if len(segs) < k:
        return b"../" * rng.randrange(1, 4) + rng.choice(PIECES)
    base = b"/".join(segs[len(segs) - k:])
    ext = rng.choice([b"bar", b".", b"-", b"x", b"\x00", b" ", b".bak", b""])
    rest = rng.choice([b"", b"/x", b"/../" + segs[-1] + b"z", b"/."])
    return b"../" * k + base + ext + rest


def _exhaustive(alpha, maxlen):
    for n in range(0, maxlen + 1):
        for w in itertools.product(alpha, repeat=n):
            yield b"".join(w)


URLSEGS = [b"a.txt", b"sub", b"b.txt", b"index.html", b"..", b"%2e%2e", b".", b"%2e", b"%2f", b"..%2f", b"%2e%2e%2f",
           b"", b"rootsecret", b"secret.txt", b"%00", b"%ff", b"%c3%a9.txt", b"sp%20ace.txt", b"nope", b"s.txt", b"%5c",
           b"%5c..", b"%252e%252e", b"..;", b"sub2", b"...", b"x", b"%2e%2e%2frootsecret", b"root", b"..%2froot",
           b"%2E%2E", b"deep", b"%", b"%2", b"%zz", b".hidden", b"c", b"%2e%2e%2f%2e%2e", b"..%2fsecret.txt", b"y",
           b"%c0%ae%c0%ae", b"%e0%80%ae", b"roo", b"t.txt", b"%2e%2e%5c", b"a.txt%00", b"sub%2fb.txt", b"%2fetc"]


# segments aimed at ignoredExts ("page" -> page.html / page.txt), processors (.cgi .rpy .gz .txt), putChild names
XSEGS = [b"page", b"doc", b"script", b"script.cgi", b"tool", b"tool.rpy", b"arch.tar", b"arch", b"arch.tar.gz", b"noext",
         b"only", b".hidden", b"static", b"%2e", b"%252e", b"sub", b"star", b"star*", b"star%2a", b"root", b".", b"..",
         b"%2e%2e", b"..%2froot", b"%2e%2e%2froot", b"secret.txt", b"secret", b"page.d", b"page.", b"sub3", b"z",
         b"rest", b"a.txt", b"a", b"%00", b"page%00", b"..%2fsecret.txt", b"..%2fsecret", b"", b"x"]


def gen(rng, tier):
    quick = tier == "quick"
    cases = []
    # -- PyPath.v against os.path / bytes.split / unquote: bounded-exhaustive + random
    alpha = [b"/", b".", b"a"]
    for s in _exhaustive(alpha, 5 if quick else 7):
        cases.append({"k": "norm", "s": H(s)})
    for s in _exhaustive(alpha + [b"\x00"], 3 if quick else 5):
        cases.append({"k": "segs", "s": H(s)})
        cases.append({"k": "abs", "s": H(s)})
    for a in _exhaustive(alpha, 2 if quick else 3):
        for b in _exhaustive(alpha, 2 if quick else 3):
            cases.append({"k": "join", "a": H(a), "b": H(b)})
    for _ in range(150 if quick else 3000):
        cases.append({"k": "norm", "s": H(_rand_path(rng, 9))})
        cases.append({"k": "abs", "s": H(_rand_path(rng, 6))})
        cases.append({"k": "join", "a": H(_rand_path(rng, 4)), "b": H(_rand_path(rng, 4))})
    for _ in range(200 if quick else 3000):
        n = rng.randrange(0, 8)
        s = b"".join(rng.choice([b"%", b"%2", b"%2e", b"%2F", b"%c3", b"%a9", b"%ff", b"%00", b"%ED%A0%80", b"%f4%90",
                                 b"%e2%82%ac", b"%f0%9f%98%80", b"%c0%af", b"a", b"/", b"%g1", b"%1g", b"%%",
                                 bytes([rng.randrange(256)]), b"%" + b"%02x" % rng.randrange(256)]) for _ in range(n))
        cases.append({"k": "unq", "s": H(s)})
    # -- FilePath: bounded-exhaustive names over {'/', '.', 'a', NUL} for a few parents, both operations
    small_parents = [b"/", b"//", b"/a", b"/a/b", b"/aa"]
    for p in small_parents:
        for s in _exhaustive(alpha, 3 if quick else 5):
            cases.append({"k": "child", "parent": H(p), "name": H(s), "t": "bb"})
            cases.append({"k": "pre", "parent": H(p), "name": H(s), "t": "bb"})
    # -- FilePath: random hostile names, prefix-sharing siblings
    for _ in range(500 if quick else 4000):
        parent = rng.choice(PARENTS)
        r = rng.random()
        name = _sibling_attack(rng, parent) if r < 0.35 else _rand_path(rng)
        t = rng.choice(["bb", "bb", "ss", "sb", "bs"])
        op = rng.choice(["child", "pre", "pre"])
        cases.append({"k": op, "parent": H(parent), "name": H(name), "t": t})
    for _ in range(200 if quick else 3000):
        parent = rng.choice(PARENTS)
        segs = [rng.choice(PIECES + [b"", b"../foobar", b"a/b", b"/"]) for _ in range(rng.randrange(0, 5))]
        if rng.random() < 0.3:
            segs = [b"..", _segs(os.path.abspath(parent) + b"/q")[-2] + b"bar"] if _segs(os.path.abspath(parent)) else segs
        cases.append({"k": "desc", "parent": H(parent), "segs": [H(s) for s in segs], "t": rng.choice(["bb", "ss"])})
    # -- static.File through the real HTTP stack
    for _ in range(400 if quick else 3000):
        n = rng.randrange(1, 6)
        segs = [rng.choice(URLSEGS) for _ in range(n)]
        if rng.random() < 0.15:
            segs.append(b"%" + b"%02x" % rng.randrange(256) + rng.choice(URLSEGS))
        cases.append({"k": "static", "url": H(b"/" + b"/".join(segs))})
    # -- the same with ignoredExts / processors / putChild children / a custom childNotFound configured
    for _ in range(500 if quick else 4000):
        n = rng.randrange(1, 5)
        segs = [rng.choice(URLSEGS + XSEGS + XSEGS) for _ in range(n)]
        cases.append({"k": "static", "cfg": rng.randrange(1, len(CONFIGS)), "url": H(b"/" + b"/".join(segs))})
    for cfg in range(1, len(CONFIGS)):
        for a in XSEGS:
            cases.append({"k": "static", "cfg": cfg, "url": H(b"/" + a)})
            cases.append({"k": "static", "cfg": cfg, "url": H(b"/sub/" + a)})
    for s_ in _exhaustive(alpha, 4 if quick else 6):
        cases.append({"k": "dir", "s": H(s_)})
    for _ in range(150 if quick else 3000):
        cases.append({"k": "dir", "s": H(_rand_path(rng, 6) + rng.choice([b"", b"x.tar.gz", b".hidden", b"..a", b"a.", b"..."]))})
    if not quick:
        for a in URLSEGS:
            for b in URLSEGS:
                cases.append({"k": "static", "url": H(b"/" + a + b"/" + b)})
    return cases


def corpus():
    c = [
        # DESIGN.md section 6, F8
        {"k": "pre", "parent": H(b"/tmp/foo"), "name": H(b"../foobar/x"), "t": "ss"},
        {"k": "pre", "parent": H(b"/tmp/foo"), "name": H(b"../foobar/x"), "t": "bb"},
        {"k": "desc", "parent": H(b"/tmp/foo"), "segs": [H(b".."), H(b"foobar")], "t": "bb"},
        {"k": "child", "parent": H(b"/tmp/foo"), "name": H(b".."), "t": "bb"},
        {"k": "child", "parent": H(b"/"), "name": H(b".."), "t": "bb"},
        {"k": "pre", "parent": H(b"/"), "name": H(b"//x"), "t": "bb"},
        {"k": "pre", "parent": H(b"//"), "name": H(b"/x"), "t": "bb"},
        {"k": "pre", "parent": H(b"/tmp/foo"), "name": H(b"/tmp/foo/bar"), "t": "bb"},
        {"k": "pre", "parent": H(b"/tmp/foo"), "name": H(b"/tmp/foobar"), "t": "bb"},
        {"k": "pre", "parent": H(b"/tmp/foo"), "name": H(b""), "t": "bb"},
        {"k": "child", "parent": H(b"/tmp/foo"), "name": H(b"a\x00b"), "t": "bb"},
        {"k": "child", "parent": H(b"/tmp/foo"), "name": H(b"\xff"), "t": "sb"},
        {"k": "norm", "s": H(b"//a/../..//b/./")},
        {"k": "norm", "s": H(b"a\x00/../b")},
    ]
    for u in [b"/a.txt", b"/", b"/sub", b"/sub/", b"/../secret.txt", b"/%2e%2e/secret.txt", b"/..%2fsecret.txt",
              b"/%2e%2e%2frootsecret/s.txt", b"/a%00b", b"/%ff", b"//a.txt", b"/.", b"/sub/%2e%2e/a.txt", b"/./a.txt",
              b"/sub//b.txt", b"/a.txt/x", b"/..%2frootsecret%2fs.txt", b"/sub/deep/", b"/%2e%2e/y", b"/.../x"]:
        c.append({"k": "static", "url": H(u)})
    for cfg, u in [(1, b"/page"), (1, b"/doc"), (1, b"/script.cgi/rest/x"), (1, b"/sub/tool.rpy"), (1, b"/static/a/b"),
                   (1, b"/a.txt"), (1, b"/%2e/x"), (1, b"/../secret"), (1, b"/..%2fsecret"), (2, b"/page"), (2, b"/arch"),
                   (2, b"/"), (2, b"/sub/only"), (2, b"/nope"), (2, b"/."), (2, b"/..%2froot"), (2, b"/star"),
                   (3, b"/arch.tar"), (3, b"/doc"), (3, b"/sub/x"), (3, b"/noext"), (2, b"/sub3/"), (3, b"/%2e%2e%2fsecret.txt")]:
        c.append({"k": "static", "cfg": cfg, "url": H(u)})
    return c


# --------------------------------------------------------------------------------------------
# model side


def _tree():
    S = _site()
    base = S["base"]
    dirs, files = [os.fsencode(base)], []
    for d, ds, fs in os.walk(os.fsencode(base)):
        for x in ds:
            dirs.append(os.path.join(d, x))
        for x in fs:
            files.append(os.path.join(d, x))
    # ancestors of base are directories too
    p = os.fsencode(base)
    while p != b"/":
        p = os.path.dirname(p)
        dirs.append(p)
    return sorted(dirs), sorted(files)


def _listing():
    """os.listdir of every directory of the scratch tree, in the order the OS gives (siblingExtensionSearch's '*'
    takes the first match in that order)"""
    S = _site()
    out = []
    for d, ds, fs in os.walk(os.fsencode(S["base"])):
        out.append((d, os.listdir(d)))
    return out


def _tree_defs():
    if not _TREE:
        d, f = _tree()
        cb = coq_bytes
        ls = coq_list([f"({cb(d_)}, {coq_list([cb(n) for n in names], 'bytes')})" for d_, names in _listing()],
                      "(bytes * list bytes)%type")
        _TREE.update(d=coq_list([cb(x) for x in d], "bytes"), f=coq_list([cb(x) for x in f], "bytes"),
                     i=coq_list([cb(x.encode()) for x in INDEX], "bytes"), l=ls)
        for n, cfg in enumerate(CONFIGS):
            _TREE[f"cfg{n}"] = (coq_list([cb(e.encode()) for e in cfg["ignored"]], "bytes") + " "
                                + coq_list([cb(e.encode()) for e in cfg["proc"]], "bytes") + " "
                                + coq_list([f"({cb(c.encode())}, {i}%nat)" for i, c in enumerate(cfg["children"])],
                                           "(bytes * nat)%type"))
    return _TREE


_TREE = {}


def to_coq(case):
    k = case["k"]
    cb = coq_bytes
    cwd = cb(CWD)
    if k == "norm":
        return f"CNorm {cb(B(case['s']))}"
    if k == "join":
        return f"CJoin {cb(B(case['a']))} {cb(B(case['b']))}"
    if k == "abs":
        return f"CAbs {cwd} {cb(B(case['s']))}"
    if k == "segs":
        return f"CSegs {cb(B(case['s']))}"
    if k == "unq":
        return f"CUnq {cb(B(case['s']))}"
    if k == "child":
        return f"CChild {cwd} {cb(B(case['parent']))} {cb(B(case['name']))}"
    if k == "pre":
        return f"CPre {cwd} {cb(B(case['parent']))} {cb(B(case['name']))}"
    if k == "desc":
        return f"CDesc {cwd} {cb(B(case['parent']))} {coq_list([cb(B(s)) for s in case['segs']], 'bytes')}"
    if k == "static":
        url = B(case["url"])
        if b"?" in url or b"#" in url or any(c < 0x21 or c > 0x7E for c in url):
            return None
        T = _tree_defs()
        root = cb(os.fsencode(_site()["root"]))
        return f"CStatic {cwd} {root} c26_dirs c26_files c26_listing c26_index {T['cfg%d' % case.get('cfg', 0)]} {cb(url)}"
    if k == "dir":
        return f"CDir {cb(B(case['s']))}"
    return None


def _header():
    # the scratch tree is shared by all static cases of a run: define it once per Cases file
    T = _tree_defs()
    return ("From TwLib Require Import PyPath.\nFrom C26 Require Import Model Run.\n"
            f"Definition c26_dirs : list bytes := {T['d']}.\n"
            f"Definition c26_files : list bytes := {T['f']}.\n"
            f"Definition c26_listing : list (bytes * list bytes) := {T['l']}.\n"
            f"Definition c26_index : list bytes := {T['i']}.\n")


class _LazyHeader(str):
    """common.coq_eval writes ``header + '\\n'``; build the text (which needs the scratch tree) on first use"""

    def __add__(self, other):
        return _header() + other


def shrink(case):
    k = case["k"]
    for key in ("name", "s", "url", "a", "b"):
        if key in case:
            b = B(case[key])
            for i in range(len(b)):
                yield {**case, key: H(b[:i] + b[i + 1:])}
    if k == "desc":
        s = case["segs"]
        for i in range(len(s)):
            yield {**case, "segs": s[:i] + s[i + 1:]}


def histogram(case, obs):
    k = case["k"]
    if k == "static":
        return "static" + (":cfg%d:" % case["cfg"] if case.get("cfg") else ":") + obs.split(" #")[0].split("|")[-1][:1]
    if k in ("child", "pre", "desc"):
        return k + ":" + ("InsecurePath" if obs == "X" else "path")
    return "lib:" + k


SPEC = Spec(
    pid="C26",
    gen=gen, impl=impl, oracle=oracle, corpus=corpus, shrink=shrink,
    coq_header=_LazyHeader(""),
    coq_fn="run_show",
    to_coq=to_coq,
    model_equal=lambda c, a, b: a.split(" #")[0] == b,
    nontrivial=lambda c, o: c["k"] in ("child", "pre", "desc", "static"),
    histogram=histogram,
    rule="os.path.normpath for every string over {'/','.','a'} up to length 5 (thorough 7), abspath/split up to 3 (5) "
         "with NUL, join for all pairs up to 2x2 (3x3), random hostile strings; unquote+UTF-8 validity on random "
         "percent strings; FilePath.child and preauthChild for EVERY name over {'/','.','a'} up to length 3 (5) under "
         "parents /, //, /a, /a/b, /aa, plus random hostile names (NUL, non-UTF-8, backslash, %2e, '..' runs) with a "
         "sibling-name attack generator ('../'*k + parent's own name + suffix), bytes/str modes; descendant on random "
         "segment lists; static.File: random URL paths of 1-5 segments from a hostile segment list (thorough: all "
         "ordered pairs) through the real Site/HTTPChannel on a scratch tree with prefix-sharing siblings; "
         "non-trivial = FilePath or static case; distinct by (case, observation)",
    trusted=["hand-written model coq/C26/Model.v over coq/Lib/PyPath.v (posixpath semantics, UTF-8 validity and "
             "percent-unquoting written out in Gallina; tied by this correspondence run only)",
             "POSIX only (os.sep == '/'); Windows drive/colon handling is not modelled",
             "static.File with default configuration (ignoredExts empty, no processors, default indexNames); "
             "symbolic links are outside the property"],
    assumptions=["FilePath.path is only ever set by FilePath.__init__ (abspath); os.getcwd() is absolute",
                 "the scratch tree contains no symbolic links; file system state is an arbitrary oracle in the theorems"],
)
