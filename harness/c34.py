"""C34 — RFC 1982 serial-number arithmetic (T-tie: coq/C34/Gen.v is regenerated from
src/twisted/names/_rfc1982.py on every run; the correspondence below validates the translator)."""
from __future__ import annotations

from harness.common import COQ, REPO, Failure, Spec
from translate import c34 as tr


def _sn():
    from twisted.names._rfc1982 import SerialNumber
    return SerialNumber


def _obs(SN, bits, a, b):
    """canonical observation for the pair (a, b) of SerialNumbers of width bits"""
    x, y = SN(a, serialBits=bits), SN(b, serialBits=bits)
    t = lambda v: "T" if v is True else ("F" if v is False else "?" + repr(v))
    s = t(x == y) + t(x < y) + t(x > y) + t(x <= y) + t(x >= y)
    try:
        r = x + y
        if type(r) is not SN or r._serialBits != bits:
            s += "?type"
        else:
            s += str(int(r))
    except ArithmeticError:
        s += "!"
    return s


def _chain(SN, bits, a, ns):
    """left operand = the object returned by the previous addition (never a fresh instance):
    sums must carry the ring parameters of their operands"""
    x = SN(a, serialBits=bits)
    t = lambda v: "T" if v is True else ("F" if v is False else "?" + repr(v))
    out = []
    for n in ns:
        y = SN(n, serialBits=bits)
        s = t(x == y) + t(x < y) + t(x > y) + t(x <= y) + t(x >= y)
        try:
            r = x + y
            if type(r) is not SN or r._serialBits != bits:
                s += "?type"
            else:
                s += str(int(r))
                x = r
        except ArithmeticError:
            s += "!"
        out.append(s)
    return ";".join(out)


def impl(case) -> str:
    SN = _sn()
    if case["kind"] == "chain":
        return _chain(SN, case["bits"], case["a"], case["ns"])
    if case["kind"] == "table":
        bits = case["bits"]
        vs = range(2 ** bits)
        return ",".join(_obs(SN, bits, a, b) for a in vs for b in vs)
    return _obs(SN, case["bits"], case["a"], case["b"])


def _rfc_obs(bits, a, b):
    """the property, evaluated from RFC 1982 directly on Python ints (independent of the model)"""
    m, h = 2 ** bits, 2 ** (bits - 1)
    a, b = a % m, b % m
    lt = (a < b and b - a < h) or (a > b and a - b > h)
    gt = (a < b and b - a > h) or (a > b and a - b < h)
    eq = a == b
    t = lambda v: "T" if v else "F"
    s = t(eq) + t(lt) + t(gt) + t(eq or lt) + t(eq or gt)
    s += str((a + b) % m) if b <= h - 1 else "!"
    return s, (a, b, m, h, eq, lt, gt)


def _check_pair(case, bits, a, b, got):
    exp, (a, b, m, h, eq, lt, gt) = _rfc_obs(bits, a, b)
    if got == exp:
        # second, structural statement of the property: trichotomy except antipodes; add result > s
        n = sum([eq, lt, gt])
        assert n == (0 if abs(a - b) == h else 1)
        return None
    names = ["eq", "lt", "gt", "le", "ge"]
    for i, nm in enumerate(names):
        if got[i:i + 1] != exp[i]:
            return Failure(case, f"bits={bits} a={a} b={b}: {nm} is {got[i:i+1]}, RFC 1982 says {exp[i]}", "cmp-" + nm)
    return Failure(case, f"bits={bits} s={a} n={b}: addition gives {got[5:]}, RFC 1982 says {exp[5:]}", "add")


def oracle(case, obs):
    if case["kind"] == "chain":
        bits, cur = case["bits"], case["a"] % 2 ** case["bits"]
        parts = obs.split(";")
        if len(parts) != len(case["ns"]):
            return Failure(case, "malformed chain", "chain")
        for k, (n, got) in enumerate(zip(case["ns"], parts)):
            f = _check_pair(case, bits, cur, n, got)
            if f:
                f.reason = f"step {k} of a chain of additions (left operand is the previous sum): " + f.reason
                f.tag = "chain-" + f.tag
                return f
            exp, (a, b, m, h, *_rest) = _rfc_obs(bits, cur, n)
            if not exp.endswith("!"):
                cur = (a + b) % m
        return None
    if case["kind"] == "table":
        bits = case["bits"]
        parts = obs.split(",")
        vs = range(2 ** bits)
        if len(parts) != len(vs) ** 2:
            return Failure(case, "malformed table", "table")
        i = 0
        for a in vs:
            for b in vs:
                f = _check_pair({"kind": "pair", "bits": bits, "a": a, "b": b}, bits, a, b, parts[i])
                if f:
                    return f
                i += 1
        return None
    return _check_pair(case, case["bits"], case["a"], case["b"], obs)


def gen(rng, tier):
    cases = [{"kind": "table", "bits": w} for w in range(1, 7 if tier == "quick" else 9)]
    n = 3000 if tier == "quick" else 200000
    for _ in range(n):
        bits = rng.choice([9, 12, 16, 31, 32, 33, 64, 128])
        m, h = 2 ** bits, 2 ** (bits - 1)
        a = rng.choice([0, 1, h - 1, h, h + 1, m - 1, rng.randrange(m), rng.randrange(m)])
        k = rng.random()
        if k < 0.3:
            b = (a + rng.choice([h - 2, h - 1, h, h + 1, 1, 0, m - 1])) % m
        elif k < 0.5:
            b = rng.choice([0, 1, h - 2, h - 1, h, h + 1, m - 1])
        elif k < 0.6:
            b = a + m * rng.randrange(-2, 3)      # un-reduced constructor arguments
        else:
            b = rng.randrange(m)
        cases.append({"kind": "pair", "bits": bits, "a": a, "b": b})
    # values that collide under Python's int hash (hash(n) = n mod (2**61 - 1) on 64-bit builds):
    # equality and ordering must not depend on it
    P = 2 ** 61 - 1
    for bits in (61, 62, 64, 96, 128):
        m = 2 ** bits
        for a in (0, 1, 5, P - 1, rng.randrange(m)):
            for k in (1, 2, 3, 7):
                for d in (0, 1, -1):
                    cases.append({"kind": "pair", "bits": bits, "a": a % m, "b": (a + k * P + d) % m})
    # chains: ((a + n1) + n2) + ...; every width, addends around the true limit of that width and
    # around the 32-bit limit
    for _ in range(400 if tier == "quick" else 20000):
        bits = rng.choice([1, 2, 3, 4, 8, 9, 16, 31, 32, 33, 40, 64, 128])
        m, h = 2 ** bits, 2 ** (bits - 1)
        pool = [0, 1, h - 2, h - 1, h, h + 1, m - 1, 2 ** 31 - 2, 2 ** 31 - 1, 2 ** 31, 2 ** 40, rng.randrange(m)]
        ns = [rng.choice(pool) % m for _ in range(rng.randrange(2, 6))]
        cases.append({"kind": "chain", "bits": bits, "a": rng.randrange(m), "ns": ns})
    return cases


def to_coq(case):
    if case["kind"] == "chain":
        ns = "; ".join(f"({n})%Z" for n in case["ns"])
        return f"inr (inr (({case['bits']})%Z, ({case['a']})%Z, [{ns}]))"
    if case["kind"] == "pair":
        return f"inr (inl (({case['bits']})%Z, ({case['a']})%Z, ({case['b']})%Z))"
    if case["kind"] == "table":
        return f"inl ({case['bits']})%Z"
    return f"inr (({case['bits']})%Z, ({case['a']})%Z, ({case['b']})%Z)"


def hist(case, obs):
    if case["kind"] == "chain":
        return "chain:" + str(len(case["ns"])) + ("-refusal" if "!" in obs else "")
    return case["kind"] + ":" + (str(case["bits"]) if case["kind"] == "table" else
                                 ("add-refused" if obs.endswith("!") else "add-ok"))


SPEC = Spec(
    pid="C34",
    gen=gen,
    impl=impl,
    oracle=oracle,
    coq_header="From C34 Require Import Gen Model.\n"
               "Definition run (c : Z + ((Z * Z * Z) + (Z * Z * list Z))) := match c with inl w => run_table w "
               "| inr (inl p) => run_pair p | inr (inr (b, a, ns)) => run_chain b a ns end.",
    coq_fn="run",
    to_coq=to_coq,
    regen=lambda: tr.regen(REPO, COQ),
    nontrivial=lambda c, o: c["kind"] in ("table", "chain") or c["a"] != c["b"],
    histogram=hist,
    shrink=None,
    rule="widths 1..6 (quick) / 1..8 (thorough): every pair of values (one 'table' case per width); random pairs "
         "for widths 9..128 biased to half-ring distance +-2, 0, max and un-reduced constructor arguments; "
         "pairs whose values collide under Python's int hash (difference k*(2^61-1)) for widths >= 61; chains of "
         "2..5 additions whose left operand is the previous sum (widths 1..128, addends around the true limit and the "
         "32-bit limit); non-trivial = table, chain, or pair with a != b; distinct by (case, observation)",
    trusted=[
        "translator translate/py2coq.py + translate/c34.py (fail-closed; validated by this correspondence run)",
        "Python int arithmetic = Z arithmetic (** as Z.pow for exponents >= 0, % as Z.modulo for positive modulus)",
        "the _convertOther prologue (type / width check returning NotImplemented) is recognised structurally, not modelled",
    ],
    assumptions=["both operands are SerialNumber instances of the same width, width >= 1"],
)
