"""C50 — FilesystemLock mutual exclusion: H-tie.

The REAL ``FilesystemLock.lock()/unlock()`` are stepped one primitive call at a time.  The module
attributes ``lockfile.symlink/readlink/kill/rmlink`` (and ``lockfile.os`` for ``getpid``) are replaced
by versions that (i) let a process perform exactly one primitive call per granted step (class World:
deterministic re-execution, cross-checked against one controlled thread per process) and (ii) act on a
tiny in-memory file map.  One schedule entry = one primitive call, exactly the model's step.
Each process runs ``while True: if lock(): unlock()`` on one FilesystemLock object, so every word over
the pids is a valid interleaving and "all interleavings up to length K" = all words of length K.

case = {"n": live processes (pids 0..n-1), "dead": [pids without a process], "l0": None | pid
        (content of a link left at the lock path), "sched": [pid, ...], "cas": bool,
        optional, objects handed across fork():
        "held": h     process h already holds the lock (acquired on the free path before the schedule starts),
        "ustart": [p] p's FilesystemLock is a copy of a locked object (locked=True) of its parent and its first
                      call is unlock() -- it never locked anything itself,
        "made_by": {"p": c}  p's object was constructed while os.getpid() returned c (built before a fork),
        "dbl": [p]    p calls unlock() a second time after every successful release (a former holder releasing twice)}
``cas`` = repair simulation: the rmlink of the stale-lock path atomically refuses (ENOENT) when the link no
longer holds the pid that process found dead.  It is never True for the cases that judge /repo as it is;
it exists to show that model, correspondence and oracle accept a repaired behaviour silently.
"""
from __future__ import annotations

import copy
import errno
import itertools
import os
import re
import threading
import types

from harness.common import Failure, Spec, coq_bool, coq_list, coq_option

NAME = "/verif-fake/lock"
KNOWN_TAG = "stale-break-removes-live-lock"
SOLO_BOUND = 10   # the protocol needs 5 (symlink, readlink, kill, rmlink, symlink); slack for a repaired one


class _Abort(BaseException):
    pass


class _Suspend(BaseException):
    """replay mode: the process reached the primitive call after the one this step performs"""


class _Hang(Exception):
    pass


class NondeterministicReplay(Exception):
    pass


class World:
    """Fake file map + step control shared by the processes of one case.

    Two interchangeable ways of making a process perform exactly one primitive call per step:
      * "replay" (default, used for every case): deterministic re-execution.  To advance process p, its
        program `while True: if lock(): unlock()` is run again from the start on a fresh FilesystemLock; the
        primitive calls it already made are answered from p's log (and checked to be the same calls), the
        next one is performed on the file map and logged, and the call after that unwinds the run with a
        BaseException that lock()/unlock() do not catch.  lock()/unlock() are deterministic in the results
        of their primitive calls, so this is the same computation, without OS threads.
      * "threads": the program runs once in a thread per process, blocked in front of each primitive call
        until the scheduler grants the step.  Slower under load; run on a sample of cases and compared with
        the replay observation (`extra`).
    """

    def __init__(self, case, mode="replay"):
        self.mode = mode
        self.n = case["n"]
        self.dead = set(case["dead"])
        self.cas = bool(case.get("cas"))
        self.fs = {}
        if case["l0"] is not None:
            self.fs[NAME] = str(case["l0"])
        self.cur = []               # codes recorded during the current step
        self.incall = {}            # pid -> "lock" | "unlock"
        self.lastread = {}          # pid -> last value readlink returned to it inside lock()
        self.holders = set()        # API level: lock() returned True, unlock() not yet finished
        self.held = case.get("held")
        self.ustart = set(case.get("ustart") or [])
        self.made_by = {int(k): v for k, v in (case.get("made_by") or {}).items()}
        self.dbl = set(case.get("dbl") or [])
        self.override = None        # pid reported by os.getpid() while an object is being constructed
        # replay
        self.curp = None
        self.log = {p: [] for p in range(self.n)}
        self.pos = {}
        self.did_new = {}
        # threads: binary semaphores (raw locks, created held); exactly one of {scheduler, one process} runs
        self.tl = threading.local()
        self.abort = False
        self.crash = None
        if mode == "threads":
            self.go = [threading.Lock() for _ in range(self.n)]
            self.back = threading.Lock()
            for lk in self.go + [self.back]:
                lk.acquire()

    def me(self):
        o = getattr(self.tl, "override", None) if self.mode == "threads" else self.override
        if o is not None:
            return o
        return self.tl.pid if self.mode == "threads" else self.curp

    def set_override(self, v):
        if self.mode == "threads":
            self.tl.override = v
        else:
            self.override = v

    def make_obj(self, p, lockfile):
        """the FilesystemLock process p uses: built under the pid recorded in made_by (default: p itself, or the
        holder for inherited objects); inherited objects are copies of an object whose lock() returned True"""
        inherited = p in self.ustart
        parent = self.made_by.get(p, self.held if inherited and self.held is not None else p)
        self.set_override(parent)
        try:
            obj = lockfile.FilesystemLock(NAME)
            if inherited:
                saved = lockfile.symlink
                lockfile.symlink = lambda value, filename: None      # the parent's acquisition, on a free path
                try:
                    assert obj.lock() is True
                finally:
                    lockfile.symlink = saved
                obj = copy.copy(obj)
        finally:
            self.set_override(None)
        return obj

    def sfx(self, filename):
        return "" if filename == NAME else "@" + filename[len(NAME):] if filename.startswith(NAME) else "@" + filename

    def note(self, p, code):
        if self.mode == "threads" or self.did_new.get(p):
            self.cur.append(code)

    # -- step control ---------------------------------------------------------------------------------
    def prim(self, name, args):
        p = self.me()
        if self.mode == "threads":
            self.back.release()
            self.go[p].acquire()
            if self.abort:
                raise _Abort()
            return self.deliver(p, name, args, self.perform(p, name, args))
        log, i = self.log[p], self.pos[p]
        if i < len(log):
            self.pos[p] = i + 1
            if log[i][0] != (name, args):
                raise NondeterministicReplay(f"process {p} call {i}: {log[i][0]} then {(name, args)}")
            return self.deliver(p, name, args, log[i][1])
        if self.did_new[p]:
            raise _Suspend()
        self.did_new[p] = True
        out = self.perform(p, name, args)
        log.append(((name, args), out))
        self.pos[p] = i + 1
        return self.deliver(p, name, args, out)

    def deliver(self, p, name, args, out):
        kind, val = out
        if kind == "err":
            raise OSError(val, errno.errorcode[val])
        if name == "readlink" and self.incall.get(p) != "unlock":
            self.lastread[p] = val
        return val

    # -- the four primitives on the file map: (outcome, effect, trace code) ---------------------------
    def perform(self, p, name, args):
        un = self.incall.get(p) == "unlock"
        if name == "symlink":
            value, filename = args
            if filename in self.fs:
                self.cur.append("sE" + self.sfx(filename))
                return ("err", errno.EEXIST)
            self.fs[filename] = value
            self.cur.append(("s+" if value == str(p) else "s+!" + value) + self.sfx(filename))
            return ("ok", None)
        if name == "readlink":
            (filename,) = args
            if filename not in self.fs:
                self.cur.append(("RN" if un else "rN") + self.sfx(filename))
                return ("err", errno.ENOENT)
            v = self.fs[filename]
            self.cur.append((("Rown" if v == str(p) else "R" + v) if un else "r" + v) + self.sfx(filename))
            return ("ok", v)
        if name == "kill":
            pid, sig = args
            assert sig == 0
            if pid in self.dead:
                self.cur.append("kD")
                return ("err", errno.ESRCH)
            self.cur.append("kA")
            return ("ok", None)
        if name == "rmlink":
            (filename,) = args
            gone = filename not in self.fs
            if not gone and self.cas and not un and filename == NAME and self.fs[filename] != self.lastread.get(p):
                gone = True             # repair simulation: compare-and-remove refuses
            if gone:
                self.cur.append(("DN" if un else "dN") + self.sfx(filename))
                return ("err", errno.ENOENT)
            del self.fs[filename]
            self.cur.append(("D+" if un else "d+") + self.sfx(filename))
            return ("ok", None)
        if name == "rename":
            src, dst = args
            if src not in self.fs:
                self.cur.append("mvN" + self.sfx(src) + ">" + self.sfx(dst) + ":")
                return ("err", errno.ENOENT)
            content = self.fs.pop(src)
            self.fs[dst] = content          # POSIX rename: atomic, replaces the destination
            self.cur.append("mv+" + self.sfx(src) + ">" + self.sfx(dst) + ":" + content)
            return ("ok", None)
        raise AssertionError(name)

    def rename(self, src, dst):
        return self.prim("rename", (src, dst))

    # signatures of os.symlink / os.readlink / os.kill / os.remove
    def symlink(self, value, filename):
        return self.prim("symlink", (value, filename))

    def readlink(self, filename):
        return self.prim("readlink", (filename,))

    def kill(self, pid, sig):
        return self.prim("kill", (pid, sig))

    def rmlink(self, filename):
        return self.prim("rmlink", (filename,))

    # -- one process: the client program around the real lock()/unlock() ----------------------------------
    def program(self, p, lockfile):
        lk = self.make_obj(p, lockfile)
        if p in self.ustart:
            # a forked copy: unlock() on the inherited object, without ever having locked
            self.incall[p] = "unlock"
            try:
                lk.unlock()
                self.note(p, "=U")
            except ValueError:
                self.note(p, "=V")
            except OSError as e:
                if e.errno != errno.ENOENT:
                    raise
                self.note(p, "=O")
        while True:
            self.incall[p] = "lock"
            r = lk.lock()
            if r is True:
                self.note(p, "=T" + ("1" if lk.clean is True else "0" if lk.clean is False else "?"))
            elif r is False:
                self.note(p, "=F")
                continue
            else:
                self.note(p, "=?")
                continue
            self.holders.add(p)
            self.incall[p] = "unlock"
            released = False
            try:
                lk.unlock()
                self.note(p, "=U")
                released = True
            except ValueError:
                self.note(p, "=V")
            except OSError as e:
                if e.errno != errno.ENOENT:
                    raise
                self.note(p, "=O")
            self.holders.discard(p)
            if released and p in self.dbl:
                # a former holder releasing a second time
                try:
                    lk.unlock()
                    self.note(p, "=U")
                except ValueError:
                    self.note(p, "=V")
                except OSError as e:
                    if e.errno != errno.ENOENT:
                        raise
                    self.note(p, "=O")

    def advance(self, p, lockfile):
        """replay mode: process p performs its next primitive call"""
        self.curp = p
        self.pos[p] = 0
        self.did_new[p] = False
        self.holders.discard(p)
        self.cur = []
        try:
            self.program(p, lockfile)
        except _Suspend:
            pass

    def thread_body(self, p, lockfile):
        self.tl.pid = p
        try:
            self.program(p, lockfile)
        except _Abort:
            pass
        except BaseException as e:  # unexpected: report through the scheduler
            self.crash = e
            self.back.release()


def run_case(case, mode="replay") -> str:
    from twisted.python import lockfile

    w = World(case, mode)
    saved = {k: getattr(lockfile, k) for k in ("symlink", "readlink", "kill", "rmlink", "rename", "os", "_windows")}
    fake_os = types.SimpleNamespace(getpid=w.me, path=saved["os"].path)
    threads = []
    toks = []

    def foreign_open(path, *a, **kw):
        # the protocol as modelled talks to the outside world only through the four primitives; anything else
        # (e.g. another source of "is the owner alive?") is recorded in the trace and answered "no such file"
        w.cur.append("!open:" + str(path if not isinstance(path, bytes) else path.decode("latin1")) + ";")
        raise FileNotFoundError(errno.ENOENT, "No such file or directory")

    had_open = "open" in vars(lockfile)
    saved_open = vars(lockfile).get("open")
    try:
        lockfile.open = foreign_open
        lockfile.symlink, lockfile.readlink, lockfile.kill, lockfile.rmlink = w.symlink, w.readlink, w.kill, w.rmlink
        lockfile.rename = w.rename       # unused by the POSIX protocol as it is; scheduled like the others if used
        lockfile.os = fake_os
        lockfile._windows = False
        if mode == "threads":
            for p in range(w.n):
                t = threading.Thread(target=w.thread_body, args=(p, lockfile), daemon=True)
                threads.append(t)
                t.start()
                # wait until it blocks in front of its first primitive call
                if not w.back.acquire(timeout=10):
                    raise _Hang()
                if w.crash is not None:
                    raise w.crash
        if w.held is not None:
            # the holder acquires the free path before the schedule starts (its first primitive call)
            assert case["l0"] is None and w.held < w.n and w.held not in w.dead
            if mode == "threads":
                w.cur = []
                w.go[w.held].release()
                if not w.back.acquire(timeout=10):
                    raise _Hang()
                if w.crash is not None:
                    raise w.crash
            else:
                w.advance(w.held, lockfile)
            if w.holders != {w.held}:
                raise AssertionError("setup: the initial holder could not acquire a free path")
        for p in case["sched"]:
            if p >= w.n and p not in w.dead:
                raise ValueError("bad case: scheduled pid is neither a process nor dead")
            if p in w.dead:
                toks.append(f"{p}x")
                continue
            if mode == "threads":
                w.cur = []
                w.go[p].release()
                if not w.back.acquire(timeout=10):
                    raise _Hang()
                if w.crash is not None:
                    raise w.crash
            else:
                w.advance(p, lockfile)
            toks.append(str(p) + "".join(w.cur))
    finally:
        if mode == "threads":
            w.abort = True
            for s in w.go:
                try:
                    s.release()
                except RuntimeError:
                    pass
            for t in threads:
                t.join(timeout=2)
        for k, v in saved.items():
            setattr(lockfile, k, v)
        if had_open:
            lockfile.open = saved_open
        else:
            del lockfile.open
    link = w.fs.get(NAME)
    extra = sorted(k for k in w.fs if k != NAME)
    out = " ".join(toks) + " |L=" + ("None" if link is None else f"Some({link})")
    out += " H=[" + ",".join(map(str, sorted(w.holders))) + "]"
    if extra:
        out += " X=" + ",".join(w.sfx(k) for k in extra)
    return out


_COMPACT = {"x": "x", "s+=T1": "A", "s+=T0": "B", "sE": "e", "rN": "n", "kA=F": "a", "kD": "d", "d+": "m", "dN": "g",
            "Rown": "o", "RN=O": "O", "D+=U": "U", "DN=O": "Q"}
_EXPAND = {v: k for k, v in _COMPACT.items()}


def compact(verbose: str, sched) -> str:
    """verbose trace `0sE 0r2 ... |L=Some(0) H=[0,1]` -> the compact form the model prints (see coq/C50/Run.v)"""
    head, tail = verbose.split(" |")
    toks = head.split(" ") if head else []
    out = []
    for p, t in zip(sched, toks):
        b = t[len(str(p)):]
        if b in _COMPACT:
            out.append(_COMPACT[b])
        elif b[0] == "r" and b[1:].isdigit():
            out.append(b)
        elif b[0] == "R" and b.endswith("=V") and b[1:-2].isdigit():
            out.append("V" + b[1:-2])
        else:                       # anything the model has no letter for (other paths, odd returns): verbatim
            out.append("{" + b + "}")
    m = re.fullmatch(r"L=(None|Some\((.*)\)) H=\[(.*?)\](.*)", tail)
    return "".join(out) + "|" + ("-" if m.group(1) == "None" else m.group(2)) + "|" + m.group(3) + m.group(4)


def expand(obs: str, sched) -> str:
    head, link, rest = obs.split("|", 2)
    bodies = re.findall(r"\{[^}]*\}|[rV]\d+|[A-Za-z]", head)
    toks = []
    for p, b in zip(sched, bodies):
        if b[0] == "{":
            v = b[1:-1]
        elif b[0] == "r":
            v = b
        elif b[0] == "V":
            v = "R" + b[1:] + "=V"
        else:
            v = _EXPAND.get(b, "?" + b)
        toks.append(f"{p}{v}")
    hold, _, more = rest.partition(" ")
    return (" ".join(toks) + " |L=" + ("None" if link == "-" else f"Some({link})") + " H=[" + hold + "]"
            + (" " + more if more else ""))


def impl(case) -> str:
    if case.get("kind") == "realproc":
        return realproc_impl(case)
    return compact(run_case(case, "replay"), case["sched"])


# --------------------------------------------------------------------------------------------------
# real processes, real filesystem, real pids (no patching at all): {"kind": "realproc", "scenario": ...}
#   "thread-holder"   the holder is a live process whose MAIN thread has exited (raw exit syscall) while a worker
#                     thread holds the lock: kill(pid,0) succeeds, /proc/<pid>/stat shows the leader as 'Z'
#   "plain-holder"    an ordinary live single-threaded holder
#   "dead-holder"     the holder exits without unlocking and is reaped: a stale lock, to be broken
# The contender is this process calling the real lock().  Not modelled in Coq (oracle only).

_HOLDER = r"""
import ctypes, os, platform, sys, threading
from twisted.python import lockfile
name, scenario = sys.argv[1], sys.argv[2]
def say(b):
    os.write(1, b)
def work():
    fl = lockfile.FilesystemLock(name)
    if not fl.lock():
        say(b"X"); os._exit(2)
    say(b"L")
    if scenario == "dead-holder":
        os._exit(0)
    os.read(0, 2)
    try:
        fl.unlock()
    except BaseException:
        say(b"E")
    else:
        say(b"U")
    os._exit(0)
if scenario == "thread-holder":
    nr = {"x86_64": 60, "aarch64": 93, "i686": 1, "i386": 1, "armv7l": 1}.get(platform.machine())
    if nr is None:
        say(b"S"); os._exit(0)
    threading.Thread(target=work).start()
    ctypes.CDLL(None, use_errno=True).syscall(nr, 0)      # ends the calling (main) thread only
    os._exit(99)
work()
"""


def realproc_impl(case) -> str:
    import shutil
    import subprocess
    import sys
    import tempfile
    import time

    from twisted.python import lockfile

    if not sys.platform.startswith("linux"):
        return "SKIP"
    d = tempfile.mkdtemp(prefix="verif_c50_")
    name = os.path.join(d, "the.lock")
    sc = case["scenario"]
    h = subprocess.Popen([sys.executable, "-c", _HOLDER, name, sc], stdin=subprocess.PIPE, stdout=subprocess.PIPE,
                         env=dict(os.environ))
    out = []
    try:
        first = os.read(h.stdout.fileno(), 1)
        if first == b"S":
            return "SKIP"
        if first != b"L":
            return "setup-failed:" + first.decode("latin1")
        if sc == "dead-holder":
            h.wait(timeout=10)
            alive = False
        else:
            time.sleep(0.3)                       # let the holder's main thread finish exiting
            try:
                os.kill(h.pid, 0)
                alive = h.poll() is None
            except OSError:
                alive = False
        out.append("alive=" + ("T" if alive else "F"))
        if sc == "thread-holder":
            try:
                with open(f"/proc/{h.pid}/stat", "rb") as f:
                    out.append("leader=" + f.read().rpartition(b")")[2].split()[0].decode())
            except OSError:
                out.append("leader=?")
        contender = lockfile.FilesystemLock(name)
        got = contender.lock()
        out.append("got=" + ("T" if got else "F") + ("" if not got else "1" if contender.clean else "0"))
        try:
            owner = os.readlink(name)
        except OSError:
            owner = "-"
        out.append("link=" + ("holder" if owner == str(h.pid) else "contender" if owner == str(os.getpid()) else owner))
        if sc != "dead-holder":
            os.write(h.stdin.fileno(), b"go")
            res = os.read(h.stdout.fileno(), 1)
            out.append("release=" + (res.decode("latin1") or "?"))
            h.wait(timeout=10)
            if not got:
                again = contender.lock()
                out.append("then=" + ("T" if again else "F"))
                if again:
                    contender.unlock()
        if got:
            try:
                contender.unlock()
                out.append("unlock=ok")
            except (ValueError, OSError) as e:
                out.append("unlock=" + type(e).__name__)
    finally:
        try:
            h.kill()
        except OSError:
            pass
        try:
            h.wait(timeout=5)
        except Exception:
            pass
        for s in (h.stdin, h.stdout):
            try:
                s.close()
            except Exception:
                pass
        shutil.rmtree(d, ignore_errors=True)
    return sc + " " + " ".join(out)


def realproc_oracle(case, obs):
    if obs == "SKIP":
        return None
    if obs.startswith("setup-failed"):
        return Failure(case, "the holder process could not acquire a free lock path: " + obs, "realproc-setup")
    f = dict(x.split("=", 1) for x in obs.split(" ")[1:])
    sc = case["scenario"]
    if sc == "dead-holder":
        if f.get("got") != "T0" or f.get("link") != "contender" or f.get("unlock") != "ok":
            return Failure(case, "a lock left by a dead (reaped) process was not acquired with clean=False and released: "
                           + obs, "realproc-stale-not-acquired")
        return None
    if f.get("alive") != "T":
        return Failure(case, "harness: the holder process is not alive: " + obs, "realproc-setup")
    if f.get("got", "").startswith("T"):
        return Failure(case, "lock() returned True in this process while a LIVE process (kill(pid,0) succeeds"
                       + (", main thread exited, a worker thread holds the lock" if sc == "thread-holder" else "")
                       + ") still holds the lock: two holders -- " + obs, "realproc-two-live-holders:" + sc)
    if f.get("link") != "holder":
        return Failure(case, "the live holder's link was disturbed by a refused lock(): " + obs, "realproc-link-disturbed")
    if f.get("release") != "U":
        return Failure(case, "the live holder could not release its lock: " + obs, "realproc-release")
    if f.get("then") != "T":
        return Failure(case, "the lock was not acquirable after the holder released it: " + obs, "realproc-not-reacquired")
    return None


# --------------------------------------------------------------------------------------------------
# the property, evaluated on the implementation's trace with independent bookkeeping


def oracle(case, obs):
    if case.get("kind") == "realproc":
        return realproc_oracle(case, obs)
    dead = set(case["dead"])
    obs = expand(obs, case["sched"])
    head = obs.split(" |")[0]
    toks = head.split(" ") if head else []
    if len(toks) != len(case["sched"]):
        return Failure(case, "malformed trace", "trace")
    link = None if case["l0"] is None else str(case["l0"])   # content of the lock path (from the fs effect log)
    holders = []
    held = case.get("held")
    if held is not None:
        link, holders = str(held), [held]
    lastread = {}
    robbed = None            # first step at which a stale-lock break removed a link naming a live pid
    call = {}                # pid -> dict(start_free: bool, solo: bool, steps: int, broke: bool) for the open lock() call
    inunlock = set(case.get("ustart") or []) | ({held} if held is not None else set())
    last_mover = None

    def is_free(content):
        return content is None or (content.isdigit() and int(content) in dead)

    def fail(k, why, tag):
        if robbed is not None:
            return Failure(case, f"step {k} ({toks[k]}): {why} -- after step {robbed} ({toks[robbed]}) where the "
                           f"rmlink of lock()'s stale-lock path removed a link that by then named a live process",
                           KNOWN_TAG)
        return Failure(case, f"step {k} ({toks[k]}): {why}", tag)

    for k, (p, t) in enumerate(zip(case["sched"], toks)):
        body = t[len(str(p)):]
        if body == "x":
            continue
        if "!open:" in body:
            m = re.search(r"!open:([^;]*);", body)
            return Failure(case, f"step {k} ({toks[k]}): lock()/unlock() consulted the outside world through something other "
                           f"than symlink/readlink/kill/rmlink: open({m.group(1)!r}) -- a source of the 'owner is dead' verdict "
                           "outside the modelled protocol (kill(pid,0) = ESRCH); see the real-process cases", "foreign-io")
        left, _, r = body.partition("=")
        ret = "=" + r if r else ""
        mv = re.match(r"mv\+([^>]*)>([^:]*):(.*)$", left)
        if mv:
            # a rename (not used by the protocol as it is): the lock path loses / gains a link
            if mv.group(1) == "":
                link = None
            if mv.group(2) == "":
                link = mv.group(3)
            left = "@mv"
        # a primitive on another path (a repaired protocol may use guard files) has no effect on the lock path
        prim = "" if "@" in left or left.startswith("mvN") else left
        # --- progress bookkeeping for lock() calls
        if p not in inunlock:
            c = call.get(p)
            if c is None:
                # "running alone": nobody else is in the middle of a lock()/unlock() call when it starts ...
                quiet = not any(q != p for q in call)
                c = call[p] = {"free": is_free(link) and quiet, "solo": True, "steps": 0, "broke": False}
            elif last_mover is not None and last_mover != p:
                c["solo"] = False
            c["steps"] += 1
        last_mover = p
        # --- effects on the lock path
        if prim.startswith("s+!"):
            return fail(k, f"lock() of process {p} created the link with content {prim[3:]}, not its own pid",
                        "link-names-other-pid")
        if prim == "s+":
            link = str(p)
        elif prim.startswith("r") and prim != "rN":
            lastread[p] = prim[1:]
        elif prim == "d+":
            if link is not None and not is_free(link) and robbed is None:
                if is_free(lastread.get(p)) and lastread.get(p) is not None:
                    robbed = k      # it had found a dead owner; the link changed hands before its rmlink
                else:
                    return fail(k, f"lock() removed the link of live process {link} without having found a dead "
                                "owner", "break-of-live-lock")
            call.setdefault(p, {"free": False, "solo": False, "steps": 0, "broke": False})["broke"] = True
            link = None
        elif prim == "D+":
            link = None
        # --- call returns
        blank = {"free": False, "solo": False, "steps": 0, "broke": False}
        if ret.startswith("=T"):
            c = call.pop(p, None) or blank
            want = "0" if c["broke"] else "1"
            holders.append(p)
            inunlock.add(p)
            if len(holders) > 1:
                return fail(k, f"processes {holders} hold the lock at the same time", "mutex")
            if link != str(p):
                return fail(k, f"lock() returned True but the link content is {link}", "mutex-link")
            if ret[2:] != want:
                return fail(k, f"lock() returned True with clean={ret[2:]} but "
                            f"{'it broke a stale lock' if c['broke'] else 'it broke no lock'}", "clean-flag")
        elif ret == "=F":
            c = call.pop(p, None) or blank
            inunlock.discard(p)
            if prim != "kA":
                return fail(k, "lock() returned False without having seen a live owner", "refused-without-live-owner")
            if c["free"] and c["solo"]:
                return fail(k, "a lock() call running alone (nobody else inside a call) on a free/stale path was refused", "solo-refused")
        elif ret in ("=U", "=V", "=O"):
            was_holder = p in holders
            if was_holder:
                holders.remove(p)
            inunlock.discard(p)
            call.pop(p, None)
            if was_holder and ret == "=U" and p in (case.get("dbl") or []):
                inunlock.add(p)         # its next call is a second unlock()
            if not was_holder:
                # unlock() by a process that never acquired (inherited object): must be refused, link untouched
                if ret == "=U":
                    return fail(k, f"unlock() by process {p}, which does not hold the lock, succeeded and removed "
                                "the link" + (f" of holder {holders[0]}" if holders else ""), "unlock-by-non-owner")
            else:
                if ret != "=U":
                    return fail(k, "a holder's unlock() raised " + ("ValueError" if ret == "=V" else "OSError(ENOENT)"),
                                "release")
                if link is not None:
                    return fail(k, "unlock() returned but the link is still there", "release-link")
        elif ret == "=?":
            return fail(k, "lock() returned neither True nor False", "return-type")
        elif ret:
            # a trace shape the protocol as modelled cannot produce (several returns in one step ...): the
            # correspondence reports it; the bookkeeping for p restarts
            call.pop(p, None)
            inunlock.discard(p)
        else:
            c = call.get(p)
            if c is not None and c["free"] and c["solo"] and c["steps"] >= SOLO_BOUND:
                return fail(k, "a lock() call running alone (nobody else inside a call) on a free/stale path has not returned after 10 "
                            "primitive calls", "livelock")
            if len(holders) > 1:
                return fail(k, f"processes {holders} hold the lock at the same time", "mutex")
    return None


def in_known_class(case) -> bool:
    if case.get("kind") == "realproc":
        return False
    """the input class whose handling a repair of the finding changes: a stale link at the start (the finding
    itself needs two live contenders, but a repaired stale-lock path takes other steps for one contender too)"""
    return case["l0"] is not None and case["l0"] in case["dead"]


def model_equal(case, a, b):
    if a == b:
        return True
    # inside the known-finding class a repaired implementation may take other steps: accept any behaviour
    # on which the property itself holds
    return in_known_class(case) and not a.startswith(("CRASH", "HANG")) and oracle(case, a) is None


# --------------------------------------------------------------------------------------------------
# cases

F21 = {"n": 2, "dead": [2], "l0": 2, "sched": [0, 0, 0, 1, 1, 1, 1, 1, 0, 0, 1, 0], "cas": False}


def corpus():
    return [
        {"kind": "realproc", "scenario": "thread-holder"},
        {"kind": "realproc", "scenario": "plain-holder"},
        {"kind": "realproc", "scenario": "dead-holder"},
        # daemonisation: object built by the launcher (pid 2, exited), locked by the surviving child 0; 1 contends
        {"n": 2, "dead": [2], "l0": None, "sched": [0, 1, 1, 1, 1, 1, 0, 0], "cas": False, "made_by": {"0": 2}},
        # 0 acquires and releases twice; 1 acquires in between; 2 contends
        {"n": 3, "dead": [], "l0": None, "sched": [0, 0, 0, 1, 0, 2, 2, 2, 1, 1, 0], "cas": False, "dbl": [0]},
        # pre-forking server: 0 holds, forked worker 1 calls unlock() on the inherited object, 2 contends
        {"n": 3, "dead": [], "l0": None, "sched": [1, 2, 2, 2, 0, 0, 2], "cas": False, "held": 0, "ustart": [1]},
        F21,
        {"n": 2, "dead": [2], "l0": 2, "sched": [0, 0, 0, 1, 1, 1, 1, 1, 0, 0], "cas": False},
        {**F21, "cas": True},
        {"n": 1, "dead": [3], "l0": 3, "sched": [0] * 9, "cas": False},
        {"n": 2, "dead": [], "l0": None, "sched": [0, 1, 1, 1, 0, 0, 1, 1, 0, 1], "cas": False},
        {"n": 3, "dead": [1, 7], "l0": 7, "sched": [0, 1, 2, 0, 2, 0, 2, 0, 2, 2, 0, 0, 1, 2, 2], "cas": False},
        {"n": 2, "dead": [], "l0": 5, "sched": [0, 1, 0, 1, 0, 1, 0, 1], "cas": False},
    ]


def gen(rng, tier):
    cases = []
    quick = tier == "quick"

    def words(n, k):
        return (list(w) for w in itertools.product(range(n), repeat=k))

    # exhaustive: 2 processes, every interleaving of the first K primitive calls; free path, stale link,
    # link of a live outsider
    k2 = 10 if quick else 12
    for l0, dead in ((2, [2]), (None, []), (5, [])):
        k = k2 if l0 == 2 or not quick else k2 - 1
        for w in words(2, k):
            cases.append({"n": 2, "dead": dead, "l0": l0, "sched": w, "cas": False})
    # 3 processes
    k3 = 6 if quick else 8
    for l0, dead in ((None, []), (3, [3])):
        for w in words(3, k3):
            cases.append({"n": 3, "dead": dead, "l0": l0, "sched": w, "cas": False})
    # repair simulation (atomic compare-and-remove in the stale path), stale link
    sim = list(words(2, k2))
    if quick:
        sim = rng.sample(sim, 200)
    for w in sim:
        cases.append({"n": 2, "dead": [2], "l0": 2, "sched": w, "cas": True})
    # lock objects handed across fork():
    #  - built by a launcher that has exited (dead pid 2) or by the other live process, then used: every interleaving
    kf = 8 if quick else 10
    for made_by in ({"0": 2}, {"0": 1, "1": 0}):
        for w in words(2, kf):
            cases.append({"n": 2, "dead": [2], "l0": None, "sched": w, "cas": False, "made_by": made_by})
    #  - process 0 holds; process 1 is a forked copy that calls unlock() on the inherited locked object; 2 contends
    for w in words(3, 6 if quick else 8):
        cases.append({"n": 3, "dead": [], "l0": None, "sched": w, "cas": False, "held": 0, "ustart": [1]})
    for w in words(2, kf):
        cases.append({"n": 2, "dead": [], "l0": None, "sched": w, "cas": False, "held": 0, "ustart": [1],
                      "made_by": {"1": 0}})
    #  - unlock() by a process that does not hold: (a) 0 holds, former holder... 1 releases twice while 2 contends;
    #    (b) 0 holds, 1 never held and calls unlock(), 2 contends -- every interleaving
    for w in words(3, 6 if quick else 8):
        if 1 in w:
            cases.append({"n": 3, "dead": [], "l0": None, "sched": w, "cas": False, "dbl": [0, 1]})
    for w in words(2, kf):
        cases.append({"n": 2, "dead": [], "l0": None, "sched": w, "cas": False, "dbl": [0]})
    # random long schedules: 2-5 processes, bursts, dead pids among the scheduled ones, any initial link
    for _ in range(300 if quick else 5000):
        n = rng.randrange(1, 6)
        dead = sorted(rng.sample(range(n + 3), rng.randrange(0, 3)))
        l0 = rng.choice([None] + list(range(n + 3)))
        sched = []
        for _ in range(rng.randrange(3, 14)):
            p = rng.choice(list(range(n)) + dead)
            sched += [p] * rng.choice([1, 1, 1, 2, 3, 4, 5, 7])
        c = {"n": n, "dead": dead, "l0": l0, "sched": sched[:70], "cas": rng.random() < 0.15}
        live = [p for p in range(n) if p not in dead]
        if rng.random() < 0.35 and live:
            if rng.random() < 0.6:
                c["l0"], c["held"] = None, rng.choice(live)
            others = [p for p in live if p != c.get("held") and p != c["l0"]]
            c["ustart"] = sorted(rng.sample(others, rng.randrange(0, len(others) + 1)))
            c["made_by"] = {str(p): rng.randrange(n + 3) for p in live if rng.random() < 0.4}
        if rng.random() < 0.3 and live:
            c["dbl"] = sorted(rng.sample(live, rng.randrange(1, len(live) + 1)))
        cases.append(c)
    return cases


def to_coq(case):
    if case.get("kind") == "realproc":
        return None
    nat = lambda v: f"{v}%nat"
    held = case.get("held")
    return (f"({coq_list(map(nat, case['dead']), 'nat')}, {coq_bool(bool(case.get('cas')))}, {nat(case['n'])}, "
            f"{coq_option(None if case['l0'] is None else nat(case['l0']), 'nat')}, "
            f"{coq_option(None if held is None else nat(held), 'nat')}, "
            f"{coq_list(map(nat, case.get('ustart') or []), 'nat')}, "
            f"{coq_list(map(nat, case.get('dbl') or []), 'nat')}, "
            f"{coq_list(map(nat, case['sched']), 'nat')})")


def shrink(case):
    if case.get("kind") == "realproc":
        return
    s = case["sched"]
    for i in range(len(s)):
        yield {**case, "sched": s[:i] + s[i + 1:]}


def _hist(c, o):
    if c.get("kind") == "realproc":
        return "real processes: " + c["scenario"]
    l0 = "free" if c["l0"] is None else "stale" if c["l0"] in c["dead"] else "live-link"
    fork = " fork" if c.get("held") is not None or c.get("ustart") or c.get("made_by") else ""
    fork += " double-release" if c.get("dbl") else ""
    return f"n={c['n']} {l0}{' cas-sim' if c.get('cas') else ''}{fork}"


def _describe(c):
    if c.get("kind") == "realproc":
        return c
    try:
        return {**c, "trace": expand(impl(c), c["sched"])}
    except Exception as e:  # evidence text only
        return {**c, "trace": "raises " + type(e).__name__}


def extra(ctx):
    """cross-check of the two stepping mechanisms on the real code: corpus + a sample of generated cases"""
    import random

    rng = random.Random(ctx.seed + 50)
    pool = gen(rng, "quick")
    sample = [c for c in corpus() if c.get("kind") != "realproc"] + rng.sample(pool, 150 if ctx.tier == "quick" else 1500)
    bad = [c for c in sample if run_case(c, "threads") != run_case(c, "replay")]
    if bad:
        raise AssertionError(f"thread-stepped and replay-stepped runs of the real code differ on {bad[0]}")
    return {"thread_mode_cross_checked_cases": len(sample), "thread_mode_disagreements": 0}


SPEC = Spec(
    pid="C50",
    gen=gen, impl=impl, oracle=oracle, corpus=corpus, shrink=shrink,
    coq_header="From C50 Require Import Model Run.",
    coq_fn="run_show",
    to_coq=to_coq,
    model_equal=model_equal,
    extra=extra,
    nontrivial=lambda c, o: ("A" in o or "B" in o) and "e" in o,
    describe=lambda c: _describe(c),
    histogram=_hist,
    case_timeout=20.0,
    rule="every interleaving (word over the pids) of the first 10 (quick) / 12 (thorough) primitive calls of 2 "
         "processes each running `while True: if lock(): unlock()`, for a stale link, and of the first 9 / 12 for a "
         "free path and a live outsider's link; the same for 3 processes and 6 / 8 calls (free, stale); the stale 2-process words again "
         "under the repair simulation (200 sampled in quick); lock objects handed across fork -- built under another "
         "(dead or live) pid and then used (2 processes, all words of length 8 / 10), an initial holder plus a forked copy "
         "that calls unlock() on the inherited locked object plus a contender (3 processes, length 6 / 8; 2 processes, 8 / 10); "
         "random schedules of up to 70 steps for 1-5 processes "
         "with dead pids; non-trivial = some lock() returned True and some symlink met EEXIST; distinct by "
         "(case, observation)",
    trusted=["hand-written model coq/C50/Model.v (tied by this correspondence run only)",
             "harness file map: symlink fails with EEXIST iff the name exists, readlink/rmlink fail with ENOENT iff "
             "it does not, each primitive call is atomic (POSIX symlink/readlink/unlink on one directory entry); "
             "kill(pid,0) raises ESRCH exactly for the case's dead pids",
             "thread gate: a process thread runs only between the grant of its step and its next primitive call"],
    assumptions=["fork is represented by its effect on the lock object: which pid os.getpid() returned when the object was "
                 "built, and an inherited copy with locked=True whose first call is unlock()",
                 "a pid's liveness does not change during a run (no process dies or is born mid-run; no pid reuse)",
                 "only EEXIST / ENOENT / ESRCH errors occur (no EPERM from kill, no EACCES, no I/O errors)",
                 "POSIX branch of lockfile.py (the Windows emulation of symlink by mkdir+rename is not modelled)"],
)
