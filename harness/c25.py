"""C25 — static.File Range requests return exactly the requested bytes.

H-tie: coq/C25/Model.v (hand-written model of File._parseRangeHeader/_rangeToOffsetAndSize/_doSingleRangeRequest/
_doMultipleRangeRequest/makeProducer/render_GET and the bytes the range producers write) evaluated by
vm_compute against the real static.File rendering a real temporary file into a DummyRequest.
Oracle (independent of the model): RFC 9110 section 14.1.2 computed directly in Python from the header text,
with an independent multipart/byteranges splitter.

case = {"size": int, "head": bool, "range": hex | None}; the file's byte i is (i*7+3) % 251;
      optional "disk": int - the resource is a File SUBCLASS whose getFileSize() / openForReading() serve a representation of
      "size" bytes that is not the file on disk (which has "disk" bytes): envelope-stripping, gunzip-on-the-fly, ...
  or  {"seq": [{"size": int, "v": int, "head": bool, "range": hex | None}, ...]}: several requests against ONE static.File
      object, the file rewritten (byte i = (i*7+3+v) % 251) before each.
"""
from __future__ import annotations

import atexit
import os
import re
import shutil
import tempfile

from harness.common import Failure, Spec, coq_bool
from harness.c20 import digest

_DIR = None
_FILES: dict[int, str] = {}


def content(n: int, v: int = 0) -> bytes:
    return bytes((i * 7 + 3 + v) % 251 for i in range(n))


def steps_of(case):
    return case["seq"] if "seq" in case else [dict(case, v=0)]


def _path(n: int) -> str:
    global _DIR
    if _DIR is None:
        _DIR = tempfile.mkdtemp(prefix="verif_c25_")
        atexit.register(shutil.rmtree, _DIR, True)
    if n not in _FILES:
        d = os.path.join(_DIR, str(n))
        os.mkdir(d)
        p = os.path.join(d, "data.txt")
        with open(p, "wb") as f:
            f.write(content(n))
        _FILES[n] = p
    return _FILES[n]


class ProducerStuck(Exception):
    pass


def _serve(case, f=None):
    """-> (code, content-range|None, content-length|None, content-type|None, body) with the boundary rewritten to B"""
    from twisted.web import static
    from twisted.web.test.requesthelper import DummyRequest

    limit = case["size"] // 4096 + 64

    class Req(DummyRequest):
        """DummyRequest's pull loop, bounded: a producer that never finishes is an observation, not a hang"""

        def registerProducer(self, prod, s):
            self.go = 1
            n = 0
            while self.go:
                prod.resumeProducing()
                n += 1
                if n > limit:
                    raise ProducerStuck()

    if f is None and case.get("disk") is not None:
        import io

        rep = content(case["size"], case.get("v", 0))

        class Represented(static.File):
            """the served representation is not the bytes on disk: both hooks File documents for that are overridden"""

            def getFileSize(self):
                return len(rep)

            def openForReading(self):
                return io.BytesIO(rep)

        f = Represented(_path(case["disk"]))
    if f is None:
        f = static.File(_path(case["size"]))
    req = Req([b""])
    req.method = b"HEAD" if case["head"] else b"GET"
    if case["range"] is not None:
        req.requestHeaders.addRawHeader(b"range", bytes.fromhex(case["range"]))
    ret = f.render(req)
    one = lambda name: (req.responseHeaders.getRawHeaders(name) or [None])[-1]
    code = 200 if req.responseCode is None else req.responseCode
    ctype, body, clen = one(b"content-type"), b"".join(req.written), one(b"content-length")
    if isinstance(ret, bytes):
        body += ret                      # a resource may return its (here: empty) body; the server then finishes
    elif not req.finished:
        raise AssertionError("response not finished")
    m = re.fullmatch(rb'multipart/byteranges; boundary="([0-9a-f]+)"', ctype or b"")
    if m:
        # the boundary is time- and pid-dependent: rewrite it to "B" (and the declared length accordingly)
        real = m.group(1)
        k = body.count(b"--" + real)
        ctype = ctype.replace(real, b"B")
        body = body.replace(b"--" + real, b"--B")
        if clen is not None and re.fullmatch(rb"[0-9]+", clen):
            clen = b"%d" % (int(clen) - k * (len(real) - 1))
    return code, one(b"content-range"), clen, ctype, body


_HANGS = [0]


def _impl_one(case, f=None) -> str:
    # a producer that spins inside resumeProducing must become a failure quickly: own limit (3 s; once three
    # cases have hung, 0.25 s) instead of common's 10 s per case
    from harness.common import CaseTimeout, time_limit

    try:
        with time_limit(3.0 if _HANGS[0] < 3 else 0.25):
            code, cr, cl, ct, body = _serve(case, f)
    except CaseTimeout:
        _HANGS[0] += 1
        return "HANG"
    except (OSError, ValueError, OverflowError, ProducerStuck) as e:
        return "EXC:" + type(e).__name__
    h = lambda b: "-" if b is None else b.hex()
    return f"{code}|{h(cr)}|{h(cl)}|{h(ct)}|{digest(body)}#{body.hex() if len(body) <= 3000 else ''}"


_SEQ = [0]


def impl(case) -> str:
    if "seq" not in case:
        return _impl_one(case)
    from twisted.web import static

    # ONE File object for the whole history; the file is rewritten before every request
    _path(0)
    _SEQ[0] += 1
    d = os.path.join(_DIR, f"seq{_SEQ[0]}")
    os.mkdir(d)
    path = os.path.join(d, "data.txt")
    f, out = None, []
    for st in case["seq"]:
        with open(path, "wb") as fh:
            fh.write(content(st["size"], st["v"]))
        if f is None:
            f = static.File(path)
        out.append(_impl_one(st, f))
    shutil.rmtree(d, True)
    return ";;".join(out)


def model_equal(case, impl_obs, model_obs):
    return ";;".join(o.split("#")[0] for o in impl_obs.split(";;")) == model_obs


# --------------------------------------------------------------------------------------------------
# the property from RFC 9110 14.1 (independent of the model)

_WS = rb"[\t\n\x0b\x0c\r ]*"
_ELEM = re.compile(rb"(?:([0-9]+)[ \t]*)?-(?:[ \t]*([0-9]+))?")


def rfc_ranges(header: bytes):
    """-> list of (first|None, last|None) or None if the header is not a valid bytes range-set.
    Grammar: RFC 9110 14.1.1 ranges-specifier with unit "bytes"; tolerated (and exercised by the pinned suite):
    blanks around the unit, around list elements, and SP/HTAB between the numbers and "-"."""
    m = re.fullmatch(_WS + rb"bytes" + _WS + rb"=(.*)", header, flags=re.S)
    if not m:
        return None
    out = []
    for el in m.group(1).split(b","):
        el = el.strip(b"\t\n\x0b\x0c\r ")
        if not el:
            continue
        e = _ELEM.fullmatch(el)
        if not e or (e.group(1) is None and e.group(2) is None):
            return None
        a = None if e.group(1) is None else int(e.group(1))
        b = None if e.group(2) is None else int(e.group(2))
        if a is not None and b is not None and a > b:
            return None
        out.append((a, b))
    return out or None


def rfc_select(size, a, b):
    """inclusive (first, last) or None when unsatisfiable"""
    if a is None:
        return (max(0, size - b), size - 1) if b > 0 and size > 0 else None
    if a >= size:
        return None
    return (a, size - 1 if b is None else min(b, size - 1))


def _classify(case, hdr, default):
    """name the input class (known findings are matched by this)"""
    if hdr is None:
        return default
    rs = rfc_ranges(hdr)
    if rs is None:
        try:
            hdr.decode()
        except UnicodeDecodeError:
            return "malformed-header-not-utf8"
        if re.search(rb"[+_]", hdr) or re.search(rb"-[ \t]*-", hdr) or re.search(rb"[0-9][\n\x0b\x0c\r]|[\n\x0b\x0c\r][0-9]", hdr):
            return "lenient-integer-syntax"
        if re.fullmatch(_WS + rb"bytes" + _WS + rb"=[\s,]*", hdr, flags=re.S):
            return "empty-range-set"
        return default
    if any(a is None and b > case["size"] for a, b in rs):
        return "suffix-longer-than-file"
    if len(rs) > 1 and all(rfc_select(case["size"], a, b) is None for a, b in rs):
        return "multi-range-none-satisfiable"
    if default == "internal-error" and len(rs) > 1 and case["size"] >= 60000:
        return "multi-range-buffer-boundary"
    return default


def oracle(case, obs):
    if "seq" not in case:
        return _oracle_one(case, obs)
    parts = obs.split(";;")
    if len(parts) != len(case["seq"]):
        return Failure(case, "malformed observation", "log")
    for k, (st, o) in enumerate(zip(case["seq"], parts)):
        if o == "HANG":
            return Failure(case, f"request {k} (file now {st['size']} bytes): the response never finished", "stale-file-after-rewrite" if k else "hang")
        f = _oracle_one(st, o)
        if f is not None:
            # the same File object answered earlier requests when the file had another length / other bytes
            changed = k > 0 and any((p["size"], p["v"]) != (st["size"], st["v"]) for p in case["seq"][:k])
            return Failure(case, f"request {k} on the same File object (file rewritten to {st['size']} bytes, variant {st['v']}): "
                                 + f.reason, "stale-file-after-rewrite" if changed else f.tag)
    return None


def _oracle_one(case, obs):
    size, data = case["size"], content(case["size"], case.get("v", 0))
    hdr = None if case["range"] is None else bytes.fromhex(case["range"])
    if obs.startswith("EXC:"):
        return Failure(case, f"internal error {obs} for Range {hdr!r} on a {size}-byte file", _classify(case, hdr, "internal-error"))
    head, _, bodyhex = obs.partition("#")
    code, cr, cl, ct, dg = head.split("|")
    code = int(code)
    un = lambda h: None if h == "-" else bytes.fromhex(h)
    cr, cl, ct = un(cr), un(cl), un(ct)
    blen = int(dg.split("~")[0])
    body = bytes.fromhex(bodyhex) if blen <= 3000 else None
    if body is None:
        body = _serve(dict(case, v=0))[4]          # large bodies (single-request cases only) are not carried in the string
    fail = lambda kind, msg: Failure(case, f"Range {hdr!r}, size {size}: {msg}", _classify(case, hdr, kind))
    if case["head"]:
        if code != 200 or body or cl != str(size).encode() or cr is not None:
            return fail("head", f"HEAD must give 200, the file's Content-Length and no body; got {code} {cl} {cr} {len(body)}")
        return None
    rs = None if hdr is None else rfc_ranges(hdr)
    if rs is None:
        if code != 200 or body != data or cl != str(size).encode() or cr is not None:
            return fail("whole-content", f"absent/malformed Range must give 200 and the whole content; got {code} cl={cl} cr={cr} len={len(body)}")
        return None
    sel = [rfc_select(size, a, b) for a, b in rs]
    sat = [s for s in sel if s is not None]
    if cl is None or not re.fullmatch(rb"[0-9]+", cl) or int(cl) != len(body):
        return fail("content-length", f"Content-Length {cl} but {len(body)} body bytes")
    if not sat:
        if code != 416 or body or cr != b"bytes */%d" % size:
            return fail("unsatisfiable", f"unsatisfiable set must give 416, bytes */{size}, empty body; got {code} {cr} {len(body)}")
        return None
    if code != 206:
        return fail("status", f"satisfiable range set {rs} must give 206, got {code}")
    if len(rs) == 1:
        f, l = sat[0]
        if cr != b"bytes %d-%d/%d" % (f, l, size):
            return fail("content-range", f"Content-Range {cr}, expected bytes {f}-{l}/{size}")
        if body != data[f:l + 1]:
            return fail("body", f"body is not bytes {f}-{l}")
        return None
    # multipart: split independently
    if ct != b'multipart/byteranges; boundary="B"':
        return fail("multipart-type", f"Content-Type {ct}")
    pieces = body.split(b"\r\n--B")
    if pieces[0] != b"" or pieces[-1] != b"--\r\n" or len(pieces) != len(sat) + 2:
        return fail("multipart-structure", f"{len(pieces) - 2} parts for {len(sat)} satisfiable ranges (or bad delimiters)")
    for (f, l), piece in zip(sat, pieces[1:-1]):
        m = re.fullmatch(rb"\r\nContent-type: ([^\r\n]*)\r\nContent-range: ([^\r\n]*)\r\n\r\n(.*)", piece, flags=re.S)
        if not m:
            return fail("multipart-part", "part without the two headers")
        if m.group(2) != b"bytes %d-%d/%d" % (f, l, size):
            return fail("content-range", f"part Content-range {m.group(2)}, expected bytes {f}-{l}/{size}")
        if m.group(3) != data[f:l + 1]:
            return fail("body", f"part body is not bytes {f}-{l}")
    return None


# --------------------------------------------------------------------------------------------------


def to_coq(case):
    sts = steps_of(case)
    if any(st["size"] > 3000 for st in sts):
        return None

    def one(st):
        r = "(@None (list N))" if st["range"] is None else \
            ("(Some (@nil N))" if st["range"] == "" else f'(Some (hx "{st["range"]}"))')
        return f"({st['size']}%nat, {st['v']}%N, {coq_bool(st['head'])}, {r})"

    return "[" + "; ".join(one(st) for st in sts) + "]"


def _num(rng, size):
    return rng.choice([0, 0, 1, max(size - 1, 0), size, size + 1, size // 2, size // 2 + 1, 2 * size, size + 100,
                       rng.randrange(0, size + 3), 10 ** 20])


def _spec(rng, size, messy):
    r = rng.random()
    ws = lambda: rng.choice([b"", b"", b"", b" ", b"\t", b"  "]) if messy else b""
    if r < 0.3:
        s = b"-" + ws() + str(_num(rng, size)).encode()
    elif r < 0.5:
        s = str(_num(rng, size)).encode() + ws() + b"-"
    else:
        a, b = _num(rng, size), _num(rng, size)
        if a > b and rng.random() < 0.85:
            a, b = b, a
        s = str(a).encode() + ws() + b"-" + ws() + str(b).encode()
    return s


MALFORMED = [b"", b"bytes", b"bytes=", b"bytes=,", b"bytes= , ,", b"bytes=-", b"bytes=a-", b"bytes=-a", b"bytes=1-2-3", b"bytes=+1-2",
             b"bytes=1-+2", b"bytes=-+3", b"bytes=1_0-", b"bytes=0-1_0", b"bytes=--5", b"bytes=-5-", b"bytes=5--6", b"Bytes=0-1",
             b"BYTES=0-", b"bits=0-1", b"bytes 0-1", b"bytes:0-1", b"bytes=0-1;x", b"bytes=0x1-2", b"bytes=1.0-2", b"bytes=\xb2-",
             b"bytes=0-1,x", b"bytes=0-1,,2-", b"bytes=2-1", b"bytes=1\x0c-2", b"bytes=1-\x0b2", b"bytes=0-1=2", b"=0-1", b"bytes==0-1",
             b"bytes=0 1-2", b"bytes=1-2 3", b" bytes=1-2 ", b"bytes =1-2", b"bytes= 1-2", b"bytes=1 -2", b"bytes=1- 2",
             b"bytes=1-2,\x0c, ,\t", b"bytes=\t0-0\t,\t-1\t", b"\tbytes\x0b=0-"]


def gen(rng, tier):
    cases = []
    mk = lambda size, hdr, head=False: {"size": size, "head": head, "range": None if hdr is None else hdr.hex()}
    # exhaustive small scope: every single spec and every pair of a spec with a suffix / open range
    top = 5 if tier == "quick" else 8
    for size in range(0, top + 1):
        singles = [b"%d-%d" % (a, b) for a in range(size + 3) for b in range(a, size + 3)] + \
                  [b"%d-" % a for a in range(size + 3)] + [b"-%d" % n for n in range(size + 4)]
        for s in singles:
            cases.append(mk(size, b"bytes=" + s))
        for s in singles[::3 if tier == "quick" else 1]:
            for t in (b"-1", b"0-", b"-%d" % (size + 2), b"%d-" % size, b"1-1"):
                cases.append(mk(size, b"bytes=" + s + b"," + t))
    # every malformed / lenient form on a few sizes
    for h in MALFORMED:
        for size in (0, 3, 10):
            cases.append(mk(size, h))
    for size in (0, 1, 10):
        cases.append(mk(size, None))
        cases.append(mk(size, None, True))
        cases.append(mk(size, b"bytes=0-0", True))
        cases.append(mk(size, b"bytes=-100", True))
    # random range sets over a spread of sizes
    sizes = [0, 1, 2, 3, 9, 10, 11, 63, 64, 65, 255, 256, 1000]
    big = [4096, 65535, 65536, 65537, 70000, 131073]
    n = 500 if tier == "quick" else 10000
    for i in range(n):
        size = rng.choice(sizes) if rng.random() < 0.8 else rng.randrange(0, 300)
        if rng.random() < (0.02 if tier == "quick" else 0.03):
            size = rng.choice(big)
        messy = rng.random() < 0.3
        k = rng.choice([1, 1, 1, 2, 2, 3, 4, 6])
        specs = [_spec(rng, size, messy) for _ in range(k)]
        sep = rng.choice([b",", b", ", b" ,", b",,", b" , "]) if messy else b","
        hdr = rng.choice([b"bytes=", b"bytes=", b"bytes =", b" bytes= "] if messy else [b"bytes="]) + sep.join(specs)
        if rng.random() < 0.06:
            pos = rng.randrange(len(hdr) + 1)
            hdr = hdr[:pos] + bytes([rng.choice(b"+-_ ,=x\t\x0c0")]) + hdr[pos:]
        cases.append(mk(size, hdr, rng.random() < 0.05))
    # File subclasses whose representation length differs from st_size (shorter and longer): every total and every
    # offset must come from getFileSize()
    for size, disk in ((64, 96), (64, 20), (10, 0), (1, 500), (300, 299), (300, 301), (0, 40), (40, 4096)):
        for h in (None, b"bytes=0-", b"bytes=-5", b"bytes=59-63", b"bytes=5-", b"bytes=0-0,-1", b"bytes=2-3,10-20,-4", b"bytes=%d-" % size,
                  b"bytes=%d-%d" % (max(size - 1, 0), size + 50), b"bytes=-%d" % (size + 10), b"bytes=%d-" % disk, b"bytes=0-%d" % max(disk - 1, 0)):
            for head in (False, True) if h is None else (False,):
                cases.append({"size": size, "disk": disk, "head": head, "range": None if h is None else h.hex()})
    for _ in range(120 if tier == "quick" else 2000):
        size = rng.choice([0, 1, 10, 64, 255, 1000])
        disk = rng.choice([0, 1, size // 2, size + 1, size + 32, 2 * size + 7, 4096])
        if disk == size:
            disk += 3
        specs = [_spec(rng, size, False) for _ in range(rng.choice([1, 1, 2, 3]))]
        cases.append({"size": size, "disk": disk, "head": False, "range": (b"bytes=" + b",".join(specs)).hex()})
    # histories: several requests against the same File object with the file rewritten in between
    seq_ranges = [None, b"bytes=-3", b"bytes=-1000", b"bytes=0-", b"bytes=2-", b"bytes=0-0", b"bytes=5-9", b"bytes=0-1,4-", b"bytes=-2,0-0",
                  b"bytes=20-", b"bytes=10-30", b"bytes=7-7,9-"]
    for _ in range(250 if tier == "quick" else 4000):
        k = rng.choice([2, 2, 3, 4])
        base = rng.choice([0, 1, 5, 10, 11, 40, 300])
        seq = []
        for j in range(k):
            r = rng.random()
            size = base if (j == 0 or r < 0.25) else rng.choice([0, 1, max(base - 1, 0), base + 1, base // 2, base * 2, base + 7, rng.randrange(0, 60)])
            seq.append({"size": size, "v": rng.choice([0, 0, 1, 5]), "head": rng.random() < 0.08,
                        "range": (lambda h: None if h is None else h.hex())(rng.choice(seq_ranges))})
        cases.append({"seq": seq})
    # multi-range sets whose first part(s) plus separators end within +-200 bytes of the producers' 64 KiB buffer
    # (MultipleRangeStaticProducer fills one buffer per resumeProducing; oracle only: the model stops at 3000 bytes)
    buf = 65536
    for _ in range(60 if tier == "quick" else 600):
        size = rng.choice([65536, 65536, 66000, 70000, 131073, 65535, 65600])
        k = rng.choice([1, 1, 2])
        delta = rng.randrange(-330, 120)
        total = buf + delta                      # bytes of the first k parts together (separators are ~100 bytes each)
        specs, start = [], rng.choice([0, 0, 1, 17])
        for j in range(k):
            ln = total // k if j < k - 1 else total - (total // k) * (k - 1)
            ln = max(1, min(ln, size - start))
            specs.append(b"%d-%d" % (start, start + ln - 1))
            start = rng.choice([0, 5, start])
        specs.append(rng.choice([b"0-9", b"5-9", b"-1", b"%d-" % (size - 3), b"0-0,1-1"]))
        cases.append(mk(size, b"bytes=" + b",".join(specs)))
    for l1 in range(buf - 140, buf - 90, 2 if tier == "quick" else 1):
        cases.append(mk(buf, b"bytes=0-%d,0-9" % (l1 - 1)))
    return cases


def corpus():
    # import the code under test outside the per-case time limit (slow on a busy machine)
    import twisted.web.static  # noqa: F401
    import twisted.web.test.requesthelper  # noqa: F401
    _path(10)
    mk = lambda size, hdr, head=False: {"size": size, "head": head, "range": hdr.hex()}
    return [
        mk(10, b"bytes=-20"),            # F7 (DESIGN.md section 6): suffix longer than the file
        mk(0, b"bytes=-5"),
        mk(10, b"bytes=0-0,-20"),
        mk(10, b"bytes=+1-2"), mk(10, b"bytes=1_0-"), mk(10, b"bytes=--5"), mk(10, b"bytes="), mk(10, b"bytes=, ,"),
        mk(64, b"bytes=0-9,20-29,60-70,64-,70-80"),
        mk(65537, b"bytes=1-65536"), mk(65537, b"bytes=0-0,-65537,65536-"),
        mk(65536, b"bytes=0-65431,0-9"),     # a part boundary pushes the multi-range producer's buffer count past 64 KiB
        # a File subclass serving a 64-byte representation of a 96-byte file (getFileSize / openForReading overridden)
        {"size": 64, "disk": 96, "head": False, "range": b"bytes=59-63".hex()},
        {"size": 64, "disk": 20, "head": False, "range": b"bytes=0-1,-2".hex()},
        # the same File object serves the file before and after it was rewritten (grown, shrunk, same size other bytes)
        {"seq": [{"size": 10, "v": 0, "head": False, "range": b"bytes=-3".hex()}, {"size": 20, "v": 0, "head": False, "range": b"bytes=-3".hex()},
                 {"size": 4, "v": 1, "head": False, "range": b"bytes=0-".hex()}, {"size": 4, "v": 2, "head": False, "range": None}]},
        {"seq": [{"size": 30, "v": 0, "head": False, "range": None}, {"size": 5, "v": 0, "head": False, "range": b"bytes=2-".hex()},
                 {"size": 50, "v": 0, "head": False, "range": b"bytes=40-45,-2".hex()}]},
    ]


def shrink(case):
    if "seq" in case:
        if _HANGS[0] > 60:
            return
        for i in range(len(case["seq"])):
            if len(case["seq"]) > 1:
                yield {"seq": case["seq"][:i] + case["seq"][i + 1:]}
        return
    if case["range"] is None or _HANGS[0] > 60:      # a run full of hangs has its failing inputs; do not spend minutes minimising
        return
    h = bytes.fromhex(case["range"])
    if case["size"] > 0:
        yield {**case, "size": case["size"] // 2}
        yield {**case, "size": case["size"] - 1}
    if b"," in h:
        parts = h.split(b"=", 1)
        if len(parts) == 2:
            els = parts[1].split(b",")
            for i in range(len(els)):
                yield {**case, "range": (parts[0] + b"=" + b",".join(els[:i] + els[i + 1:])).hex()}


def _hist(case, obs):
    if "seq" in case:
        return f"history of {len(case['seq'])} requests on one File object"
    if case["range"] is None:
        return "no-range"
    rs = rfc_ranges(bytes.fromhex(case["range"]))
    kind = "malformed" if rs is None else ("single" if len(rs) == 1 else "multi")
    return f"{kind} -> {obs.split('|')[0][:12]}" + (" HEAD" if case["head"] else "")


def describe(case):
    if "seq" in case:
        return {"seq": [describe(st) | {"v": st["v"]} for st in case["seq"]]}
    return ({"disk": case["disk"]} if case.get("disk") is not None else {}) | {"size": case["size"], "head": case["head"],
            "range": None if case["range"] is None else bytes.fromhex(case["range"]).decode("latin-1")}


SPEC = Spec(
    pid="C25",
    gen=gen, impl=impl, oracle=oracle, corpus=corpus, shrink=shrink, describe=describe, histogram=_hist,
    coq_header="From TwLib Require Import HttpRespBytes.\nFrom C25 Require Import Model Run.",
    coq_fn="run_seq", to_coq=to_coq, model_equal=model_equal, case_timeout=10.0,
    nontrivial=lambda c, o: ("seq" in c) or (c["range"] is not None and not o.startswith("200")),
    rule="every single range-spec (first,last in 0..size+2, open, suffix 0..size+3) and a third (quick) / all (thorough) of "
         "their pairs with 5 second specs on files of 0..5 (thorough 0..8) bytes; 44 malformed / lenient header forms x 3 sizes; "
         "500 (quick) / 10000 (thorough) random sets of 1-6 specs with positions at 0, size-1, size, size+1, 2*size, 10^20, optional "
         "tolerated blanks, single-byte corruptions, sizes 0..1000 plus 4096 and 65535..131073, and 85 (quick) / 650 (thorough) multi-range sets whose parts + separators end within 330 bytes of the 64 KiB producer buffer (those are "
         "checked by the oracle only, the model is evaluated up to 3000 bytes); GET and HEAD; non-trivial = a Range header answered "
         "206/416/error; distinct by (case, observation)",
    trusted=["hand-written model coq/C25/Model.v part 2 (tied by this correspondence run: status, Content-Range, Content-Length, "
             "Content-Type and a digest of the body)",
             "Spec coq/C25/Model.v part 1 (RFC 9110 14.1.2 transcription); the oracle recomputes it independently in Python",
             "twisted.web.test.requesthelper.DummyRequest as the consumer (synchronous pull loop); the producers' 64 KiB "
             "read chunking is observed only through the concatenated body"],
    assumptions=["Range header values contain no CR / LF (http_headers.Headers replaces them before the resource sees them)",
             "the file does not change while it is served; its size is what getsize() returned",
             "tolerated beyond RFC 9110 (pinned test-suite requires it): blanks around the unit, list elements and numbers",
             "for an empty file every range-spec (also a suffix) is unsatisfiable (416)"],
)
