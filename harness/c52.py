"""C52 — atomic file replacement: FilePath.setContent and sob.Persistent.save.

H-tie by translation validation + crash replay:
 * the real operation is run in a scratch directory (tempfile.mkdtemp, removed per case) with a
   sys.addaudithook recording its file-system calls (open with flags, rename, remove, ...); the content
   written to the temporary is read when the rename is about to happen.  The resulting list of atomic
   steps (one step per written byte) must equal the step list of the Coq model (coq/C52/Model.v);
 * every prefix of the steps is then applied with REAL system calls to a fresh copy of the initial
   directory; the directory state after each prefix must equal the model's [run s prefix] (this ties
   coq/Lib/Fs.v's step semantics to the kernel);
 * on each of those crash states the property oracle reads the target with the real API
   (FilePath.getContent / sob.load): complete old or complete new content, only temporaries added;
   and the real operation is run once more on a copy of the crash state and must succeed.
"""
from __future__ import annotations

import os
import pickle
import re
import shutil
import sys
import tempfile

from harness.common import Failure, Spec, coq_bytes, coq_list

H = lambda b: bytes(b).hex()
B = bytes.fromhex

# case = {"init": [[name, "f", hexcontent] | [name, "d"]], "target": name,
#         "ops": [{"api": "setContent", "data": hex, "ext": str} | {"api": "sob", "style": "pickle"|"source", "obj": ...}]}

# scratch space: a tmpfs when there is one (thousands of tiny directories per run), never /repo or /verif
SCRATCH = "/dev/shm" if os.path.isdir("/dev/shm") and os.access("/dev/shm", os.W_OK) else None

_HOOK = {"on": False, "dir": None, "log": None, "busy": False, "opened": None}
_INSTALLED = []
_EVENTS = ("os.remove", "os.rmdir", "os.mkdir", "os.symlink", "os.link", "os.truncate")


def _contents(paths):
    out = {}
    for p in paths:
        try:
            with open(p, "rb") as f:
                out[p] = f.read()
        except OSError:
            pass
    return out


def _install():
    if _INSTALLED:
        return
    _INSTALLED.append(1)

    def hook(event, args):
        if not _HOOK["on"] or _HOOK["busy"]:
            return
        if event != "open" and event != "os.rename" and event not in _EVENTS:
            return
        d = _HOOK["dir"]
        _HOOK["busy"] = True
        try:
            # what the files opened for writing hold NOW, i.e. before this call takes effect
            snap = _contents(_HOOK["opened"])
            if event == "open":
                p, mode, flags = args
                if isinstance(p, (str, bytes)) and os.fsdecode(p).startswith(d):
                    p = os.fsdecode(p)
                    _HOOK["log"].append(("open", p, flags, snap))
                    if flags is not None and flags & (os.O_WRONLY | os.O_RDWR) and p not in _HOOK["opened"]:
                        _HOOK["opened"].append(p)
            elif event == "os.rename":
                src, dst = os.fsdecode(args[0]), os.fsdecode(args[1])
                if src.startswith(d) or dst.startswith(d):
                    _HOOK["log"].append(("rename", src, dst, snap))
                    if src in _HOOK["opened"]:
                        _HOOK["opened"][_HOOK["opened"].index(src)] = dst
            else:
                p = os.fsdecode(args[0])
                if p.startswith(d):
                    _HOOK["log"].append((event, p, None, snap))
        except Exception as e:  # never let the hook disturb the code under test
            _HOOK["log"].append(("hook-error", repr(e), None, {}))
        finally:
            _HOOK["busy"] = False

    sys.addaudithook(hook)


def record(base, fn, extra=()):
    """run fn() with the recorder on for paths below base (and the extra directories) -> (result, raised OSError, events).
    Every event carries the contents, just before it, of the files opened for writing so far; a final
    pseudo-event ("end") carries them after fn returned."""
    _install()
    log, opened = [], []
    _HOOK.update(on=True, dir=tuple(d + os.sep for d in (base,) + tuple(extra)), log=log, opened=opened, busy=False)
    err = None
    out = None
    try:
        out = fn()
    except OSError as e:
        err = e
    finally:
        _HOOK["on"] = False
    log.append(("end", None, None, _contents(opened)))
    return out, err, log


def translate(log, rel, notes):
    """events -> atomic steps (names through rel()).  Bytes are attributed to the moment they are first
    seen in a file: a write becomes one 'a' step per byte, placed before the event at which it was observed."""
    steps = []
    have = {}            # current path of a file opened for writing -> bytes already turned into steps
    for ev in log:
        kind, a, b, snap = ev
        for p, content in snap.items():
            if p in have:
                old = have[p]
                if not content.startswith(old):
                    notes.append("rewrite:" + rel(p))
                    old = b""
                steps += [("a", rel(p), byte) for byte in content[len(old):]]
                have[p] = content
        if kind == "open":
            if b is None or (b & (os.O_WRONLY | os.O_RDWR)) == 0:
                continue
            if b & os.O_EXCL:
                steps.append(("x", rel(a)))
            elif b & os.O_CREAT and b & os.O_TRUNC:
                steps.append(("c", rel(a)))
            else:
                notes.append(f"unexpected-open-flags:{b:o}")
                steps.append(("c", rel(a)))
            have[a] = b""
        elif kind == "rename":
            steps.append(("r", rel(a), rel(b)))
            if a in have:
                have[b] = have.pop(a)
        elif kind == "os.remove":
            steps.append(("u", rel(a)))
            have.pop(a, None)
        elif kind == "hook-error":
            notes.append("hook-error")
        elif kind != "end":
            notes.append("unexpected-call:" + kind + ":" + rel(a))
    return steps


class fsize_limit:
    """with fsize_limit(n): a REAL operating-system fault — RLIMIT_FSIZE (soft) = n bytes, so write(2) stores at
    most the bytes up to offset n (a short write) and fails with EFBIG after that.  CPython ignores SIGXFSZ.  The
    limit is restored on exit; the harness writes no regular file inside the block."""

    def __init__(self, limit):
        self.limit = limit

    def __enter__(self):
        if self.limit is not None:
            import resource
            self.old = resource.getrlimit(resource.RLIMIT_FSIZE)
            resource.setrlimit(resource.RLIMIT_FSIZE, (self.limit, self.old[1]))

    def __exit__(self, *exc):
        if self.limit is not None:
            import resource
            resource.setrlimit(resource.RLIMIT_FSIZE, self.old)
        return False


def op_data(op) -> bytes:
    """the bytes the operation is expected to put into the target (independently of the trace)"""
    if op["api"] == "setContent":
        return B(op["data"])
    if op["style"] == "pickle":
        return pickle.dumps(op["obj"], 2)
    from twisted.persisted.aot import jellyToSource
    return jellyToSource(op["obj"]).encode("utf-8")


def op_tmp(case, i) -> str:
    op = case["ops"][i]
    if op["api"] == "sob":
        return case["target"] + "-2"
    return f"T{i}"            # canonical stand-in for the unpredictable temporarySibling name


def names(case):
    out = []
    for n in [e[0] for e in case["init"]] + [case["target"]] + [op_tmp(case, i) for i in range(len(case["ops"]))]:
        if n not in out:
            out.append(n)
    return out


def _populate(d, case):
    for e in case["init"]:
        p = os.path.join(d, e[0])
        if e[1] == "d":
            os.mkdir(p)
        else:
            with open(p, "wb") as f:
                f.write(B(e[2]))


def _snapshot(d, case, rename=None):
    rename = rename or {}
    st = {}
    for n in os.listdir(d):
        p = os.path.join(d, n)
        cn = rename.get(n, n)
        if os.path.islink(p):
            st[cn] = "l" + H(os.fsencode(os.readlink(p)))
        elif os.path.isdir(p):
            st[cn] = "d"
        else:
            with open(p, "rb") as f:
                st[cn] = "f" + H(f.read())
    known = names(case)
    s = ",".join(st.get(n, "-") for n in known)
    extra = sorted(set(st) - set(known))
    if extra:
        s += ",EXTRA:" + "+".join(extra)
    return s


def _run_real(d, case, i):
    """run operation i of the case with the real API in directory d"""
    op = case["ops"][i]
    target = os.path.join(d, case["target"])
    if op["api"] == "setContent":
        from twisted.python.filepath import FilePath
        ext = op.get("ext", ".new")
        ext = ext.encode() if op.get("bytes_ext") else ext
        fp, data = FilePath(target), B(op["data"])
        with fsize_limit(case.get("limit")):
            fp.setContent(data, ext)
    else:
        from twisted.persisted import sob
        p = sob.Persistent(op["obj"], "app")
        p.setStyle(op["style"])
        if op["style"] == "source":
            from twisted.persisted import aot  # noqa: F401  (imported before the limit is in force)
        with fsize_limit(case.get("limit")):
            p.save(filename=target)


def _read_real(d, case, api, style=None):
    """the target as the real readers see it: ('absent',) | ('content', bytes) | ('other',)"""
    target = os.path.join(d, case["target"])
    from twisted.python.filepath import FilePath
    fp = FilePath(target)
    if not fp.exists():
        return ("absent",)
    if not fp.isfile():
        return ("other",)
    return ("content", fp.getContent())


def _pj(d, name):
    """d is a directory, or a pair (A, B) of directories on different file systems: names starting with '@' live in B"""
    if isinstance(d, tuple):
        return os.path.join(d[1], name[1:]) if name.startswith("@") else os.path.join(d[0], name)
    return os.path.join(d, name)


def _apply_real(d, step):
    """one atomic model step with real system calls; False if the kernel refuses it"""
    try:
        k = step[0]
        if k == "x":
            os.close(os.open(_pj(d, step[1]), os.O_CREAT | os.O_EXCL | os.O_WRONLY))
        elif k == "c":
            os.close(os.open(_pj(d, step[1]), os.O_CREAT | os.O_TRUNC | os.O_WRONLY))
        elif k == "a":
            fd = os.open(_pj(d, step[1]), os.O_WRONLY | os.O_APPEND)
            try:
                os.write(fd, bytes([step[2]]))
            finally:
                os.close(fd)
        elif k == "r":
            os.rename(_pj(d, step[1]), _pj(d, step[2]))
        elif k == "u":
            os.remove(_pj(d, step[1]))
        else:
            raise AssertionError(step)
        return True
    except OSError:
        return False


def _show_step(st):
    hn = lambda n: H(n.encode())
    if st[0] == "a":
        return f"a:{hn(st[1])}:{st[2]:02x}"
    if st[0] == "r":
        return f"r:{hn(st[1])}:{hn(st[2])}"
    return f"{st[0]}:{hn(st[1])}"


def impl(case) -> str:
    _install()
    base = tempfile.mkdtemp(prefix="verif_c52_", dir=SCRATCH)
    other = None
    try:
        if case.get("kind") == "move":
            other = tempfile.mkdtemp(prefix="verif_c52b_")      # the default temp directory: another file system
            return _impl_move(case, base, other)
        return _impl(case, base)
    finally:
        _HOOK["on"] = False
        shutil.rmtree(base, ignore_errors=True)
        if other:
            shutil.rmtree(other, ignore_errors=True)


# ---- FilePath.moveTo between file systems ------------------------------------------------------------

def move_names(case):
    out = []
    for n in [e[0] for e in case["init"]] + [case["src"], case["dst"], "TD", "@TS"]:
        if n not in out:
            out.append(n)
    return out


def _mpopulate(d, case):
    for e in case["init"]:
        p = _pj(d, e[0])
        if e[1] == "d":
            os.mkdir(p)
        else:
            with open(p, "wb") as f:
                f.write(B(e[2]))


def _msnapshot(d, case, rename=None):
    rename = rename or {}
    st = {}
    for side, prefix in ((d[0], ""), (d[1], "@")):
        for n in os.listdir(side):
            p = os.path.join(side, n)
            cn = rename.get(prefix + n, prefix + n)
            if os.path.isdir(p):
                st[cn] = "d"
            else:
                with open(p, "rb") as f:
                    st[cn] = "f" + H(f.read())
    known = move_names(case)
    s = ",".join(st.get(n, "-") for n in known)
    extra = sorted(set(st) - set(known))
    if extra:
        s += ",EXTRA:" + "+".join(extra)
    return s


def _mread(d, name):
    from twisted.python.filepath import FilePath
    fp = FilePath(_pj(d, name))
    if not fp.exists():
        return ("absent",)
    if not fp.isfile():
        return ("other",)
    return ("content", fp.getContent())


def _impl_move(case, base, other) -> str:
    from twisted.python.filepath import FilePath
    mk = lambda tag: (os.path.join(base, tag), os.path.join(other, tag))
    live = mk("live")
    for x in live:
        os.mkdir(x)
    if os.stat(live[0]).st_dev == os.stat(live[1]).st_dev:
        return "SKIP #ok"                  # no second file system in this sandbox: nothing to observe
    _mpopulate(live, case)
    notes, verdicts = [], []
    init = {e[0]: e for e in case["init"]}
    src, dst = case["src"], case["dst"]
    content = B(init[src][2]) if src in init and init[src][1] == "f" else None
    old_dst = ("absent",) if dst not in init else (("content", B(init[dst][2])) if init[dst][1] == "f" else ("other",))
    def do_move():
        a, b = FilePath(_pj(live, src)), FilePath(_pj(live, dst))
        with fsize_limit(case.get("limit")):
            a.moveTo(b)
    _, err, log = record(base, do_move, extra=(other,))
    rename = {}
    pat_d = re.compile(r"^.{16}" + re.escape(dst) + r"$", re.S)
    pat_s = re.compile(r"^.{16}" + re.escape(src[1:]) + r"$", re.S)

    def rel(p):
        n = os.path.basename(p)
        if p.startswith(live[1] + os.sep):
            if pat_s.match(n) and "@" + n not in init:
                rename["@" + n] = "@TS"
            return rename.get("@" + n, "@" + n)
        if pat_d.match(n) and n not in init:
            rename[n] = "TD"
        return rename.get(n, n)

    steps = translate(log, rel, notes)
    probes = [s_ for s_ in steps if s_[0] == "r" and s_[1].startswith("@") != s_[2].startswith("@")]
    steps = [s_ for s_ in steps if s_ not in probes]
    if content is not None and len(probes) != 1:
        notes.append(f"cross-device-renames:{len(probes)}")

    replay = mk("replay")
    for x in replay:
        os.mkdir(x)
    _mpopulate(replay, case)
    states = []
    alive = True
    for j in range(len(steps) + 1):
        if j and alive:
            alive = _apply_real(replay, steps[j - 1])
        snap = _msnapshot(replay, case)
        states.append(snap)
        if content is None:
            continue
        # ---- the property at this crash point, through the real readers
        d_now, s_now = _mread(replay, dst), _mread(replay, src)
        if d_now not in (old_dst, ("content", content)):
            verdicts.append(f"move-target:{j}:{d_now[0]}")
        if s_now != ("content", content) and d_now != ("content", content):
            verdicts.append(f"move-content-lost:{j}")
        if "EXTRA" in snap:
            verdicts.append(f"stray:{j}")
        now = dict(zip(move_names(case), snap.split(",")))
        for n in move_names(case):
            if n in (src, dst, "TD", "@TS"):
                continue
            e = init.get(n)
            if now[n] != ("-" if e is None else ("d" if e[1] == "d" else "f" + e[2])):
                verdicts.append(f"collateral:{j}:{n}")
        # the move, run again on a copy of the crash state, completes
        if alive and s_now == ("content", content) and old_dst != ("other",) and not any(e[1] == "d" for e in case["init"]):
            rec_d = mk(f"rec{j}")
            for a, b in zip(replay, rec_d):
                shutil.copytree(a, b)
            try:
                FilePath(_pj(rec_d, src)).moveTo(FilePath(_pj(rec_d, dst)))
                if _mread(rec_d, dst) != ("content", content) or _mread(rec_d, src) != ("absent",):
                    verdicts.append(f"recover-content:{j}")
            except OSError as e:
                verdicts.append(f"recover-raises:{j}:{type(e).__name__}")
    if _msnapshot(live, case, rename) != states[-1]:
        notes.append("live-differs-from-replay:" + _msnapshot(live, case, rename))
    obs = "S:" + ";".join(_show_step(s_) for s_ in steps) + "|C:" + ";".join(states)
    if err is not None:
        obs += "|refused"
    return obs + " #" + ("ok" if not verdicts and not notes else "bad " + " ".join(verdicts[:3] + notes[:3]))


def _impl(case, base) -> str:
    live = os.path.join(base, "live")
    os.mkdir(live)
    _populate(live, case)
    steps = []          # atomic steps of the whole history, canonical names
    op_of_step = []     # index of the operation each step belongs to
    notes = []
    rename = {}
    failed_at = None
    for i, op in enumerate(case["ops"]):
        _, err, log = record(live, lambda: _run_real(live, case, i))
        err = type(err).__name__ if err is not None else None
        tmp_c = op_tmp(case, i)
        # the unpredictable temporarySibling name -> the case's canonical name
        for ev in log:
            if ev[0] == "open" and ev[2] is not None and ev[2] & (os.O_WRONLY | os.O_RDWR) and op["api"] == "setContent":
                n = os.path.basename(ev[1])
                pat = re.compile(r"^.{16}" + re.escape(case["target"] + op.get("ext", ".new")) + r"$", re.S)
                if not pat.match(n) or n in names(case):
                    notes.append("unexpected-temp-name:" + n)
                rename[n] = tmp_c
        mine = translate(log, lambda p: rename.get(os.path.basename(p), os.path.basename(p)), notes)
        steps += mine
        op_of_step += [i] * len(mine)
        if err is not None:
            failed_at = i
            break

    # crash replay: every prefix of the atomic steps, applied with real system calls
    replay = os.path.join(base, "replay")
    os.mkdir(replay)
    _populate(replay, case)
    states = [_snapshot(replay, case)]
    alive = True
    verdicts = []
    datas = [op_data(o) for o in case["ops"]]
    init = {e[0]: e for e in case["init"]}
    t0 = init.get(case["target"])
    old0 = ("absent",) if t0 is None else (("content", B(t0[2])) if t0[1] == "f" else ("other",))

    def check(j):
        # operations completed within the first j steps, and the one in progress
        done = 0
        while done < len(case["ops"]) and (
                [k for k in range(len(steps)) if op_of_step[k] == done] and
                max(k for k in range(len(steps)) if op_of_step[k] == done) < j) and done != failed_at:
            done += 1
        cur = done if done < len(case["ops"]) else None
        last = old0 if done == 0 else ("content", datas[done - 1])
        allowed = [last] + ([("content", datas[cur])] if cur is not None else [])
        if failed_at is not None:
            # a refused step ends the history; the target keeps what it had (old or, if the refusal came
            # after the rename, new) — both are already in `allowed`
            pass
        got = _read_real(replay, case, None)
        if got not in allowed:
            return f"target:{j}:{got[0]}:{H(got[1]) if len(got) > 1 else ''}"
        # only temporaries may have appeared; nothing else may have changed
        tmps = {op_tmp(case, i) for i in range(len(case["ops"]))}
        now = dict(zip(names(case), states[-1].split(",")))
        if "EXTRA" in states[-1]:
            return f"stray:{j}"
        for n in names(case):
            if n == case["target"] or n in tmps:
                continue
            e = init.get(n)
            want = "-" if e is None else ("d" if e[1] == "d" else "f" + e[2])
            if now[n] != want:
                return f"collateral:{j}:{n}"
        return None

    def recovers(j):
        """the real operation, run again on a copy of the crash state, must succeed and install its content"""
        if any(e[1] == "d" for e in case["init"]):
            return None
        d2 = os.path.join(base, f"rec{j}")
        shutil.copytree(replay, d2, symlinks=True)
        try:
            k = min(op_of_step[j - 1] if j else 0, len(case["ops"]) - 1)
            rc = dict(case, ops=[case["ops"][k]], limit=None)
            try:
                _run_real(d2, rc, 0)
            except OSError as e:
                # setContent's temporary has a fresh random name, save truncates its fixed one: neither may fail
                return f"recover-raises:{j}:{type(e).__name__}"
            got = _read_real(d2, rc, None)
            if got != ("content", op_data(case["ops"][k])):
                return f"recover-content:{j}"
            return None
        finally:
            shutil.rmtree(d2, ignore_errors=True)

    bad = check(0) or recovers(0)
    if bad:
        verdicts.append(bad)
    for j, st in enumerate(steps, 1):
        if alive:
            alive = _apply_real(replay, st)
        states.append(_snapshot(replay, case))
        bad = check(j) or (recovers(j) if alive else None)
        if bad:
            verdicts.append(bad)
    # the live directory (real run) and the replay of all steps must agree
    final_live = _snapshot(live, case, rename)
    if final_live != states[-1]:
        notes.append("live-differs-from-replay:" + final_live)
    obs = "S:" + ";".join(_show_step(s) for s in steps) + "|C:" + ";".join(states)
    if failed_at is not None:
        obs += "|refused"     # the kernel refused a step: the rest of the model's step list never runs
    return obs + " #" + ("ok" if not verdicts and not notes else "bad " + " ".join(verdicts[:3] + notes[:3]))


def model_equal(case, a, b):
    head = a.split(" #")[0]
    if head == "SKIP":
        return True
    if not head.endswith("|refused"):
        return head == b
    try:
        si, ci = head[:-len("|refused")].split("|C:")
        sm, cm = b.split("|C:")
    except ValueError:
        return False
    si, sm = si[2:].split(";"), sm[2:].split(";")
    ci, cm = ci.split(";"), cm.split(";")
    # the model's history continues on paper, but [run] stops at the refused step: same steps up to
    # there, same states, and no further change
    return sm[:len(si)] == si and cm[:len(ci)] == ci and all(x == ci[-1] for x in cm[len(ci):])


def oracle(case, obs):
    tail = obs.split(" #", 1)[1] if " #" in obs else "bad malformed"
    if tail == "ok":
        return None
    what = tail[4:]
    first = what.split(" ")[0]
    kind = first.split(":")[0]
    api = "moveTo" if case.get("kind") == "move" else "+".join(sorted({o["api"] for o in case["ops"]}))
    return Failure(case, f"atomic replacement violated ({api}): {what}", f"{kind}-{api}")


# --------------------------------------------------------------------------------------------


def _rand_bytes(rng, maxlen):
    n = rng.choice([0, 0, 1, 1, 2, 3, maxlen])
    return bytes(rng.choice([0, 10, 65, 66, 255, rng.randrange(256)]) for _ in range(n))


def _rand_op(rng):
    r = rng.random()
    if r < 0.6:
        return {"api": "setContent", "data": H(_rand_bytes(rng, 6)), "bytes_ext": rng.random() < 0.25,
                "ext": rng.choice([".new", ".new", "", ".tmp", ".a.b", "~", "-2", " x"])}
    style = rng.choice(["pickle", "pickle", "source"])
    obj = rng.choice([0, 7, "", "a", "ab", [1], None, True])
    return {"api": "sob", "style": style, "obj": obj}


def gen(rng, tier):
    quick = tier == "quick"
    cases = []
    targets = ["t", "app.tap", "x.new"]
    for _ in range(260 if quick else 3000):
        target = rng.choice(targets)
        init = []
        r = rng.random()
        if r < 0.55:
            init.append([target, "f", H(_rand_bytes(rng, 5))])       # existing target
        elif r < 0.62:
            init.append([target, "d"])                               # a directory in the way: rename refused
        if rng.random() < 0.4:
            init.append(["other", "f", H(b"keep")])
        if rng.random() < 0.25:
            init.append([target + "-2", "f", H(_rand_bytes(rng, 4))])  # temporary left by an earlier crash
        if rng.random() < 0.05:
            init.append([target + "-2", "d"])                        # temporary name taken by a directory
        ops = [_rand_op(rng) for _ in range(rng.choice([1, 1, 1, 2, 2, 3]))]
        if any(o["api"] == "sob" for o in ops) and not any(e[0] == target + "-2" for e in init) and rng.random() < 0.3:
            init.append([target + "-2", "f", H(b"\x80\x02stale")])
        seen, uniq = set(), []
        for e in init:
            if e[0] not in seen:
                seen.add(e[0])
                uniq.append(e)
        init = uniq
        if any(e[1] == "d" for e in init):
            ops = ops[:1]          # a refused step ends the history (the exception propagates to the caller)
        cases.append({"init": init, "target": target, "ops": ops})
    # bounded-exhaustive: old in {absent, "", "o"} x new in all strings over {0,1} up to length 3, both APIs
    import itertools
    for old in [None, b"", b"o", b"old"]:
        for n in range(0, 3 if quick else 5):
            for w in itertools.product([0, 49], repeat=n):
                init = [] if old is None else [["t", "f", H(old)]]
                cases.append({"init": init, "target": "t",
                              "ops": [{"api": "setContent", "data": H(bytes(w)), "ext": ".new"}]})
    # operating-system faults: a real RLIMIT_FSIZE below / at / above the size of the new content (short write, then
    # EFBIG) for every API, old content absent / empty / shorter / longer than the limit
    for _ in range(150 if quick else 2500):
        op = _rand_op(rng)
        if op["api"] == "setContent":
            op["data"] = H(bytes(rng.choice([0, 10, 65, 255, rng.randrange(256)]) for _ in range(rng.randrange(1, 12))))
        n = len(op_data(op))
        limit = rng.choice([0, 1, max(0, n - 1), n, n + 1, rng.randrange(0, n + 2)])
        init = []
        r = rng.random()
        if r < 0.7:
            init.append(["t", "f", H(_rand_bytes(rng, rng.choice([0, 3, 9])))])
        if op["api"] == "sob" and rng.random() < 0.3:
            init.append(["t-2", "f", H(b"stale-temporary-longer-than-any-limit")])
        cases.append({"init": init, "target": "t", "ops": [op], "limit": limit})
    for _ in range(50 if quick else 800):
        content = bytes(rng.choice([0, 65, 255, rng.randrange(256)]) for _ in range(rng.randrange(1, 10)))
        init = [["@s", "f", H(content)]]
        if rng.random() < 0.6:
            init.append(["t", "f", H(_rand_bytes(rng, 5))])
        cases.append({"kind": "move", "init": init, "src": "@s", "dst": "t",
                      "limit": rng.choice([0, 1, len(content) - 1, len(content), len(content) + 1])})
    # FilePath.moveTo between two real file systems (EXDEV fall-back): source present / absent, destination
    # absent / a file / a directory, stale temporaries, unrelated files on both sides
    for _ in range(90 if quick else 1500):
        src, dst = "@" + rng.choice(["s", "data.bin"]), rng.choice(["t", "data.bin", "s"])
        init = []
        if rng.random() < 0.92:
            init.append([src, "f", H(_rand_bytes(rng, 6))])
        r = rng.random()
        if r < 0.5:
            init.append([dst, "f", H(_rand_bytes(rng, 4))])
        elif r < 0.58:
            init.append([dst, "d"])
        if rng.random() < 0.3:
            init.append(["keep", "f", H(b"k")])
        if rng.random() < 0.3:
            init.append(["@keep", "f", H(b"K")])
        cases.append({"kind": "move", "init": init, "src": src, "dst": dst})
    return cases


def corpus():
    return [
        {"kind": "move", "init": [["@s", "f", H(b"payload")], ["t", "f", H(b"old")], ["@keep", "f", H(b"K")]], "src": "@s", "dst": "t"},
        # the file-size limit is reached while the temporary is written (short write, then EFBIG)
        {"init": [["t", "f", H(b"old content")]], "target": "t", "limit": 5,
         "ops": [{"api": "setContent", "data": H(b"0123456789"), "ext": ".new"}]},
        {"init": [], "target": "t", "limit": 0, "ops": [{"api": "setContent", "data": H(b"x"), "ext": ".new"}]},
        {"init": [["t", "f", H(b"")]], "target": "t", "limit": 3, "ops": [{"api": "sob", "style": "pickle", "obj": "abcdef"}]},
        {"kind": "move", "init": [["@s", "f", H(b"payload")], ["t", "f", H(b"old")]], "src": "@s", "dst": "t", "limit": 4},
        {"kind": "move", "init": [["@s", "f", H(b"")]], "src": "@s", "dst": "t"},
        {"kind": "move", "init": [["@s", "f", H(b"xy")], ["t", "d"]], "src": "@s", "dst": "t"},
        {"kind": "move", "init": [["t", "f", H(b"old")]], "src": "@s", "dst": "t"},
        {"init": [["t", "f", H(b"old")]], "target": "t", "ops": [{"api": "setContent", "data": H(b"n"), "ext": ".a.b", "bytes_ext": True}]},
        {"init": [["t", "f", H(b"old")]], "target": "t", "ops": [{"api": "setContent", "data": H(b"new!"), "ext": ".new"}]},
        {"init": [], "target": "t", "ops": [{"api": "setContent", "data": H(b""), "ext": ".new"}]},
        {"init": [["app.tap", "f", H(pickle.dumps(1, 2))], ["app.tap-2", "f", H(b"junk")]], "target": "app.tap",
         "ops": [{"api": "sob", "style": "pickle", "obj": "ab"}, {"api": "sob", "style": "source", "obj": 7}]},
        {"init": [["t", "d"]], "target": "t", "ops": [{"api": "setContent", "data": H(b"x"), "ext": ".new"}]},
        {"init": [["t", "f", H(b"o")], ["t-2", "d"]], "target": "t", "ops": [{"api": "sob", "style": "pickle", "obj": 0}]},
        {"init": [["t", "f", H(b"a")]], "target": "t",
         "ops": [{"api": "setContent", "data": H(b"b"), "ext": ".new"}, {"api": "sob", "style": "pickle", "obj": None},
                 {"api": "setContent", "data": H(b"cd"), "ext": ""}]},
    ]


def to_coq(case):
    cb = lambda s: coq_bytes(s.encode())
    if case.get("kind") == "move":
        init = []
        for e in reversed(case["init"]):
            init.append(f"({cb(e[0])}, {'Dir' if e[1] == 'd' else 'File ' + coq_bytes(B(e[2]))})")
        ini = {e[0]: e for e in case["init"]}
        content = B(ini[case["src"]][2]) if case["src"] in ini and ini[case["src"]][1] == "f" else None
        if case.get("limit") is not None and content is not None and case["limit"] < len(content):
            # the copy's write is cut at the limit and the move raises
            return (f"CMoveFault {coq_list([cb(n) for n in move_names(case)], 'path')} "
                    f"{coq_list(init, '(path * node)%type')} {cb(case['src'])} {cb(case['dst'])} {cb('TD')} {case['limit']}%nat")
        return (f"CMove {coq_list([cb(n) for n in move_names(case)], 'path')} {coq_list(init, '(path * node)%type')} "
                f"{cb(case['src'])} {cb(case['dst'])} {cb('TD')} {cb('@TS')}")
    init = []
    for e in reversed(case["init"]):            # association list: later entries would shadow; names are unique
        node = "Dir" if e[1] == "d" else f"File {coq_bytes(B(e[2]))}"
        init.append(f"({cb(e[0])}, {node})")
    ops = []
    for i, o in enumerate(case["ops"]):
        kind = "Exclusive" if o["api"] == "setContent" else "Truncating"
        ops.append(f"mkop {kind} {cb(op_tmp(case, i))} {coq_bytes(op_data(o))}")
    if case.get("limit") is not None and len(case["ops"]) == 1 and case["limit"] < len(op_data(case["ops"][0])):
        # RLIMIT_FSIZE below the size of the new content: write(2) stores [limit] bytes, then EFBIG
        return (f"CFault {coq_list([cb(n) for n in names(case)], 'path')} {coq_list(init, '(path * node)%type')} "
                f"{cb(case['target'])} ({ops[0]}) {case['limit']}%nat")
    return (f"CRepl {coq_list([cb(n) for n in names(case)], 'path')} {coq_list(init, '(path * node)%type')} "
            f"{cb(case['target'])} {coq_list(ops, 'op')}")


def shrink(case):
    if case.get("kind") == "move":
        for i in range(len(case["init"])):
            yield {**case, "init": case["init"][:i] + case["init"][i + 1:]}
        return
    ops = case["ops"]
    for i in range(len(ops)):
        if len(ops) > 1:
            yield {**case, "ops": ops[:i] + ops[i + 1:]}
    for i in range(len(case["init"])):
        yield {**case, "init": case["init"][:i] + case["init"][i + 1:]}
    for i, o in enumerate(ops):
        if o["api"] == "setContent" and o["data"]:
            yield {**case, "ops": ops[:i] + [{**o, "data": o["data"][:-2]}] + ops[i + 1:]}


SPEC = Spec(
    pid="C52",
    gen=gen, impl=impl, oracle=oracle, corpus=corpus, shrink=shrink,
    coq_header="From TwLib Require Import Fs.\nFrom C52 Require Import Model Run.",
    coq_fn="run_show",
    to_coq=to_coq,
    model_equal=model_equal,
    nontrivial=lambda c, o: o.count(";") > 4,
    histogram=lambda c, o: ("fault:" if c.get("limit") is not None else "") + "moveTo" if c.get("kind") == "move" else ("fault:" if c.get("limit") is not None else "") + "+".join(x["api"] for x in c["ops"]) + (":target-exists" if any(e[0] == c["target"] for e in c["init"]) else ":target-absent"),
    rule="histories of 1-3 replacements (FilePath.setContent with several extensions, sob.Persistent.save in pickle "
         "and source style) over targets that are absent / an existing file / a directory, with and without a stale "
         "temporary (file or directory) and an unrelated file; contents of length 0-6 incl. NUL, LF, 0xff; plus every "
         "content over a 2-letter alphabet up to length 2 (thorough 4) x old in {absent, '', 'o', 'old'}; each case "
         "checks EVERY crash point (every system call boundary and every partial-write length); non-trivial = more "
         "than 4 atomic steps; distinct by (case, observation)",
    trusted=["hand-written model coq/C52/Model.v over coq/Lib/Fs.v; POSIX rename/open atomicity is the definition of "
             "Fs.v's steps and is compared with the real kernel at every crash prefix by this run",
             "process crash only: completed system calls persist (no power-loss / fsync reasoning)",
             "the audit-hook recorder (open/rename/remove events) and the per-byte expansion of writes"],
    assumptions=["temporarySibling's random name differs from every existing name (checked per case: it must match "
                 "<16 chars><basename><ext> and be new)",
                 "win32 branch (remove, then rename) is not modelled"],
)
