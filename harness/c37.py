"""C37 — SSH wire primitives (T-tie: coq/C37/Gen.v regenerated from conch/ssh/common.py) and key
serialisation (H-tie for public blobs: coq/C37/Model.v; oracle-only for the private formats)."""
from __future__ import annotations

import json
import os

from harness.common import COQ, REPO, VERIF, Failure, Spec, coq_bytes, coq_list, coq_nat
from translate import c37 as tr

EXN = {"error": "StructError"}          # struct.error's class name is 'error'


def hx(n: int) -> str:
    """integers are printed in hex, whole bytes (linear-time printing in the model)"""
    a = abs(n)
    return ("-" if n < 0 else "") + a.to_bytes((a.bit_length() + 7) // 8 or 1, "big").hex()


def coq_Z(n: int) -> str:
    """hexadecimal literal: Coq parses large decimal numerals quadratically"""
    return f"(-0x{-n:x})%Z" if n < 0 else f"(0x{n:x})%Z"


def _exn(e) -> str:
    n = type(e).__name__
    return "E:" + EXN.get(n, n)


# ----------------------------------------------------------------------------------------------
# deterministic key material (every choice from rng)

_SMALL = [3, 5, 7, 11, 13, 17, 19, 23, 29, 31, 37, 41, 43, 47, 53, 59, 61, 67, 71, 73, 79, 83, 89, 97]


def _is_prime(n, rng, rounds=24):
    if n < 2:
        return False
    for p in [2] + _SMALL:
        if n % p == 0:
            return n == p
    d, s = n - 1, 0
    while d % 2 == 0:
        d //= 2
        s += 1
    for _ in range(rounds):
        a = rng.randrange(2, n - 1)
        x = pow(a, d, n)
        if x in (1, n - 1):
            continue
        for _ in range(s - 1):
            x = pow(x, 2, n)
            if x == n - 1:
                break
        else:
            return False
    return True


def _prime(rng, bits):
    while True:
        c = rng.getrandbits(bits) | (3 << (bits - 2)) | 1
        if c % 65537 != 1 and _is_prime(c, rng):
            return c


def gen_rsa(rng, bits, order):
    """order: 'lt' -> p < q, 'gt' -> p > q"""
    while True:
        p, q = _prime(rng, bits // 2), _prime(rng, bits // 2)
        if p == q:
            continue
        if (order == "lt") != (p < q):
            p, q = q, p
        n = p * q
        if n.bit_length() != bits:
            continue
        e = 65537
        d = pow(e, -1, (p - 1) * (q - 1))
        return {"type": "RSA", "n": n, "e": e, "d": d, "p": p, "q": q}


def _dsa_params():
    return json.load(open(os.path.join(VERIF, "corpus/C37/dsa_params.json")))


def gen_dsa(rng, which):
    pr = _dsa_params()[which]
    x = rng.randrange(1, pr["q"])
    return {"type": "DSA", "p": pr["p"], "q": pr["q"], "g": pr["g"], "x": x, "y": pow(pr["g"], x, pr["p"])}


CURVES = {"256": "SECP256R1", "384": "SECP384R1", "521": "SECP521R1"}


def gen_ec(rng, size):
    from cryptography.hazmat.primitives.asymmetric import ec
    cv = getattr(ec, CURVES[size])()
    order_bits = {"256": 256, "384": 384, "521": 521}[size]
    k = rng.choice(["random", "small", "leading-zero"])
    if k == "small":
        d = rng.randrange(1, 1000)
    else:
        d = rng.randrange(1, 2 ** (order_bits - 1))
    key = ec.derive_private_key(d, cv)
    if k == "leading-zero":
        # search a little for a point whose x or y has a leading zero byte (fixed-width encoding matters)
        for _ in range(300):
            pn = key.public_key().public_numbers()
            L = (order_bits + 7) // 8
            if pn.x < 256 ** (L - 1) or pn.y < 256 ** (L - 1):
                break
            d = rng.randrange(1, 2 ** (order_bits - 1))
            key = ec.derive_private_key(d, cv)
    pn = key.public_key().public_numbers()
    return {"type": "EC", "curve": size, "x": pn.x, "y": pn.y, "d": d}


def gen_ed(rng):
    from cryptography.hazmat.primitives.asymmetric import ed25519
    from cryptography.hazmat.primitives import serialization as ser
    k = bytes(rng.getrandbits(8) for _ in range(32))
    a = ed25519.Ed25519PrivateKey.from_private_bytes(k).public_key().public_bytes(ser.Encoding.Raw, ser.PublicFormat.Raw)
    return {"type": "Ed25519", "k": k.hex(), "a": a.hex()}


def build_key(kd):
    """numbers -> twisted Key (private), through the public constructor Key(keyObject)"""
    from cryptography.hazmat.primitives.asymmetric import dsa, ec, ed25519, rsa
    from twisted.conch.ssh import keys
    t = kd["type"]
    if t == "RSA":
        p, q, d = kd["p"], kd["q"], kd["d"]
        pub = rsa.RSAPublicNumbers(kd["e"], kd["n"])
        obj = rsa.RSAPrivateNumbers(p, q, d, rsa.rsa_crt_dmp1(d, p), rsa.rsa_crt_dmq1(d, q), rsa.rsa_crt_iqmp(p, q),
                                    pub).private_key()
    elif t == "DSA":
        pn = dsa.DSAParameterNumbers(kd["p"], kd["q"], kd["g"])
        obj = dsa.DSAPrivateNumbers(kd["x"], dsa.DSAPublicNumbers(kd["y"], pn)).private_key()
    elif t == "EC":
        obj = ec.derive_private_key(kd["d"], getattr(ec, CURVES[kd["curve"]])())
    else:
        obj = ed25519.Ed25519PrivateKey.from_private_bytes(bytes.fromhex(kd["k"]))
    return keys.Key(obj)


def show_pub(K) -> str:
    d = K.data()
    t = K.type()
    if t == "RSA":
        return f"RSA:{hx(d['e'])},{hx(d['n'])}"
    if t == "DSA":
        return f"DSA:{hx(d['p'])},{hx(d['q'])},{hx(d['g'])},{hx(d['y'])}"
    if t == "EC":
        return f"EC{d['curve'].decode()[-3:]}:{hx(d['x'])},{hx(d['y'])}"
    return "ED:" + d["a"].hex()


# formats: (name, toString type, kwargs, fromString type or None=guess, public?)
def formats_for(t):
    out = [("blob", None, {}, "blob", True), ("public-openssh", "openssh", {}, None, True),
           ("public-openssh-comment", "openssh", {"comment": b"user@host"}, None, True),
           ("private-blob", None, {}, "private_blob", False),
           ("openssh-v1", "openssh", {"subtype": "v1"}, None, False),
           ("openssh-v1-comment", "openssh", {"subtype": "v1", "comment": b"a comment"}, None, False),
           ("openssh-v1-pass", "openssh", {"subtype": "v1", "passphrase": b"correct horse"}, None, False),
           ("openssh-default", "openssh", {}, None, False),
           ("openssh-default-pass", "openssh", {"passphrase": b"no subtype given"}, None, False)]
    if t != "Ed25519":
        out += [("openssh-pem", "openssh", {"subtype": "PEM"}, None, False),
                ("openssh-pem-pass", "openssh", {"subtype": "PEM", "passphrase": b"pw"}, None, False)]
    if t in ("RSA", "DSA"):
        out += [("public-lsh", "lsh", {}, None, True), ("private-lsh", "lsh", {}, None, False),
                ("agentv3", "agentv3", {}, None, False)]
    return out


def _fmt_obs(case) -> str:
    from twisted.conch.ssh import keys
    K = build_key(case["key"])
    name = case["fmt"]
    spec = [f for f in formats_for(case["key"]["type"]) if f[0] == name][0]
    _, ttype, kw, ftype, public = spec
    if "comment" in case:                 # explicit comment (its length decides the padding of openssh-key-v1)
        kw = dict(kw)
        kw["comment"] = bytes.fromhex(case["comment"])
    if "pp" in case:                      # explicit passphrase: {"b": hex} = bytes, {"s": text} = str
        kw = dict(kw)
        kw["passphrase"] = bytes.fromhex(case["pp"]["b"]) if "b" in case["pp"] else case["pp"]["s"]
    src = K.public() if public else K
    same_as_keyword = True
    if name == "blob":
        s = src.blob()
    elif name == "private-blob":
        s = src.privateBlob()
    elif case.get("via"):
        # the same comment / passphrase handed over through the deprecated `extra` argument (a public key takes it
        # as the comment, a private key as the passphrase), as text or as bytes
        import warnings
        which = "comment" if public else "passphrase"
        val = kw[which]
        kw2 = {k: v for k, v in kw.items() if k != which}
        if case["via"] == "extra-str":
            ex = val.decode("utf-8") if isinstance(val, bytes) else val
        else:
            ex = val.encode("utf-8") if isinstance(val, str) else val
        with warnings.catch_warnings():
            warnings.simplefilter("ignore", DeprecationWarning)
            try:
                s = src.toString(ttype, extra=ex, **kw2)
            except (TypeError, ValueError, keys.BadKeyError) as e:
                return "NE:toString-via-extra-raised-" + type(e).__name__
        if which == "comment":
            same_as_keyword = (s == src.toString(ttype, **kw))      # deterministic: must be byte-identical
    else:
        s = src.toString(ttype, **kw)
    if not same_as_keyword:
        return "NE:extra-serialises-differently"
    try:
        K2 = keys.Key.fromString(s, type=ftype, passphrase=kw.get("passphrase"))
    except (keys.BadKeyError, keys.EncryptedKeyError) as e:
        return "NE:unreadable-" + type(e).__name__        # its own serialisation is not read back
    probs = []
    if K2 != src:
        probs.append("not-equal")
    if K2.isPublic() != src.isPublic():
        probs.append("publicness")
    for ff in (keys.FingerprintFormats.MD5_HEX, keys.FingerprintFormats.SHA256_BASE64):
        if K2.fingerprint(ff) != K.fingerprint(ff):
            probs.append("fingerprint")
    if K2.public() != K.public():
        probs.append("public-part")
    return "OK" if not probs else "NE:" + "+".join(sorted(set(probs)))


# ----------------------------------------------------------------------------------------------
# implementation driver

def impl(case) -> str:
    from twisted.conch.ssh import common
    k = case["kind"]
    if k == "ns":
        xs = [bytes.fromhex(x) for x in case["xs"]]
        rest = bytes.fromhex(case["rest"])
        # NS also accepts text, which it must encode as UTF-8 first: elements flagged in case["text"] are passed as str
        text = case.get("text") or [False] * len(xs)
        try:
            b = b"".join(common.NS(x.decode("utf-8") if t else x) for x, t in zip(xs, text))
        except Exception as e:
            return _exn(e)
        try:
            r = common.getNS(b + rest, len(xs))
        except Exception as e:
            return b.hex() + "|" + _exn(e)
        return b.hex() + "|" + ",".join(x.hex() for x in r[:-1]) + "|" + r[-1].hex()
    if k == "getns":
        try:
            r = common.getNS(bytes.fromhex(case["data"]), case["count"])
        except Exception as e:
            return _exn(e)
        return ",".join(x.hex() for x in r[:-1]) + "|" + r[-1].hex()
    if k == "mp":
        rest = bytes.fromhex(case["rest"])
        try:
            b = b"".join(common.MP(n) for n in case["ns"])
        except Exception as e:
            return _exn(e)
        try:
            r = common.getMP(b + rest, len(case["ns"]))
        except Exception as e:
            return b.hex() + "|" + _exn(e)
        return b.hex() + "|" + ",".join(hx(x) for x in r[:-1]) + "|" + r[-1].hex()
    if k == "getmp":
        try:
            r = common.getMP(bytes.fromhex(case["data"]), case["count"])
        except Exception as e:
            return _exn(e)
        return ",".join(hx(x) for x in r[:-1]) + "|" + r[-1].hex()
    if k == "key":
        from twisted.conch.ssh import keys
        K = build_key(case["key"]).public()
        b = K.blob()
        K2 = keys.Key.fromString(b, type="blob")
        return b.hex() + "|" + show_pub(K2)
    if k == "keyfmt":
        return _fmt_obs(case)
    raise ValueError(k)


# ----------------------------------------------------------------------------------------------
# property oracle (independent of the Coq model)

def _ref_string(x: bytes) -> bytes:          # RFC 4251 section 5 "string"
    return len(x).to_bytes(4, "big") + x


def _ref_mpint(n: int) -> bytes:             # RFC 4251 section 5 "mpint", n >= 0
    if n == 0:
        return b"\0\0\0\0"
    body = n.to_bytes(n.bit_length() // 8 + 1, "big")     # two's complement, minimal, sign bit clear
    return len(body).to_bytes(4, "big") + body


def oracle(case, obs):
    k = case["kind"]
    if k == "ns":
        xs = [bytes.fromhex(x) for x in case["xs"]]
        want = b"".join(_ref_string(x) for x in xs).hex() + "|" + ",".join(x.hex() for x in xs) + "|" + case["rest"]
        if obs != want:
            part = "encode" if obs.split("|")[0] != want.split("|")[0] else "decode"
            return Failure(case, f"NS/getNS round trip: got {obs[:120]}, want {want[:120]}", f"ns-{part}")
        return None
    if k == "mp":
        ns = case["ns"]
        if any(n < 0 for n in ns):
            if obs != "E:AssertionError":
                return Failure(case, "MP of a negative number must be refused", "mp-negative-accepted")
            return None
        want = b"".join(_ref_mpint(n) for n in ns).hex() + "|" + ",".join(hx(n) for n in ns) + "|" + case["rest"]
        if obs != want:
            part = "encode" if obs.split("|")[0] != want.split("|")[0] else "decode"
            return Failure(case, f"MP/getMP round trip: got {obs[:120]}, want {want[:120]}", f"mp-{part}")
        return None
    if k in ("getns", "getmp"):
        # decoding arbitrary data: when nothing was cut short, the pieces re-assemble to the input
        if obs.startswith("E:"):
            if obs != "E:StructError":
                return Failure(case, "unexpected exception " + obs, "get-exception")
            return None
        data = bytes.fromhex(case["data"])
        vals, rest = obs.split("|")
        vals = vals.split(",") if case["count"] > 0 else []
        if len(vals) != case["count"]:
            return Failure(case, "wrong number of values", "get-count")
        pos = 0
        for v in vals:
            if len(data) < pos + 4:
                return Failure(case, "a value was produced without a complete length field", "get-no-header")
            l = int.from_bytes(data[pos:pos + 4], "big")
            payload = data[pos + 4:pos + 4 + l]
            got = bytes.fromhex(v) if k == "getns" else None
            if k == "getns" and got != payload:
                return Failure(case, "string payload differs from the framed bytes", "getns-payload")
            if k == "getmp" and int(v, 16) != int.from_bytes(payload, "big"):
                return Failure(case, "integer differs from the framed bytes", "getmp-payload")
            pos += 4 + l
        if bytes.fromhex(rest) != data[pos:]:
            return Failure(case, "rest differs", "get-rest")
        return None
    if k == "key":
        kd = case["key"]
        t = kd["type"]
        if t == "RSA":
            blob = _ref_string(b"ssh-rsa") + _ref_mpint(kd["e"]) + _ref_mpint(kd["n"])
            shown = f"RSA:{hx(kd['e'])},{hx(kd['n'])}"
        elif t == "DSA":
            blob = _ref_string(b"ssh-dss") + b"".join(_ref_mpint(kd[c]) for c in "pqgy")
            shown = f"DSA:{hx(kd['p'])},{hx(kd['q'])},{hx(kd['g'])},{hx(kd['y'])}"
        elif t == "EC":
            L = {"256": 32, "384": 48, "521": 66}[kd["curve"]]
            nm = b"ecdsa-sha2-nistp" + kd["curve"].encode()
            blob = _ref_string(nm) + _ref_string(b"nistp" + kd["curve"].encode()) + _ref_string(
                b"\x04" + kd["x"].to_bytes(L, "big") + kd["y"].to_bytes(L, "big"))       # RFC 5656 3.1
            shown = f"EC{kd['curve']}:{hx(kd['x'])},{hx(kd['y'])}"
        else:
            blob = _ref_string(b"ssh-ed25519") + _ref_string(bytes.fromhex(kd["a"]))      # RFC 8709 4
            shown = "ED:" + kd["a"]
        want = blob.hex() + "|" + shown
        if obs != want:
            part = "encode" if obs.split("|")[0] != blob.hex() else "decode"
            return Failure(case, f"public blob of a {t} key: got {obs[:100]}, want {want[:100]}", f"blob-{t}-{part}")
        return None
    if k == "keyfmt":
        if obs == "OK":
            return None
        kd = case["key"]
        tag = f"keyfmt-{kd['type']}-{case['fmt']}-{obs}"
        if "comment" in case:
            tag = f"keyfmt-{case['fmt']}-comment-length-{obs.split(':', 1)[1]}"
        elif case.get("via"):
            tag = f"keyfmt-{case['fmt']}-via-{case['via']}-{obs.split(':', 1)[1]}"
        elif "pp" in case:
            pp = bytes.fromhex(case["pp"]["b"]) if "b" in case["pp"] else case["pp"]["s"].encode("utf-8")
            tag = f"keyfmt-{case['fmt']}-passphrase-{'over' if len(pp) > 72 else 'upto'}-72-bytes-{obs.split(':')[0]}"
        if kd["type"] == "RSA" and case["fmt"] == "private-lsh" and kd["p"] > kd["q"] and obs == "NE:not-equal":
            tag = "lsh-private-rsa-p-gt-q"
        return Failure(case, f"{kd['type']} key through format {case['fmt']}: {obs}", tag)
    return Failure(case, "unknown case kind", "harness")


# ----------------------------------------------------------------------------------------------
# generators

def _rbytes(rng, n):
    return bytes(rng.getrandbits(8) for _ in range(n))


def _rand_string(rng):
    k = rng.random()
    if k < 0.15:
        return b""
    if k < 0.5:
        return _rbytes(rng, rng.randrange(1, 6))
    if k < 0.7:
        # payloads that look like length fields themselves
        return rng.choice([b"\0\0\0\0", b"\0\0\0\1", b"\xff\xff\xff\xff", b"\0\0\0\5ab", b"\x80"])
    if k < 0.95:
        return _rbytes(rng, rng.choice([15, 16, 17, 255, 256, 257]))
    return _rbytes(rng, rng.choice([65535, 65536, 65537]))


def _rand_int(rng):
    k = rng.random()
    if k < 0.1:
        return rng.choice([0, 1, 127, 128, 255, 256, 32767, 32768, 65535, 65536])
    if k < 0.5:
        b = rng.choice([7, 8, 9, 15, 16, 17, 31, 32, 33, 63, 64, 65, 255, 256, 257, 1023, 1024, 2047, 2048, 4095, 4096])
        return rng.choice([2 ** b - 1, 2 ** b, 2 ** b + 1, max(0, 2 ** b - rng.randrange(1, 1000)), rng.getrandbits(b) | (1 << (b - 1))])
    if k < 0.9:
        return rng.getrandbits(rng.randrange(1, 4097))
    return rng.getrandbits(rng.randrange(1, 80))


def _mutate(rng, b: bytes) -> bytes:
    b = bytearray(b)
    k = rng.random()
    if k < 0.3 and b:
        del b[rng.randrange(len(b)):]                         # truncate
    elif k < 0.6 and b:
        i = rng.randrange(len(b))
        b[i] = rng.choice([0, 1, 0x7F, 0x80, 0xFF, b[i] ^ (1 << rng.randrange(8))])
    elif k < 0.8:
        i = rng.randrange(len(b) + 1)
        b[i:i] = _rbytes(rng, rng.randrange(1, 5))
    else:
        b += _rbytes(rng, rng.randrange(0, 6))
    return bytes(b)


def key_pool(rng, tier):
    pool = []
    sizes = [(1024, "lt"), (1024, "gt"), (1024, "gt"), (2048, "lt")] if tier == "quick" else \
        [(1024, "lt"), (1024, "gt"), (1032, "gt"), (1536, "lt"), (2048, "gt"), (2048, "lt"), (3072, "gt"), (4096, "lt")]
    for bits, order in sizes:
        pool.append(gen_rsa(rng, bits, order))
    for w in ([0, 1, 2] if tier == "quick" else [0, 0, 1, 1, 2, 2]):
        pool.append(gen_dsa(rng, w))
    for size in ["256", "384", "521"] * (2 if tier == "quick" else 6):
        pool.append(gen_ec(rng, size))
    for _ in range(3 if tier == "quick" else 10):
        pool.append(gen_ed(rng))
    return pool


TEXTS = ["", "a", "password", "p\u00e4ssword", "\u00e9" * 40, "\u00df", "\u4e2d\u6587\u5bc6\u7801", "\U0001f511key", "x" * 255 + "\u00e9",
         "na\u00efve caf\u00e9", "\u0000\u00ff"]
PASSPHRASES = [{"b": (b"b" * 72).hex()}, {"b": (b"c" * 73).hex()}, {"s": "\u00e9" * 40}, {"b": (b"d" * 100).hex()},
               {"b": (b"a" * 71).hex()}, {"s": "\u00e9" * 36}, {"s": "e" * 73}, {"b": ("\u00e9" * 37).encode("utf-8").hex()},
               {"s": "short \u00fcml"}, {"b": b"\xff\xfe".hex() * 40}]


def gen_wire(rng, n):
    """the NS/MP/getNS/getMP cases only (also the search space when a tie breaks: no key generation)"""
    cases = []
    for _ in range(n):
        xs = [_rand_string(rng) for _ in range(rng.choice([0, 1, 1, 1, 2, 3, 5]))]
        cases.append({"kind": "ns", "xs": [x.hex() for x in xs], "rest": _rbytes(rng, rng.choice([0, 0, 1, 3, 4, 9])).hex()})
    for _ in range(max(10, n // 4)):
        # text arguments (NS encodes str as UTF-8), mixed with byte strings, non-ASCII included
        ts = [rng.choice(TEXTS) for _ in range(rng.choice([1, 1, 2, 3]))]
        xs = [t.encode("utf-8") for t in ts]
        flags = [rng.random() < 0.8 for _ in ts]
        cases.append({"kind": "ns", "xs": [x.hex() for x in xs], "text": flags,
                      "rest": _rbytes(rng, rng.choice([0, 1, 4, 9])).hex()})
    return cases


def gen(rng, tier):
    n = 200 if tier == "quick" else 2000
    cases = gen_wire(rng, n)
    for _ in range(n):
        ns = [_rand_int(rng) for _ in range(rng.choice([0, 1, 1, 1, 2, 3, 4]))]
        if rng.random() < 0.05 and ns:
            ns[rng.randrange(len(ns))] = -rng.choice([1, 2, 128, 2 ** 64])
        cases.append({"kind": "mp", "ns": ns, "rest": _rbytes(rng, rng.choice([0, 0, 1, 3, 4, 9])).hex()})
    for _ in range(n):
        from_valid = rng.random() < 0.7
        cnt = rng.choice([0, 1, 1, 2, 3])
        if rng.random() < 0.5:
            data = b"".join(_ref_string(_rand_string(rng)[:300]) for _ in range(cnt + rng.choice([0, 0, 1])))
            kind = "getns"
        else:
            data = b"".join(_ref_mpint(_rand_int(rng)) for _ in range(cnt + rng.choice([0, 0, 1])))
            kind = "getmp"
        if not from_valid or rng.random() < 0.6:
            data = _mutate(rng, data)
        cases.append({"kind": kind, "data": data.hex(), "count": cnt})
    pool = key_pool(rng, tier)
    slow = 0
    for kd in pool:
        cases.append({"kind": "key", "key": kd})
        for f in formats_for(kd["type"]):
            if f[0] == "openssh-v1-pass":      # bcrypt KDF: ~0.2 s per direction
                slow += 1
                if tier == "quick" and slow > 6:
                    continue
            cases.append({"kind": "keyfmt", "key": kd, "fmt": f[0]})
    # passphrases around bcrypt's 72-byte input limit, multi-byte text, bytes vs str (bcrypt KDF: ~1 s per case)
    bytype = {}
    for kd in pool:
        bytype.setdefault(kd["type"], []).append(kd)
    small = [bytype[t][0] for t in ("Ed25519", "RSA", "EC", "DSA")] + [bytype["EC"][-1], bytype["Ed25519"][-1]]
    # openssh-key-v1 pads check values + private blob + comment to the cipher block (16 encrypted, 8 plain) with
    # 1,2,3,...; the comment length decides how many padding bytes there are - possibly NONE.  Unencrypted: every
    # comment length 0..16 for every key type; encrypted (bcrypt, ~1 s each): the lengths around the one that leaves
    # no padding in quick, every length 0..16 in thorough.
    for kd in [bytype[t][0] for t in ("Ed25519", "RSA", "EC", "DSA")] + ([bytype["EC"][-1]] if tier != "quick" else []):
        blob_len = len(build_key(kd).privateBlob())
        none_left = (-(8 + blob_len + 4)) % 16
        for L in range(17):
            cases.append({"kind": "keyfmt", "key": kd, "fmt": "openssh-v1-comment", "comment": (b"c" * L).hex()})
            if tier != "quick" or (L - none_left) % 16 in (15, 0, 1):
                cases.append({"kind": "keyfmt", "key": kd, "fmt": "openssh-v1-pass", "comment": (b"c" * L).hex()})
    # the deprecated `extra` argument as another way to hand over the same comment / passphrase, as str and bytes
    for i, kd in enumerate(small):
        for via in ("extra-str", "extra-bytes"):
            cases.append({"kind": "keyfmt", "key": kd, "fmt": "public-openssh-comment", "via": via})
            if kd["type"] != "Ed25519":
                cases.append({"kind": "keyfmt", "key": kd, "fmt": "openssh-pem-pass", "via": via})
            if tier != "quick" or i < 2:
                cases.append({"kind": "keyfmt", "key": kd, "fmt": "openssh-v1-pass", "via": via})
                cases.append({"kind": "keyfmt", "key": kd, "fmt": "openssh-default-pass", "via": via})
    cases.append({"kind": "keyfmt", "key": small[0], "fmt": "openssh-v1-pass", "via": "extra-str", "pp": {"s": "p\u00e4ss \u00e9"}})
    cases.append({"kind": "keyfmt", "key": small[1], "fmt": "openssh-pem-pass", "via": "extra-str", "pp": {"s": "p\u00e4ss \u00e9"}})
    for i, pp in enumerate(PASSPHRASES if tier != "quick" else PASSPHRASES[:6]):
        for j in range(1 if tier == "quick" else 4):
            kd = small[(i + j) % len(small)]
            cases.append({"kind": "keyfmt", "key": kd, "fmt": "openssh-v1-pass", "pp": pp})
            if kd["type"] != "Ed25519" and (i + j) % 2:
                cases.append({"kind": "keyfmt", "key": kd, "fmt": "openssh-pem-pass", "pp": pp})
    return cases


def corpus():
    p = os.path.join(VERIF, "corpus/C37/seeds.json")
    return json.load(open(p)) if os.path.exists(p) else []


def to_coq(case):
    k = case["kind"]
    if k == "ns":
        xs = [bytes.fromhex(x) for x in case["xs"]]
        if sum(map(len, xs)) > 300:
            return None
        return f"CNs {coq_list([coq_bytes(x) for x in xs], '(list N)')} {coq_bytes(bytes.fromhex(case['rest']))}"
    if k == "getns":
        return f"CGetNs {coq_bytes(bytes.fromhex(case['data']))} {coq_nat(case['count'])}"
    if k == "mp":
        bits = sum(abs(n).bit_length() for n in case["ns"])
        if bits > 1100 and (bits % 7) != 0:      # the rest still goes through the oracle
            return None
        return f"CMp {coq_list([coq_Z(n) for n in case['ns']], 'Z')} {coq_bytes(bytes.fromhex(case['rest']))}"
    if k == "getmp":
        if len(case["data"]) > 600 and (len(case["data"]) % 5) != 0:
            return None
        return f"CGetMp {coq_bytes(bytes.fromhex(case['data']))} {coq_nat(case['count'])}"
    if k == "key":
        kd = case["key"]
        t = kd["type"]
        if t == "RSA":
            return f"CKey (RSA {coq_Z(kd['e'])} {coq_Z(kd['n'])})"
        if t == "DSA":
            return f"CKey (DSA {coq_Z(kd['p'])} {coq_Z(kd['q'])} {coq_Z(kd['g'])} {coq_Z(kd['y'])})"
        if t == "EC":
            return f"CKey (EC P{kd['curve']} {coq_Z(kd['x'])} {coq_Z(kd['y'])})"
        return f"CKey (ED {coq_bytes(bytes.fromhex(kd['a']))})"
    return None


def hist(case, obs):
    k = case["kind"]
    if k == "keyfmt":
        return f"keyfmt:{case['key']['type']}:{case['fmt']}"
    if k == "key":
        return "key:" + case["key"]["type"]
    if k in ("getns", "getmp"):
        return k + (":error" if obs.startswith("E:") else ":ok")
    return k + (":refused" if obs.startswith("E:") else ":ok")


def describe(case):
    if case["kind"] in ("key", "keyfmt"):
        kd = case["key"]
        d = {"kind": case["kind"], "type": kd["type"]}
        if "pp" in case:
            d["passphrase"] = case["pp"]
        if "via" in case:
            d["via"] = case["via"]
        if "comment" in case:
            d["comment_length"] = len(case["comment"]) // 2
        if "fmt" in case:
            d["fmt"] = case["fmt"]
        if kd["type"] == "RSA":
            d["bits"] = kd["n"].bit_length()
            d["p<q"] = kd["p"] < kd["q"]
        if kd["type"] == "EC":
            d["curve"] = kd["curve"]
        return d
    return case


def shrink(case):
    k = case["kind"]
    if k == "ns":
        xs = case["xs"]
        for i in range(len(xs)):
            yield {**case, "xs": xs[:i] + xs[i + 1:]}
        for i, x in enumerate(xs):
            if len(x) > 2:
                yield {**case, "xs": xs[:i] + [x[: (len(x) // 4) * 2]] + xs[i + 1:]}
        if case["rest"]:
            yield {**case, "rest": ""}
    elif k == "mp":
        ns = case["ns"]
        for i in range(len(ns)):
            yield {**case, "ns": ns[:i] + ns[i + 1:]}
        for i, n in enumerate(ns):
            if abs(n) > 1:
                yield {**case, "ns": ns[:i] + [n >> 8 if n > 0 else -((-n) >> 8)] + ns[i + 1:]}
                yield {**case, "ns": ns[:i] + [1 << (n.bit_length() - 1) if n > 0 else n] + ns[i + 1:]}
        if case["rest"]:
            yield {**case, "rest": ""}
    elif k in ("getns", "getmp"):
        d = case["data"]
        if case["count"] > 1:
            yield {**case, "count": case["count"] - 1}
        if len(d) > 2:
            yield {**case, "data": d[:-2]}


SPEC = Spec(
    pid="C37",
    gen=gen,
    impl=impl,
    oracle=oracle,
    coq_header="From TwLib Require Import PyInt.\nFrom C37 Require Import Gen Model Run.",
    coq_fn="run_show",
    to_coq=to_coq,
    corpus=corpus,
    regen=lambda: tr.regen(REPO, COQ),
    search=lambda rng: gen_wire(rng, 1500),        # when a tie breaks: wire cases only (no key generation)
    shrink=shrink,
    histogram=hist,
    describe=describe,
    nontrivial=lambda c, o: not (c["kind"] in ("ns", "mp") and not c.get("xs", c.get("ns"))),
    case_timeout=30.0,
    rule="ns/mp: 0-5 random strings / integers per case (empty, 1-5 bytes, length-field look-alikes, 15-17, 255-257, "
         "65535-65537 bytes; integers at 2^b-1, 2^b, 2^b+1 for byte/word boundaries up to 2^4096, random widths "
         "1..4096, 5% negatives) with 0-9 trailing bytes; getns/getmp: valid streams, 60% mutated (truncate, "
         "flip/replace a byte, insert, append), count 0-3; key: deterministic (seeded) keys — RSA 1024-4096 with "
         "p<q and p>q, DSA 1024/2048 over fixed parameter sets, ECDSA P-256/384/521 incl. small scalars and "
         "leading-zero coordinates, Ed25519 — public blob vs the model; keyfmt: every key x every format that "
         "supports its type (blob, private blob, public OpenSSH +/- comment, OpenSSH v1 +/- comment +/- passphrase, "
         "PEM +/- passphrase, LSH public/private, agent v3; openssh-v1 with comments of every length 0..16 (plain) and around the "
         "no-padding length (encrypted; all lengths in thorough); comment / passphrase also handed over through the deprecated "
         "`extra` argument as str and as bytes: same serialisation for comments, same round trip): equal key, same publicness, same MD5 and SHA256 "
         "fingerprints, same public part. non-trivial = anything but an empty ns/mp list",
    trusted=[
        "translator translate/c37.py (fail-closed; validated by this correspondence run)",
        "coq/Lib/PyInt.v as the semantics of struct.pack/unpack('!L'), slicing, int.from_bytes, "
        "cryptography.utils.int_to_bytes, ord, & (validated by the same run on boundary values)",
        "NS's isinstance(t, str) -> utf-8 prologue is recognised structurally and not modelled",
        "Key.blob / _fromString_BLOB: hand-written model (coq/C37/Model.v) tied on generated keys; what "
        "`cryptography` does with the parsed numbers (validation, key objects) is not modelled",
        "private formats (PEM, openssh-key-v1, bcrypt KDF, AES-CTR, base64, LSH s-expressions, agent v3): "
        "no Coq model; checked by the round-trip oracle on the generated key pool only",
    ],
    assumptions=["byte strings shorter than 2^32 bytes; integers >= 0 whose encoding is shorter than 2^32-1 bytes",
                 "python is not run with -O (MP's range check is an assert)"],
)
