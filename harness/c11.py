"""C11 — task.Cooperator / CooperativeTask: H-tie (hand-written model coq/C11, correspondence on
generated histories of API calls with a recording scheduler and a unit-count terminator).

case = {"started": bool, "ops": [op, ...]}
  op = ["add", script, co]      cooperate(iterator) (co=False) / coiterate(iterator) (co=True)
                                script = list of "y" (yield a value) | ["d", j] (yield Deferred j) | "r" (raise an Exception)
                                | "rb" (raise SystemExit / GeneratorExit / a BaseException subclass — NOT an Exception)
                                | ["sc", j] / ["sp", j]: yield Deferred j that (unless the history fired j earlier) has already
                                  been FIRED but whose callback chain is suspended — "sc": a callback returned an unfired
                                  Deferred, "sp": it was pause()d — and delivers its result only at ["fire", j, ok];
                                StopIteration at the end of the script
       ["wd", t] ["pause", t] ["resume", t] ["stop", t]      calls on the CooperativeTask of task t
       ["tick", n]              call the pending scheduled call; the terminator turns true after n work units
       ["fire", j, ok]          callback / errback external Deferred j
       ["cstop"] ["cstart"]     Cooperator.stop() / start()

Optional "react": {"<k>": reaction}: what the callback on whenDone/coiterate Deferred number k does when it fires —
RE-ENTRANTLY, i.e. inside _completeWith / Cooperator.stop() / whenDone():
       ["add", script, co]   hand a new task to the same Cooperator        ["fire", j, ok]   fire Deferred j
       ["resume", t]         resume task t
(cases with reactions are outside the Coq model: oracle only)

Observation: for every op "/" followed by its events in order, each terminated by ";":
  a<t>     next() called on the iterator of task t
  d<k>:<r> whenDone/coiterate Deferred number k (request order) fired; r = I (the iterator) | S (TaskStopped)
           | X (SchedulerStopped) | R (exception raised by the iterator) | F<j> (failure of yielded Deferred j)
  s / c    the scheduler was called / the delayed call was cancelled
  !D !S !F !X !N   the call raised TaskDone / TaskStopped / TaskFailed / SchedulerStopped / NotPaused
  e<j>     Deferred j ended with a failure after its callbacks ran
then " |" and, per task, how a whenDone() asked at the very end fires (or "-" if it does not).
"""
from __future__ import annotations

import itertools

from harness.common import Failure, Spec, coq_bool, coq_list

MAXTASKS = 8


# ------------------------------------------------------------------------------------------
# the implementation driver


def impl(case) -> str:
    from twisted.internet import defer, task
    from twisted.python.failure import Failure as TFailure

    class Boom(Exception):
        pass

    class Quit(BaseException):
        pass

    class DefFail(Exception):
        def __init__(self, j):
            Exception.__init__(self, j)
            self.j = j

    evs: list[str] = []
    out: list[str] = []
    pend = []                 # scheduled calls
    units = [1]

    class DC:
        def __init__(self, f):
            self.f, self.state = f, "pending"

        def cancel(self):
            evs.append("c" if self.state == "pending" else "c?" + self.state)
            self.state = "cancelled"

        def active(self):
            return self.state == "pending"

    def sched(f):
        evs.append("s")
        dc = DC(f)
        pend.append(dc)
        return dc

    def terminator_factory():
        left = [units[0]]

        def term():
            left[0] -= 1
            return left[0] <= 0
        return term

    defs = {}
    resolve = {}          # j -> deliver(ok) for Deferreds that are fired but whose chain is suspended
    resolved = set()

    def getd(j, kind="d"):
        if j not in defs:
            if kind == "sc":
                inner = defer.Deferred()
                d = defer.succeed(None)
                d.addCallback(lambda _: inner)
                resolve[j] = lambda ok: inner.callback(None) if ok else inner.errback(TFailure(DefFail(j)))
            elif kind == "sp":
                cell = {}
                d = defer.Deferred()
                d.pause()
                d.callback(None)
                d.addCallback(lambda _: cell["r"])

                def deliver(ok, d=d, cell=cell):
                    cell["r"] = None if ok else TFailure(DefFail(j))
                    d.unpause()
                resolve[j] = deliver
            else:
                d = defer.Deferred()
            defs[j] = d
        return defs[j]

    class It:
        def __init__(self, t, script):
            self.t, self.script, self.i = t, script, 0

        def __iter__(self):
            return self

        def __next__(self):
            evs.append(f"a{self.t}")
            if self.i >= len(self.script):
                raise StopIteration
            a = self.script[self.i]
            self.i += 1
            if a == "y":
                return self.i
            if a == "r":
                raise Boom()
            if a == "rb":
                raise (SystemExit, GeneratorExit, Quit)[self.t % 3]()
            return getd(a[1], a[0])

    def res(r, it):
        if r is it:
            return "I"
        if isinstance(r, TFailure):
            if r.check(task.TaskStopped):
                return "S"
            if r.check(task.SchedulerStopped):
                return "X"
            if r.check(Boom, Quit, SystemExit, GeneratorExit):
                return "R"
            if r.check(DefFail):
                return f"F{r.value.j}"
            return "?" + r.type.__name__
        return "?" + type(r).__name__

    coop = task.Cooperator(terminationPredicateFactory=terminator_factory, scheduler=sched,
                           started=case["started"])
    its, handles, codone = [], [], []
    nwd = [0]

    reacts = case.get("react") or {}

    def watch(d, t):
        k = nwd[0]
        nwd[0] += 1

        def cb(r):
            evs.append(f"d{k}:{res(r, its[t])}")
            rx = reacts.get(str(k))
            if rx is not None:
                if rx[0] == "add":
                    do_add(rx[1], rx[2])
                elif rx[0] == "fire":
                    do_fire(rx[1], rx[2])
                elif rx[1] < len(handles) and handles[rx[1]] is not None:
                    try:
                        handles[rx[1]].resume()
                    except task.SchedulerError as e:
                        evs.append("r" + excs.get(type(e), "!?"))
        d.addBoth(cb)

    def do_add(script, co):
        t = len(its)
        it = It(t, script)
        its.append(it)
        if co:
            handles.append(None)
            codone.append(None)
            d = coop.coiterate(it)
            codone[t] = d
            watch(d, t)
        else:
            handles.append(None)
            codone.append(None)
            handles[t] = coop.cooperate(it)

    def do_fire(j, ok):
        d = getd(j)
        if j not in resolved:
            resolved.add(j)
            if j in resolve:
                resolve[j](ok)
            elif ok:
                d.callback(None)
            else:
                d.errback(TFailure(DefFail(j)))
            # what is left in the application's Deferred after the task's callbacks ran
            if isinstance(d.result, TFailure) and not d.result.check(DefFail):
                evs.append(f"e{j}" if d.result.check(task.NotPaused) else f"e{j}?{d.result.type.__name__}")
                d.addErrback(lambda f: None)

    excs = {task.TaskDone: "!D", task.TaskStopped: "!S", task.TaskFailed: "!F",
            task.SchedulerStopped: "!X", task.NotPaused: "!N"}

    def guarded(f):
        try:
            f()
        except (task.SchedulerError,) as e:
            evs.append(excs.get(type(e), "!?" + type(e).__name__))

    for op in case["ops"]:
        evs.clear()
        k = op[0]
        if k == "add":
            do_add(op[1], op[2])
        elif k in ("wd", "pause", "resume", "stop"):
            t = op[1]
            if t < len(handles) and handles[t] is not None:
                h = handles[t]
                if k == "wd":
                    watch(h.whenDone(), t)
                elif k == "pause":
                    guarded(h.pause)
                elif k == "resume":
                    guarded(h.resume)
                else:
                    guarded(h.stop)
        elif k == "tick":
            live = [dc for dc in pend if dc.state == "pending"]
            if live:
                dc = live[0]
                dc.state = "called"
                units[0] = op[1]
                try:
                    dc.f()
                except (SystemExit, GeneratorExit, Quit) as e:
                    evs.append("!B" + type(e).__name__)       # an iterator's exception escaped the scheduler tick
        elif k == "fire":
            do_fire(op[1], op[2])
        elif k == "cstop":
            coop.stop()
        elif k == "cstart":
            coop.start()
        else:
            raise ValueError(op)
        out.append("/" + "".join(e + ";" for e in evs))
    # final: how does each task report completion now?
    fin = []
    for t, h in enumerate(handles):
        got = []
        if h is not None:
            h.whenDone().addBoth(lambda r, t=t: got.append(res(r, its[t])))
        else:
            d = codone[t]
            if d.called:
                # the watcher consumed the result (addBoth returns None); the class was logged as d<k>
                got.append(_CO)
        fin.append(got[0] if got else "-")
    for d in defs.values():          # the case is over: swallow failures nobody consumed (no log noise at gc)
        d.addErrback(lambda f: None)
    return "".join(out) + " |" + ",".join(fin)


_CO = "*"   # coiterate task finished (its result is the d<k> event; no handle to ask again)


# ------------------------------------------------------------------------------------------
# the property, evaluated on the implementation's log with independent bookkeeping


def parse(obs):
    body, fin = obs.rsplit(" |", 1)
    groups = [g for g in body.split("/")[1:]]
    return [[e for e in g.split(";") if e] for g in groups], (fin.split(",") if fin else [])


class _T:
    def __init__(self, script, co):
        self.script, self.i, self.co = script, 0, co
        self.upause = 0
        self.waiting = None     # unfired Deferred id
        self.fin = None         # result letter once finished
        self.fin_exc = None
        self.wds = []           # whenDone ids requested
        self.wait_units = 0     # bounded wait bookkeeping
        self.removals = 0
        self.appends = 0


class _Out(Exception):
    """the history left the property's domain (an unmatched resume())"""


def oracle(case, obs):
    try:
        groups, fin = parse(obs)
    except Exception:
        return Failure(case, "malformed observation", "log")
    ops = case["ops"]
    reacts = case.get("react") or {}
    if len(groups) != len(ops):
        return Failure(case, "malformed observation (op count)", "log")
    T: list[_T] = []
    dstate = {}
    waiter = {}               # j -> task
    st = {"started": case["started"], "stopped": False, "nwd": 0}
    pending = False
    fired = {}                # wd id -> result letter
    ntotal = sum(1 for o in ops if o[0] == "add") + sum(1 for r in reacts.values() if r[0] == "add")

    def runnable(x):
        return x.fin is None and x.upause == 0 and x.waiting is None

    def finish(x, letter, exc):
        x.fin, x.fin_exc = letter, exc

    def became_runnable(x):
        x.wait_units, x.removals, x.appends = 0, 0, 0
        for y in T:
            if y is not x and runnable(y):
                y.appends += 1
        if st["stopped"]:
            # handed to a stopped (or stopping) Cooperator: completed with SchedulerStopped
            finish(x, "X", "!X")

    def left_list(x):
        for y in T:
            if y is not x and runnable(y):
                y.removals += 1

    def do_add(script, co):
        x = _T(script, co)
        T.append(x)
        if co:
            x.wds.append(st["nwd"])
            st["nwd"] += 1
        became_runnable(x)

    def do_fire(j, ok):
        if j not in dstate:
            dstate[j] = ok
            x = waiter.pop(j, None)
            if x is not None:
                x.waiting = None
                if ok:
                    if x.fin is None and x.upause == 0:
                        became_runnable(x)
                elif x.fin is None:
                    finish(x, f"F{j}", "!F")

    def do_resume(x):
        """returns the expected exception tag or None"""
        if x.upause == 0:
            if x.fin is None and x.waiting is None:
                return "!N"
            raise _Out()       # resume() without a matching pause(): outside the property's histories
        x.upause -= 1
        if x.fin is None and x.upause == 0 and x.waiting is None:
            became_runnable(x)
        return None

    def advance(t, where):
        if t >= len(T):
            return Failure(case, where + "unknown task advanced", "log")
        x = T[t]
        if not runnable(x):
            why = ("finished" if x.fin is not None else "paused" if x.upause else "waiting on a Deferred")
            return Failure(case, where + f"task {t} advanced while {why}", "advanced-while-" + why.split()[0])
        for y in T:
            if y is not x and runnable(y):
                y.wait_units += 1
                bound = ntotal * (1 + y.removals) + y.appends
                if y.wait_units > bound:
                    return Failure(case, where + f"task {T.index(y)} stayed runnable for {y.wait_units} work "
                                   f"units of other tasks without being advanced (bound {bound})", "starved")
        x.wait_units, x.removals, x.appends = 0, 0, 0
        if x.i >= len(x.script):
            finish(x, "I", "!D")
            left_list(x)
        else:
            a = x.script[x.i]
            x.i += 1
            if a in ("r", "rb"):
                finish(x, "R", "!F")
                left_list(x)
            elif a != "y":
                j = a[1]
                if j not in dstate:
                    x.waiting = j
                    waiter[j] = x
                    left_list(x)
                elif dstate[j]:
                    left_list(x)          # pause() + immediate resume(): moves to the end of the list
                    became_runnable(x)
                else:
                    finish(x, f"F{j}", "!F")
                    left_list(x)
        return None

    try:
        for n, (op, es) in enumerate(zip(ops, groups)):
            where = f"op {n} {op} -> {es}: "
            k = op[0]
            expect_exc = None
            before = {i: x.fin for i, x in enumerate(T)}
            cause = k
            if any(e.startswith("!B") for e in es):
                return Failure(case, where + "an exception raised by an iterator escaped the scheduler tick (the task is not "
                               "completed, the other tasks are not rescheduled)", "iterator-exception-escaped-tick")
            if any(e.startswith("r!") for e in es):
                return None        # a reaction's resume() raised: unmatched resume, outside the property's histories
            if any(e.startswith(("a",)) for e in es) and k != "tick":
                return Failure(case, where + "an iterator was advanced outside a scheduler tick", "advance-outside-tick")
            if k == "add":
                do_add(op[1], op[2])
            elif k in ("wd", "pause", "resume", "stop"):
                t = op[1]
                if t < len(T) and not T[t].co:
                    x = T[t]
                    if k == "wd":
                        x.wds.append(st["nwd"])
                        st["nwd"] += 1
                    elif k == "pause":
                        if x.fin is not None:
                            expect_exc = x.fin_exc
                        else:
                            was = runnable(x)
                            x.upause += 1
                            if was:
                                left_list(x)
                    elif k == "stop":
                        if x.fin is not None:
                            expect_exc = x.fin_exc
                        else:
                            was = runnable(x)
                            finish(x, "S", "!S")
                            if was:
                                left_list(x)
                    else:
                        expect_exc = do_resume(x)
            elif k == "fire":
                do_fire(op[1], op[2])
            elif k == "cstop":
                st["stopped"] = True
                for x in T:
                    if runnable(x):
                        finish(x, "X", "!X")
            elif k == "cstart":
                st["stopped"], st["started"] = False, True
            elif k == "tick":
                advs = [int(e[1:]) for e in es if e.startswith("a")]
                if not pending and advs:
                    return Failure(case, where + "work done without a scheduled call", "tick-unscheduled")
                if len(advs) > max(op[1], 1):
                    return Failure(case, where + "more work units than the terminator allows", "tick-units")
                if pending:
                    pending = False
                    if not advs and any(runnable(x) for x in T):
                        return Failure(case, where + "a tick with runnable tasks advanced none", "tick-idle")
            # ---- events of this op, in order: advances, completion Deferreds (and what their callbacks do)
            for e in es:
                if e.startswith("a"):
                    f = advance(int(e[1:]), where)
                    if f is not None:
                        return f
                elif e.startswith("d"):
                    kk, r = e[1:].split(":")
                    kk = int(kk)
                    if kk in fired:
                        return Failure(case, where + f"whenDone Deferred {kk} fired twice", "whendone-twice")
                    fired[kk] = r
                    rx = reacts.get(str(kk))
                    if rx is not None:
                        if rx[0] == "add":
                            do_add(rx[1], rx[2])
                        elif rx[0] == "fire":
                            do_fire(rx[1], rx[2])
                        elif rx[1] < len(T) and not T[rx[1]].co:
                            if do_resume(T[rx[1]]) is not None:
                                raise _Out()
            got_exc = [e for e in es if e.startswith("!")]
            if (expect_exc is not None and got_exc != [expect_exc]) or (expect_exc is None and got_exc):
                tag = "finished-op-wrong-exception" if expect_exc and expect_exc != "!N" else "op-exception"
                return Failure(case, where + f"expected {expect_exc or 'no exception'}, got {got_exc or 'none'}", tag)
            if any(e.startswith("e") for e in es):
                return Failure(case, where + "an error was left in the application's Deferred", "deferred-error")
            for i, x in enumerate(T):
                for kk in x.wds:
                    if x.fin is None and kk in fired:
                        return Failure(case, where + f"whenDone Deferred {kk} of unfinished task {i} fired", "whendone-early")
                    if x.fin is not None and kk not in fired:
                        c = cause if before.get(i) is None else "late"
                        return Failure(case, where + f"task {i} finished ({x.fin}) but its whenDone Deferred {kk} did not fire",
                                       "whendone-not-fired-after-" + {"cstop": "coop-stop"}.get(c, c))
                    if x.fin is not None and fired[kk] != x.fin:
                        return Failure(case, where + f"whenDone Deferred {kk} of task {i} fired with {fired[kk]}, expected {x.fin}",
                                       "whendone-result")
            for e in es:
                if e == "s":
                    if pending:
                        return Failure(case, where + "scheduled twice", "double-schedule")
                    pending = True
                elif e == "c":
                    pending = False
                elif e.startswith("c?"):
                    return Failure(case, where + "cancelled a call that was not pending", "cancel-dead-call")
            want = st["started"] and any(runnable(x) for x in T)
            if pending != want:
                return Failure(case, where + ("runnable tasks but no scheduled call" if want else "scheduled call without runnable tasks"),
                               "not-scheduled-while-runnable" if want else "scheduled-without-work")
    except _Out:
        return None
    # final reports
    for i, x in enumerate(T):
        want = "-" if x.fin is None else (_CO if x.co else x.fin)
        if i >= len(fin) or fin[i] != want:
            got = fin[i] if i < len(fin) else "?"
            if want == "-" or got == "-":
                tag = "final-not-finished" if got == "-" else "final-finished"
            else:
                tag = "completion-overwritten"
            return Failure(case, f"task {i}: a whenDone() asked at the end reports {got}, expected {want}", tag)
    return None


# ------------------------------------------------------------------------------------------
# generation


def normalize(case):
    """Deferred ids are yielded at most once in a case (one waiter per Deferred)."""
    used = set()
    adds = [op for op in case["ops"] if op[0] == "add"] + [r for r in (case.get("react") or {}).values() if r[0] == "add"]
    for op in adds:
        if True:
            for a in op[1]:
                if a not in ("y", "r", "rb"):
                    if a[1] in used:
                        return None
                    used.add(a[1])
    return case


def _script(rng, nextj, maxlen=5):
    s = []
    for _ in range(rng.choice([0, 1, 1, 2, 2, 3, 4, maxlen])):
        r = rng.random()
        if r < 0.55:
            s.append("y")
        elif r < 0.9:
            s.append([rng.choice(["d", "d", "d", "sc", "sp"]), nextj[0]])
            nextj[0] += 1
        else:
            s.append(rng.choice(["r", "r", "rb"]))
            break
    return s


def _random_case(rng, nops, balanced=True):
    ops = []
    nextj = [0]
    nt = 0
    handles = []          # tasks with a handle
    upause = {}
    weights = rng.choice([
        dict(add=3, tick=6, pause=2, resume=2, stop=1, wd=2, fire=3, cstop=0.3, cstart=0.3),
        dict(add=2, tick=8, pause=1, resume=1, stop=0.5, wd=1, fire=4, cstop=0.1, cstart=0.1),
        dict(add=3, tick=3, pause=3, resume=3, stop=2, wd=3, fire=2, cstop=1, cstart=1),
    ])
    kinds, ws = list(weights), list(weights.values())
    for _ in range(nops):
        k = rng.choices(kinds, ws)[0]
        if k == "add":
            if nt >= MAXTASKS:
                k = "tick"
            else:
                co = rng.random() < 0.2
                ops.append(["add", _script(rng, nextj), co])
                if not co:
                    handles.append(nt)
                    upause[nt] = 0
                nt += 1
                continue
        if k == "tick":
            ops.append(["tick", rng.choice([1, 1, 1, 1, 2, 2, 3, 5, 20])])
        elif k in ("pause", "resume", "stop", "wd"):
            if not handles:
                continue
            t = rng.choice(handles)
            if k == "resume" and balanced and upause[t] == 0 and rng.random() < 0.8:
                continue
            if k == "pause":
                upause[t] += 1
            if k == "resume" and upause[t] > 0:
                upause[t] -= 1
            ops.append([k, t])
        elif k == "fire":
            if nextj[0] == 0:
                continue
            ops.append(["fire", rng.randrange(nextj[0] + 1), rng.random() < 0.7])
        else:
            ops.append([k])
    return {"started": rng.random() < 0.85, "ops": ops}


def gen(rng, tier):
    cases = []
    # F2 class: n runnable tasks (some with whenDone, some via coiterate), then Cooperator.stop()
    for n in range(0, 7):
        for wd in (False, True):
            ops = [["add", ["y", "y"], False] for _ in range(n)]
            if wd:
                ops += [["wd", t] for t in range(n)]
            cases.append({"started": True, "ops": ops + [["cstop"]]})
            cases.append({"started": True, "ops": ops + [["tick", max(1, n // 2)], ["cstop"], ["cstart"],
                                                         ["add", ["y"], False], ["tick", 3]]})
    # a task waiting on a Deferred is stopped / finished, then the Deferred fires either way
    for how in (["stop", 0], ["cstop"], ["pause", 0]):
        for ok in (True, False):
            for wd in (False, True):
                ops = [["add", [["d", 0], "y"], False]] + ([["wd", 0]] if wd else []) + \
                      [["tick", 1], how, ["fire", 0, ok], ["wd", 0], ["pause", 0], ["resume", 0], ["stop", 0]]
                cases.append({"started": True, "ops": ops})
    # a yielded Deferred that has already fired but whose callback chain is suspended (chained to an unfired Deferred /
    # paused): the task must not be advanced until the chain delivers, and a late failure must reach whenDone
    for kind in ("sc", "sp"):
        for ok in (True, False):
            for other in (False, True):
                ops = [["add", [[kind, 0], "y", "y"], False]] + ([["add", ["y", "y", "y"], False]] if other else []) + \
                      [["wd", 0], ["tick", 1], ["tick", 2], ["tick", 3], ["fire", 0, ok], ["tick", 3], ["tick", 3]]
                cases.append({"started": True, "ops": ops})
    # RE-ENTRANT whenDone callbacks (oracle only): the callback of a completion Deferred hands a new task to the same
    # Cooperator / fires the Deferred another task waits on / resumes a paused task — while Cooperator.stop(),
    # task.stop(), a tick or whenDone() itself is still running
    rxs = [["add", ["y", "y"], False], ["add", ["y"], True], ["add", [["d", 7], "y"], True], ["fire", 0, True],
           ["fire", 0, False], ["resume", 2]]
    for rx in rxs:
        for trigger in (["cstop"], ["stop", 0], ["tick", 5]):
            for later in ([], [["cstart"], ["tick", 5], ["tick", 5]]):
                ops = [["add", ["y"], False], ["add", [["d", 0], "y"], False], ["add", ["y", "y"], False], ["add", ["y"], False],
                       ["wd", 0], ["wd", 1], ["wd", 2], ["wd", 3], ["tick", 2], ["pause", 2], trigger] + later + \
                      [["wd", 1], ["wd", 2]]
                for kk in (0, 3):
                    cases.append({"started": True, "ops": ops, "react": {str(kk): rx}})
                cases.append({"started": True, "ops": ops, "react": {"0": rx, "3": rxs[(rxs.index(rx) + 1) % len(rxs)],
                                                                     "4": ["add", ["y"], True]}})
    for i in range(150 if tier == "quick" else 4000):
        c = _random_case(rng, rng.randrange(8, 40), balanced=True)
        nreq = sum(1 for o in c["ops"] if o[0] == "wd" or (o[0] == "add" and o[2]))
        if nreq == 0:
            continue
        nt = sum(1 for o in c["ops"] if o[0] == "add")
        react = {}
        nextj = [100]
        for _ in range(rng.randrange(1, 4)):
            kk = rng.randrange(nreq + 1)
            r = rng.random()
            if r < 0.45:
                react[str(kk)] = ["add", _script(rng, nextj, 3), rng.random() < 0.4]
            elif r < 0.75:
                react[str(kk)] = ["fire", rng.randrange(0, 6), rng.random() < 0.6]
            else:
                react[str(kk)] = ["resume", rng.randrange(max(nt, 1))]
        if not any(o[0] == "cstop" for o in c["ops"]) and rng.random() < 0.6:
            c["ops"].insert(rng.randrange(len(c["ops"]) // 2, len(c["ops"]) + 1), ["cstop"])
        c["react"] = react
        cases.append(c)
    # an iterator raises an exception that is not an Exception subclass; the task fails, the others go on
    for t in range(3):
        for pos in range(3):
            scripts = [["y", "y", "y"] for _ in range(3)]
            scripts[pos] = ["y", "rb"]
            ops = [["add", [], False]] * t + [["add", sc, False] for sc in scripts] + \
                  [["wd", t + pos], ["tick", 2], ["tick", 2], ["tick", 3], ["wd", t + pos], ["tick", 20], ["pause", t + pos]]
            cases.append({"started": True, "ops": ops})
    # bounded-exhaustive: short histories over a small alphabet on three fixed tasks
    alpha = [["tick", 1], ["tick", 2], ["pause", 0], ["resume", 0], ["stop", 1], ["fire", 0, True], ["fire", 0, False],
             ["cstop"], ["cstart"], ["wd", 1], ["pause", 1], ["resume", 1]]
    pre = [["add", ["y", ["d", 0], "y"], False], ["add", ["y", "y", "y"], False], ["add", [["d", 1]], True]]
    depth = 3 if tier == "quick" else 4
    for n in range(1, depth + 1):
        for word in itertools.product(alpha, repeat=n):
            if n == depth and tier == "quick" and rng.random() > 0.35:
                continue
            if n == depth and tier != "quick" and rng.random() > 0.5:
                continue
            cases.append({"started": True, "ops": pre + [list(w) for w in word]})
    nrand = 500 if tier == "quick" else 12000
    for i in range(nrand):
        cases.append(_random_case(rng, rng.randrange(5, 45), balanced=True))
    for i in range(nrand // 5):
        cases.append(_random_case(rng, rng.randrange(5, 30), balanced=False))
    return [c for c in cases if normalize(c) is not None]


def corpus():
    return [
        # DESIGN.md section 6, F2: Cooperator.stop() with >= 2 runnable tasks
        {"started": True, "ops": [["add", ["y"], False], ["add", ["y"], False], ["wd", 0], ["wd", 1], ["cstop"]]},
        {"started": True, "ops": [["add", ["y"], True], ["add", ["y"], True], ["add", ["y"], True], ["add", ["y"], True],
                                  ["cstop"]]},
        # found while modelling: stop() a task that waits on a Deferred, then the Deferred fails
        {"started": True, "ops": [["add", [["d", 0], "y"], False], ["wd", 0], ["tick", 1], ["stop", 0],
                                  ["fire", 0, False], ["pause", 0], ["wd", 0]]},
        # already-fired Deferreds whose chain is suspended, resolved later with failure / success
        {"started": True, "ops": [["add", [["sc", 0], "y"], False], ["add", [["sp", 1], "y"], False], ["wd", 0], ["wd", 1],
                                  ["tick", 2], ["tick", 2], ["tick", 2], ["fire", 0, False], ["fire", 1, True], ["tick", 4]]},
        # a whenDone callback hands a follow-up task to the Cooperator while Cooperator.stop() is running
        {"started": True, "ops": [["add", ["y"], False], ["add", ["y"], False], ["wd", 0], ["cstop"], ["cstart"], ["tick", 3]],
         "react": {"0": ["add", ["y"], True]}},
        # removal during the round: the next task is skipped once, never starved
        {"started": True, "ops": [["add", [], False], ["add", ["y", "y"], False], ["add", ["y", "y"], False],
                                  ["tick", 1], ["tick", 1], ["tick", 1], ["tick", 5]]},
        {"started": False, "ops": [["add", ["y"], False], ["tick", 1], ["cstart"], ["tick", 1], ["tick", 1]]},
    ]


def to_coq(case):
    if normalize(case) is None or case.get("react"):
        return None           # re-entrant whenDone callbacks are outside the Coq model (oracle only)

    def act(a):
        return "AYield" if a == "y" else "ARaise" if a in ("r", "rb") else f"AYieldDef {a[1]}"

    def op(o):
        k = o[0]
        if k == "add":
            return f"Add {coq_list(map(act, o[1]), 'action')} {coq_bool(o[2])}"
        if k == "wd":
            return f"WhenDone {o[1]}"
        if k == "pause":
            return f"Pause {o[1]}"
        if k == "resume":
            return f"Resume {o[1]}"
        if k == "stop":
            return f"Stop {o[1]}"
        if k == "tick":
            return f"Tick {o[1]}"
        if k == "fire":
            return f"Fire {o[1]} {coq_bool(o[2])}"
        return "CoopStop" if k == "cstop" else "CoopStart"

    return f"({coq_bool(case['started'])}, {coq_list(map(op, case['ops']), 'op')})"


def model_equal(case, a, b):
    # the model prints the completion result for coiterate tasks too; the implementation can only say "finished"
    if a == b:
        return True
    try:
        ba, fa = a.rsplit(" |", 1)
        bb, fb = b.rsplit(" |", 1)
    except ValueError:
        return False
    if ba != bb:
        return False
    fa, fb = fa.split(","), fb.split(",")
    if len(fa) != len(fb):
        return False
    return all(x == y or (x == _CO and y != "-") for x, y in zip(fa, fb))


def shrink(case):
    ops = case["ops"]
    for i in range(len(ops) - 1, -1, -1):
        if ops[i][0] == "add":
            # removing a task renumbers the later ones
            t = sum(1 for o in ops[:i] if o[0] == "add")
            rest = []
            ok = True
            for o in ops[:i] + ops[i + 1:]:
                if o[0] in ("wd", "pause", "resume", "stop"):
                    if o[1] == t:
                        continue
                    rest.append([o[0], o[1] - 1] if o[1] > t else o)
                else:
                    rest.append(o)
            if ok:
                yield {**case, "ops": rest}
        else:
            yield {**case, "ops": ops[:i] + ops[i + 1:]}
    for kk in list(case.get("react") or {}):
        yield {**case, "react": {a: b for a, b in case["react"].items() if a != kk}}
    for i, o in enumerate(ops):
        if o[0] == "add" and o[1]:
            yield {**case, "ops": ops[:i] + [["add", o[1][:-1], o[2]]] + ops[i + 1:]}
        if o[0] == "tick" and o[1] > 1:
            yield {**case, "ops": ops[:i] + [["tick", 1]] + ops[i + 1:]}


def histogram(case, obs):
    n = sum(1 for o in case["ops"] if o[0] == "add")
    kinds = set(o[0] for o in case["ops"])
    if case.get("react"):
        return f"reentrant-callbacks cstop={'y' if 'cstop' in kinds else 'n'}"
    return f"tasks={n} cstop={'y' if 'cstop' in kinds else 'n'} fire={'y' if 'fire' in kinds else 'n'}"


SPEC = Spec(
    pid="C11",
    gen=gen, impl=impl, oracle=oracle, corpus=corpus, shrink=shrink,
    coq_header="From C11 Require Import Model Run.",
    coq_fn="run_show",
    to_coq=to_coq,
    model_equal=model_equal,
    nontrivial=lambda c, o: o.count("a") >= 2 and "d" in o,
    histogram=histogram,
    rule="Cooperator.stop() on 0-6 runnable tasks (with/without whenDone, continued after start()); a task waiting on a "
         "Deferred stopped/paused/scheduler-stopped and the Deferred then fired either way; every history of length <= 3 "
         "(quick; length 3 sampled 35%) / <= 4 (thorough; length 4 sampled 50%) over a 12-letter alphabet on three fixed "
         "tasks; random histories of 5-45 calls over <= 8 tasks (scripts of plain yields, Deferred yields, raise), ticks of "
         "1-20 work units, Deferreds fired with success or failure before or after being yielded, yielded Deferreds that are already fired "
         "but whose chain is suspended (chained to an unfired Deferred / paused) and resolved later either way, balanced pause/resume, "
         "plus a stream with unmatched resume() (correspondence only); plus (oracle only, outside the Coq model) RE-ENTRANT "
         "whenDone callbacks that add a task / fire a Deferred / resume a task from inside Cooperator.stop(), task.stop(), a "
         "tick or whenDone() (108 targeted + random histories); non-trivial = at least two work units and one "
         "completion Deferred fired; distinct by (case, observation)",
    trusted=["hand-written model coq/C11/Model.v (tied by this correspondence run only)",
             "the model is of the code WITH fixes/C11-coop-stop-copy.patch and fixes/C11-faillater-after-finish.patch",
             "re-entrant calls into the Cooperator from whenDone callbacks are exercised on the implementation and judged by the "
             "oracle only (not in the Coq model); calls from inside iterators are not exercised; each Deferred is yielded by at "
             "most one task"],
    assumptions=["Deferred.addCallbacks on a fired Deferred runs the callback immediately, on an unfired one when it fires "
                 "(C01/C03)", "the scheduler calls back only when the history says so (Tick); the terminator is a unit count"],
)
