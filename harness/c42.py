"""C42 — the IMAP4 client parses what the IMAP4 server serialises: H-tie (hand-written model coq/C42;
correspondence on generated nested structures and on raw parser inputs)."""
from __future__ import annotations

import itertools
import re

from harness.common import Failure, Spec, coq_bytes, coq_list

# case = {"x": <structure>}  or  {"raw": hex}
#   structure: list of  None | int | {"b": hex} | nested list


def _to_py(x):
    if isinstance(x, list):
        return [_to_py(y) for y in x]
    if isinstance(x, dict):
        return bytes.fromhex(x["b"])
    return x


def _show(y) -> str:
    if y is None:
        return "NIL"
    if isinstance(y, bytes):
        return "s" + y.hex()
    if isinstance(y, list):
        return "(" + ",".join(_show(z) for z in y) + ")"
    return "?" + type(y).__name__


def impl(case) -> str:
    from twisted.mail import imap4

    if "raw" in case:
        s = bytes.fromhex(case["raw"])
    else:
        s = imap4.collapseNestedLists(_to_py(case["x"]))
    try:
        p = _show(imap4.parseNestedParens(s))
    except imap4.MismatchedNesting:
        p = "!MismatchedNesting"
    except imap4.MismatchedQuoting:
        p = "!MismatchedQuoting"
    except ValueError:
        p = "!ValueError"
    except IndexError:
        p = "!IndexError"
    return "s=" + s.hex() + " p=" + p


# ----- the property on the observation, without the model ---------------------------------------------------


def _norm(x):
    if isinstance(x, list):
        return [_norm(y) for y in x]
    if isinstance(x, dict):
        return bytes.fromhex(x["b"])
    if isinstance(x, int):
        return str(x).encode()
    return x


def _strings(x):
    for y in x:
        if isinstance(y, list):
            yield from _strings(y)
        elif isinstance(y, dict):
            yield bytes.fromhex(y["b"])


def _is_literal(b: bytes) -> bool:
    return b"\r" in b or b"\n" in b or len(b) > 1000


def _map_strings(x, f):
    return [_map_strings(y, f) if isinstance(y, list) else ({"b": f(bytes.fromhex(y["b"])).hex()} if isinstance(y, dict) else y)
            for y in x]


def _roundtrips(x) -> bool:
    return impl({"x": x}).split(" p=", 1)[1] == _show(_norm(x))


def _classify(case):
    """which input class makes this structure fail: re-run the implementation on the structure with one
    class neutralised at a time"""
    x = case["x"]
    no_bs = _map_strings(x, lambda b: b if _is_literal(b) else b.replace(b"\\", b"/"))
    no_tl = list(x)
    if x and isinstance(x[-1], dict):
        b = bytes.fromhex(x[-1]["b"])
        if _is_literal(b) and b[-1:] in b" \t\n\r\x0b\x0c":
            no_tl[-1] = {"b": (b + b".").hex()}
    both = _map_strings(no_tl, lambda b: b if _is_literal(b) else b.replace(b"\\", b"/"))
    if not _roundtrips(both):
        return "other"
    if not _roundtrips(no_bs):
        return "trailing-literal-ending-in-whitespace"       # fails even without any backslash
    quoted = [b for b in _strings(x) if not _is_literal(b)]
    if any(b.endswith(b"\\") for b in quoted) and " p=!MismatchedQuoting" in impl(case):
        return "quoted-string-ending-in-backslash"
    return "quoted-string-with-backslash"


def _in_known_class(case) -> bool:
    return "x" in case and any(b"\\" in b for b in _strings(case["x"]) if not _is_literal(b))


def oracle(case, obs):
    if "raw" in case:
        return None
    p = obs.split(" p=", 1)[1]
    want = _show(_norm(case["x"]))
    if p != want:
        return Failure(case, f"parse(serialise(x)) = {p[:150]} but x = {want[:150]}", "roundtrip/" + _classify(case))
    return None


def model_equal(case, impl_obs, model_obs):
    if impl_obs == model_obs:
        return True
    # inside the known-finding class (a quoted string containing a backslash) the repaired behaviour is accepted too
    if _in_known_class(case):
        return impl_obs.split(" p=", 1)[1] == _show(_norm(case["x"]))
    # raw parser inputs with a backslash are in the same class, and there is no reference for what a repaired
    # parser returns on arbitrary text: the tie is not asserted there (structured cases carry it)
    if "raw" in case and b"\\" in bytes.fromhex(case["raw"]):
        return True
    return False


# ----- generation ---------------------------------------------------------------------------------------------

ALPHA = [b"\\", b"\\", b'"', b'"', b" ", b"(", b")", b"[", b"]", b"{", b"}", b"\r", b"\n", b"N", b"I", b"L", b"a", b"1",
         b"\t", b"\x00", b"\xff", b"%", b"*", b"\x0b", b"NIL", b"\\\\", b'\\"']


def _str(rng, long_p=0.008):
    r = rng.random()
    if r < long_p:
        return {"b": (b"x" * rng.choice([999, 1000, 1001]) + rng.choice([b"", b"\\", b" "])).hex()}
    if r < 0.1:
        return {"b": rng.choice([b"NIL", b"nil", b"", b"{3}", b"()", b'""', b"\\", b"\\\\", b'\\"', b"a\\", b"\r\n", b"a\n "]).hex()}
    return {"b": b"".join(rng.choice(ALPHA) for _ in range(rng.randrange(0, 6))).hex()}


def _item(rng, d):
    r = rng.random()
    if d > 0 and r < 0.28:
        return [_item(rng, d - 1) for _ in range(rng.randrange(0, 4))]
    if r < 0.38:
        return None
    if r < 0.48:
        return rng.choice([0, 1, -1, 7, 10, 999, 1000, 4294967295, -25, 10 ** 20])
    return _str(rng)


def _raw(rng):
    pieces = [b'"', b"\\", b"(", b")", b"[", b"]", b" ", b"NIL", b"a", b'\\"', b"{2}\r\nab", b"{0}\r\n", b"{3}\r\nx", b"{",
              b"}", b"{1}", b'"a b"', b'"\\\\"', b"\t", b"12", b'x"y"', b"nil", b"Nil ", b" NILL", b"NI", b"NIL", b" "]
    return b"".join(rng.choice(pieces) for _ in range(rng.randrange(0, 8)))


_DIGIT_HDR = re.compile(rb"\{([^}]*)\}")


def _raw_modelled(s: bytes) -> bool:
    """raw inputs inside the modelled fragment: outside quoted strings every {..} header is plain digits
    (int() also accepts signs, spaces and underscores, which the model does not)"""
    i, inq = 0, False
    while i < len(s):
        c = s[i:i + 1]
        if inq:
            if c == b"\\":
                i += 2
                continue
            if c == b'"':
                inq = False
            i += 1
        elif c == b'"':
            inq = True
            i += 1
        elif c == b"{":
            e = s.find(b"}", i)
            if e == -1:
                return True
            h = s[i + 1:e]
            if not h.isdigit() or not h.isascii():
                return h == b""
            i = e + 3 + int(h)
        else:
            i += 1
    return True


def gen(rng, tier):
    quick = tier == "quick"
    cases = []
    for _ in range(900 if quick else 8000):
        cases.append({"x": [_item(rng, 4) for _ in range(rng.randrange(0, 5))]})
    # exhaustive short strings over a 7-symbol alphabet, alone / last in a list / inside a nested list
    alpha = [b"\\", b'"', b" ", b"a", b"\n", b"(", b"{"]
    maxn = 3 if quick else 4
    for n in range(0, maxn + 1):
        for w in itertools.product(alpha, repeat=n):
            if quick and n == 3 and rng.random() > 0.5:
                continue
            s = {"b": b"".join(w).hex()}
            k = rng.randrange(3)
            cases.append({"x": [s] if k == 0 else ([None, s] if k == 1 else [[s, 1], s])})
    for _ in range(300 if quick else 3000):
        cases.append({"raw": _raw(rng).hex()})
    return cases


def corpus():
    B = lambda b: {"b": b.hex()}
    return [
        {"x": [B(b"a\\")]},                                   # F16: MismatchedQuoting
        {"x": [B(b'x\\"y')]},                                 # F16: backslashes not un-doubled
        {"x": [B(b"\\")]},
        {"x": [B(b"a\r\n")]},                                 # trailing literal ending in whitespace
        {"x": [None, 5, B(b"NIL"), [B(b""), [B(b"(")], []], B(b"a\nb"), B(b'"')]},
        {"x": []},
        {"x": [[[[[]]]]]},
        {"x": [B(b"x" * 1000), B(b"y" * 999 + b"\\"), [B(b"z" * 1001)], B(b"w" * 1000 + b" ")]},   # _needsLiteral boundary
        {"raw": b'(a "b c" NIL) {3}\r\nxyz ("\\"")'.hex()},
        {"raw": b"(".hex()},
        {"raw": b'"abc'.hex()},
    ]


def _coq_item(y) -> str:
    if y is None:
        return "INil"
    if isinstance(y, dict):
        return f"IStr {coq_bytes(bytes.fromhex(y['b']))}"
    if isinstance(y, list):
        return "IList " + coq_list([_coq_item(z) for z in y], "item")
    return f"IInt ({y})%Z"


def to_coq(case):
    if "raw" in case:
        s = bytes.fromhex(case["raw"])
        if not _raw_modelled(s):
            return None
        return f"(@inr (list item) (list N) {coq_bytes(s)})"
    return f"(@inl (list item) (list N) {coq_list([_coq_item(y) for y in case['x']], 'item')})"


def shrink(case):
    if "raw" in case:
        return
    x = case["x"]

    def variants(l):
        for i in range(len(l)):
            yield l[:i] + l[i + 1:]
        for i, y in enumerate(l):
            if isinstance(y, list):
                yield l[:i] + y + l[i + 1:]
                for v in variants(y):
                    yield l[:i] + [v] + l[i + 1:]
            elif isinstance(y, dict):
                b = bytes.fromhex(y["b"])
                for k in range(len(b)):
                    yield l[:i] + [{"b": (b[:k] + b[k + 1:]).hex()}] + l[i + 1:]
            elif isinstance(y, int) and y not in (0,):
                yield l[:i] + [0] + l[i + 1:]

    for v in variants(x):
        yield {"x": v}


def _depth(x):
    return 1 + max([_depth(y) for y in x if isinstance(y, list)] or [0])


def histogram(case, obs):
    if "raw" in case:
        return "raw parser input" + (" (error)" if " p=!" in obs else "")
    strs = list(_strings(case["x"]))
    k = f"depth{min(_depth(case['x']), 5)}"
    if any(b"\\" in b or b'"' in b for b in strs):
        k += " esc"
    if any(b"\r" in b or b"\n" in b or len(b) > 1000 for b in strs):
        k += " literal"
    return k


SPEC = Spec(
    pid="C42",
    gen=gen, impl=impl, oracle=oracle, corpus=corpus, shrink=shrink,
    coq_header="From C42 Require Import Model Run.",
    coq_fn="run_case",
    to_coq=to_coq,
    model_equal=model_equal,
    nontrivial=lambda c, o: "x" in c and any(True for _ in _strings(c["x"])),
    histogram=histogram,
    rule="nested structures up to depth 5 of None / ints (incl. negative, > 2^64) / byte strings from a hostile alphabet "
         "(backslash, quote, space, parens, brackets, braces, CR, LF, TAB, VT, NUL, 0xFF, NIL, %, *), strings of 999-1001 "
         "bytes; every string of length <= 3 (quick, 50% of length 3; thorough <= 4) over {\\, \", space, a, LF, (, {} alone / "
         "last / nested; raw parser inputs from a piece table (unbalanced parens, open quotes, short / empty / unterminated "
         "literals) for the correspondence only; non-trivial = the structure contains at least one byte string",
    trusted=["hand-written model coq/C42/Model.v (tied by this correspondence run only)",
             "bytes.replace with a one-byte pattern = flat_map; str(int) / int(digits) = Coq Decimal conversion",
             "int() on literal headers that are not plain ASCII digits is outside the model (such raw inputs skip the model)"],
    assumptions=["parseNestedParens modelled as repaired by fixes/C42-trailing-literal-strip.patch; splitQuoted modelled as "
                 "pinned (known finding F16: quoted strings containing a backslash)"],
)
