"""C58 — ClientService keeps one connection and resolves every waiter.

T-tie: coq/C58/Gen.v (the automat transition table) is regenerated from makeMachine on every run.
H-tie: the behaviours/environment of coq/C58/Model.v are compared with the real ClientService on
generated histories (fake endpoint, StringTransport, task.Clock).

case = {"delays": [int, ...],            retry policy: policy(n) = delays[min(n, len) - 1]
        "prep":   ["ok"|"raise"|"defer", ...],   [] = prepareConnection is None; else the mode of
                                                connection k is prep[k % len]
        "ops":    ["start" | "stop" | ["when", limit|None] | "cok" | "cfail" | "pok" | "pfail"
                   | ["drop", j] | ["adv", dt]]}
"""
from __future__ import annotations

import itertools

from harness.common import COQ, REPO, Failure, Spec, coq_list
from translate import c58 as tr

FKINDS = ("ConnectionRefusedError", "RuntimeError", "ValueError", "CancelledError")


# --------------------------------------------------------------------------------------
# the implementation driver


def impl(case) -> str:
    from twisted.application.internet import ClientService
    from twisted.internet import defer, task
    from twisted.internet.error import ConnectionDone, ConnectionRefusedError
    from twisted.internet.interfaces import IStreamClientEndpoint
    from twisted.internet.protocol import Factory, Protocol
    from twisted.internet.testing import StringTransport
    from twisted.python.failure import Failure as TFailure
    from zope.interface import implementer

    ev: list[str] = []
    delays, prep = case["delays"], case["prep"]

    class Clk(task.Clock):
        def callLater(self, delay, f, *a, **k):
            ev.append(f"T{delay:g}")
            return super().callLater(delay, f, *a, **k)

    class Tr(StringTransport):
        k = -1

        def loseConnection(self):
            ev.append(f"L{self.k}")
            super().loseConnection()

        def abortConnection(self):
            ev.append(f"L{self.k}")
            super().abortConnection()

    clock = Clk()
    atts: list[dict] = []
    conns: list[dict] = []
    preps: list[dict] = []
    fac = Factory.forProtocol(Protocol)

    @implementer(IStreamClientEndpoint)
    class EP:
        def connect(self, factory):
            k = len(atts)
            a = {"state": "pending", "factory": factory}

            def cancelled(d):
                ev.append(f"X{k}")
                a["state"] = "done"

            a["d"] = defer.Deferred(cancelled)
            atts.append(a)
            ev.append(f"A{k}")
            return a["d"]

    def policy(n):
        ev.append(f"R{n}")
        return delays[min(n, len(delays)) - 1]

    def conn_of(p):
        for k, c in enumerate(conns):
            if c["proxy"] is p or c["proto"] is p:
                return k
        return None

    def hook(proto):
        k = conn_of(proto)
        mode = prep[k % len(prep)]
        ev.append(f"P{k}{mode[0]}")
        if mode == "ok":
            return None
        if mode == "raise":
            raise RuntimeError("prepare")
        pr = {"state": "pending", "k": k}

        def pcancel(d):
            ev.append(f"XP{k}")
            pr["state"] = "done"

        pr["d"] = defer.Deferred(pcancel)
        preps.append(pr)
        return pr["d"]

    svc = ClientService(EP(), fac, retryPolicy=policy, clock=clock, prepareConnection=hook if prep else None)
    nwhen = nstop = 0
    out = []
    for op in case["ops"]:
        ev.clear()
        try:
            if op == "start":
                svc.startService()
            elif op == "stop":
                i, nstop = nstop, nstop + 1
                d = svc.stopService()
                d.addCallbacks(lambda v, i=i: ev.append(f"S{i}"), lambda f, i=i: ev.append(f"S{i}:{f.type.__name__}"))
            elif op[0] == "when":
                i, nwhen = nwhen, nwhen + 1
                d = svc.whenConnected(failAfterFailures=op[1])

                def okcb(p, i=i):
                    k = conn_of(p)
                    ev.append(f"W{i}:c{k if k is not None else '?'}")

                d.addCallbacks(okcb, lambda f, i=i: ev.append(f"W{i}:{f.type.__name__}"))
            elif op in ("cok", "cfail"):
                pend = [a for a in atts if a["state"] == "pending"]
                if not pend:
                    ev.append("-")
                else:
                    a = pend[-1]
                    a["state"] = "done"
                    if op == "cok":
                        k = len(conns)
                        proxy = a["factory"].buildProtocol(None)
                        t = Tr()
                        t.k = k
                        conns.append({"proxy": proxy, "proto": getattr(proxy, "_protocol", proxy), "tr": t, "open": True})
                        ev.append(f"O{k}")
                        proxy.makeConnection(t)
                        a["d"].callback(proxy)
                    else:
                        a["d"].errback(TFailure(ConnectionRefusedError()))
            elif op in ("pok", "pfail"):
                pend = [p for p in preps if p["state"] == "pending"]
                if not pend:
                    ev.append("-")
                else:
                    p = pend[-1]
                    p["state"] = "done"
                    if op == "pok":
                        p["d"].callback(None)
                    else:
                        p["d"].errback(TFailure(ValueError("prepare")))
            elif op[0] == "drop":
                live = [c for c in conns if c["open"]]
                if op[1] >= len(live):
                    ev.append("-")
                else:
                    c = live[op[1]]
                    c["open"] = False
                    ev.append(f"D{conns.index(c)}")
                    c["proxy"].connectionLost(TFailure(ConnectionDone()))
            elif op[0] == "adv":
                clock.advance(op[1])
            else:
                raise ValueError(op)
        except Exception as e:
            if type(e).__name__ not in ("NoTransition", "RuntimeError", "AssertionError"):
                raise
            ev.append("!" + type(e).__name__)
        # a failure left in a Deferred the endpoint handed out would be logged as unhandled
        for k, a in enumerate(atts):
            d = a["d"]
            if d.called and not d.callbacks and isinstance(getattr(d, "result", None), TFailure):
                ev.append(f"!U{k}:{d.result.type.__name__}")
                d.addErrback(lambda f: None)
        out.append(",".join(ev) if ev else ".")
    calls = clock.getDelayedCalls()
    if len(calls) > 1:
        timer = "many"
    elif calls:
        r = calls[0].getTime() - clock.seconds()
        timer = str(int(r)) if r == int(r) else repr(r)
    else:
        timer = "None"
    lst = lambda xs: "[" + ",".join(map(str, xs)) + "]"
    return (" ".join(out) + " |open=" + lst(k for k, c in enumerate(conns) if c["open"])
            + " pend=" + lst(k for k, a in enumerate(atts) if a["state"] == "pending")
            + " prep=" + lst(p["k"] for p in preps if p["state"] == "pending")
            + " timer=" + timer)


# --------------------------------------------------------------------------------------
# the property, on the implementation's observation (independent bookkeeping, no model)

KNOWN_CLASS = {
    "raise": "prepare-failed-connection-left-open",
    "pfail": "prepare-failed-connection-left-open",
    "xprep": "stop-while-prepare-pending",
    "dprep": "drop-while-prepare-pending",
}


def _groups(case, obs):
    head = obs.split(" |")[0]
    gs = head.split(" ") if case["ops"] else []
    return [g.split(",") if g != "." else [] for g in gs]


def analyse(case, obs):
    """-> (first property failure or None as (op index, reason, tag), index of the first op at
    which a connection's prepareConnection does not succeed while awaited, kind of that)"""
    ops = case["ops"]
    groups = _groups(case, obs)
    if len(groups) != len(ops):
        return (0, "malformed observation", "log"), None, None
    delays = case["delays"]
    open_, pending, preparing = [], [], set()
    whens: dict[int, dict] = {}       # id -> {"lim":, "fails": failures seen since issue, "fired": bool}
    stops: dict[int, bool] = {}       # id -> fired
    alive_at: dict[int, set] = {}     # stop id -> connections / attempts alive when it was requested
    nwhen = nstop = 0
    consecutive = 0
    running = False               # Service.running: startService / stopService, whichever came last
    flag_at = flag_kind = None
    fail = None
    robust = None

    def bad(t, why, tag):
        nonlocal fail, robust
        f = (t, f"op {t} {ops[t]} -> {','.join(groups[t]) or '.'}: {why}", tag)
        if fail is None:
            fail = f
        # rules that do not depend on which connections are open hold for EVERY history, also after a connection
        # was left untracked by a failed / cancelled / interrupted prepareConnection
        if robust is None and tag in ROBUST_TAGS:
            robust = f

    def flag(t, kind):
        nonlocal flag_at, flag_kind
        if flag_at is None:
            flag_at, flag_kind = t, kind

    for t, (op, g) in enumerate(zip(ops, groups)):
        name = op if isinstance(op, str) else op[0]
        noop = g == ["-"]
        issued_when = issued_stop = None
        if name == "start":
            running = True
        if name == "stop":
            running = False
        if name == "when":
            issued_when, nwhen = nwhen, nwhen + 1
            whens[issued_when] = {"lim": op[1], "fails": 0, "fired": False}
        if name == "stop":
            issued_stop, nstop = nstop, nstop + 1
            stops[issued_stop] = False
            alive_at[issued_stop] = {("c", k) for k in open_} | {("a", k) for k in pending}
        if name in ("cok", "cfail") and not noop and pending:
            pending.pop()
        conn_failure = None           # class name of a connection failure happening in this op
        if name == "cfail" and not noop:
            conn_failure = "ConnectionRefusedError"
        if name == "pfail" and not noop:
            conn_failure = "ValueError"
            flag(t, "pfail")
        if name == "pok" and not noop:
            preparing.clear()
        if name == "pfail" and not noop:
            preparing.clear()
        prev = None
        accepted = name in ("cok", "pok") and not noop
        for e in g:
            if e.startswith("!"):
                bad(t, f"event rejected / unexpected exception ({e})", "rejected-event")
            elif e[0] == "A":
                pending.append(int(e[1:]))
            elif e.startswith("XP"):
                preparing.discard(int(e[2:]))
                flag(t, "xprep")
            elif e[0] == "X":
                k = int(e[1:])
                if k in pending:
                    pending.remove(k)
            elif e[0] == "O":
                open_.append(int(e[1:]))
            elif e[0] == "P":
                k, m = int(e[1:-1]), e[-1]
                if m == "d":
                    preparing.add(k)
                    accepted = False
                if m == "r":
                    conn_failure = "RuntimeError"
                    accepted = False
                    flag(t, "raise")
            elif e[0] == "D":
                k = int(e[1:])
                if k in open_:
                    open_.remove(k)
                if k in preparing:
                    flag(t, "dprep")
            elif e[0] == "R":
                n = int(e[1:])
                if n != consecutive + 1:
                    bad(t, f"retry policy called with {n} although {consecutive} consecutive failure(s) (failed connects, connections "
                           f"rejected by prepareConnection, lost connections -- since the last connection the hook ACCEPTED) precede "
                           f"this one: the argument must be {consecutive + 1}", "retry-count")
                consecutive = n
                accepted = False
            elif e[0] == "T":
                d = e[1:]
                if prev is None or prev[0] != "R":
                    bad(t, "retry scheduled without consulting the policy", "retry-delay")
                else:
                    n = int(prev[1:])
                    want = delays[min(n, len(delays)) - 1]
                    if d != str(want):
                        bad(t, f"retry delay {d}, policy({n}) = {want}", "retry-delay")
            elif e[0] == "W":
                i, res = e[1:].split(":")
                i = int(i)
                w = whens.get(i)
                if w is None:
                    bad(t, "unknown whenConnected Deferred fired", "when-unknown")
                    continue
                if w["fired"]:
                    bad(t, f"whenConnected Deferred {i} fired twice", "when-twice")
                w["fired"] = True
                if res.startswith("c"):
                    k = int(res[1:]) if res[1:].isdigit() else -1
                    if k not in open_ or k in preparing:
                        bad(t, f"whenConnected Deferred {i} fired with a protocol that is not connected/prepared",
                            "when-dead-protocol")
                elif res == "CancelledError":
                    if name != "stop" and not (name == "when" and i == issued_when) and name != "drop":
                        bad(t, f"whenConnected Deferred {i} cancelled outside a stop", "when-cancelled")
                else:
                    lim = w["lim"]
                    if lim is None or conn_failure is None or res != conn_failure or w["fails"] + 1 < max(lim, 1):
                        bad(t, f"whenConnected Deferred {i} (limit {lim}) failed with {res} after "
                               f"{w['fails']}(+1) failure(s)", "when-failed-early")
            elif e[0] == "S":
                i = int(e[1:].split(":")[0])
                if ":" in e:
                    bad(t, "stopService Deferred failed", "stop-failed")
                if i not in stops:
                    bad(t, "unknown stopService Deferred fired", "stop-unknown")
                    continue
                if stops[i]:
                    bad(t, f"stopService Deferred {i} fired twice", "stop-twice")
                stops[i] = True
                still = alive_at[i] & ({("c", k) for k in open_} | {("a", k) for k in pending})
                if still:
                    bad(t, f"stopService Deferred {i} fired while {sorted(still)} (connection / attempt alive when "
                           f"stop was requested) is still open", "stop-fired-open")
            if e[0] == "A" and not running:
                bad(t, "a connection attempt was started although stopService was the last of start/stop "
                       "(a stop while a restart is pending must cancel the restart)", "attempt-while-stopped")
            if e[0] == "O" and not running:
                bad(t, "a connection was opened for a service that is stopped", "connection-while-stopped")
            if e[0] == "W" and ":c" in e and not running:
                bad(t, "whenConnected on a service that is stopped / stopping returned a protocol", "when-connected-while-stopped")
            if e[0] == "A" and not (name in ("start", "adv") or (name == "drop" and any(x[0] == "S" for x in g))):
                bad(t, "a connection attempt was started without start / the retry timer / a restart completing "
                       "(a lost or failed connection must wait for the retry delay)", "attempt-without-delay")
            if len(open_) + len(pending) > 1:
                bad(t, f"more than one open connection or attempt in progress: open={open_} attempts={pending}",
                    "two-connections")
            prev = e
        if accepted:
            consecutive = 0
        # deadlines, evaluated at the end of the op
        if conn_failure is not None:
            for i, w in whens.items():
                if not w["fired"] and i != issued_when:
                    w["fails"] += 1
                    if w["lim"] is not None and w["fails"] >= max(w["lim"], 1):
                        bad(t, f"whenConnected Deferred {i} (limit {w['lim']}) still unfired after {w['fails']} failures",
                            "when-late")
        if accepted:
            late = [i for i, w in whens.items() if not w["fired"]]
            if late:
                bad(t, f"whenConnected Deferred(s) {late} unfired after a connection was made", "when-late")
        if any(e[0] == "S" for e in g):
            late = [i for i, w in whens.items() if not w["fired"]]
            if late and not running:
                bad(t, f"whenConnected Deferred(s) {late} pending at the stop were not failed with CancelledError "
                       f"when the stopService Deferred fired", "when-late")
        if True:
            now_alive = {("c", k) for k in open_} | {("a", k) for k in pending}
            late = [i for i, f in stops.items() if not f and not (alive_at[i] & now_alive)]
            if late:
                bad(t, f"stopService Deferred(s) {late} unfired although everything that was open when stop was requested is closed", "stop-late")
    analyse.robust = robust
    return fail, flag_at, flag_kind


ROBUST_TAGS = ("retry-count", "retry-delay", "when-twice", "stop-twice", "when-unknown", "stop-unknown", "log")


def oracle(case, obs):
    fail, flag_at, flag_kind = analyse(case, obs)
    if fail is None:
        return None
    if analyse.robust is not None:
        # e.g. the consecutive-failure count passed to the retry policy: it is reset only once prepareConnection has
        # accepted a connection (rememberConnection), whatever happened to rejected connections
        t, reason, tag = analyse.robust
        return Failure(case, reason, tag)
    t, reason, tag = fail
    if flag_at is not None and flag_at <= t:
        return Failure(case, reason + f"  [after op {flag_at}: prepareConnection of a connection did not succeed "
                                      f"({flag_kind}) and the connection is no longer tracked]", KNOWN_CLASS[flag_kind])
    return Failure(case, reason, tag)


def model_equal(case, impl_obs, model_obs):
    tainted = model_obs.endswith(" #")
    m = model_obs[:-2] if tainted else model_obs
    if impl_obs == m:
        return True
    if not tainted:
        return False
    # inside the known-finding class a repaired implementation is accepted: it must agree with the model
    # up to the op where prepareConnection fails to succeed, and satisfy the property from there on
    fail, flag_at, _ = analyse(case, impl_obs)
    if fail is not None or flag_at is None:
        return False
    return impl_obs.split(" |")[0].split(" ")[:flag_at] == m.split(" |")[0].split(" ")[:flag_at]


# --------------------------------------------------------------------------------------
# cases

ALPHA = {"s": "start", "t": "stop", "w": ["when", None], "v": ["when", 1], "c": "cok", "f": "cfail",
         "p": "pok", "q": "pfail", "d": ["drop", 0], "a": ["adv", 1]}
CONFIGS = [([1, 2], []), ([1, 2], ["defer"]), ([0, 1], ["raise", "ok"])]


def gen(rng, tier):
    cases = []
    depth = 4 if tier == "quick" else 5
    for delays, prep in CONFIGS:
        letters = [l for l in ALPHA if prep or l not in "pq"]
        if "defer" not in prep:
            letters = [l for l in letters if l not in "pq"]
        for n in range(0, depth + 1):
            for word in itertools.product(letters, repeat=n):
                if n == depth and rng.random() > (0.02 if tier == "quick" else 0.2):
                    continue
                cases.append({"delays": delays, "prep": prep, "ops": ["start"] + [ALPHA[l] for l in word]})
        for n in range(1, 3 if tier == "quick" else 4):
            for word in itertools.product(letters, repeat=n):
                if word[0] != "s":
                    cases.append({"delays": delays, "prep": prep, "ops": [ALPHA[l] for l in word]})
    # every sequence of attempt outcomes {connect fails, hook rejects at once, hook rejects later, accepted at once, accepted
    # later}, each followed by the retry timer: the argument of the retry policy must count consecutive failures since the
    # last ACCEPTED connection (delays differ per argument)
    seq_len = 4 if tier == "quick" else 6
    for n in range(1, seq_len + 1):
        for word in itertools.product("FRrAa", repeat=n):
            if tier == "quick" and n == seq_len and rng.random() > 0.3:
                continue
            if tier != "quick" and n >= 5 and rng.random() > (0.5 if n == 5 else 0.15):
                continue
            ops, prep = ["start"], []
            for w in word:
                if w == "F":
                    ops += ["cfail", ["adv", 20]]
                elif w == "R":
                    prep.append("raise"); ops += ["cok", ["adv", 20]]
                elif w == "r":
                    prep.append("defer"); ops += ["cok", "pfail", ["adv", 20]]
                elif w == "A":
                    prep.append("ok"); ops += ["cok", ["when", None], ["drop", rng.choice([0, 0, 1])], ["adv", 20]]
                else:
                    prep.append("defer"); ops += ["cok", "pok", ["drop", 0], ["adv", 20]]
            cases.append({"delays": [1, 2, 3, 5, 8, 13, 20], "prep": prep or ["ok"], "ops": ops})
    # start/stop/whenConnected while Disconnecting / Restarting, the connection loss delivered afterwards
    rl = 4 if tier == "quick" else 6
    for delays, prep in [([1, 2], []), ([1, 2], ["defer"]), ([0, 1], ["ok"])]:
        pre = ["start", "cok"] + (["pok"] if "defer" in prep else [])
        for n in range(1, rl + 1):
            for word in itertools.product("stwd", repeat=n):
                cases.append({"delays": delays, "prep": prep, "ops": pre + [ALPHA[l] for l in word] + ["cok"]})
    for _ in range(400 if tier == "quick" else 15000):
        delays = [rng.choice([0, 1, 2, 3, 5]) for _ in range(rng.randrange(1, 4))]
        k = rng.random()
        prep = [] if k < 0.3 else [rng.choice(["ok", "defer", "defer", "raise"]) for _ in range(rng.randrange(1, 4))]
        if 0.3 <= k < 0.6:
            prep = [rng.choice(["ok", "defer"]) for _ in range(rng.randrange(1, 3))]     # hooks that never raise
        ops = ["start"] if rng.random() < 0.8 else []
        weights = {"start": 2, "stop": 2, "when": 3, "cok": 4, "cfail": 4, "pok": 3 if "defer" in prep else 0,
                   "pfail": (1 if k >= 0.6 else 0) if "defer" in prep else 0, "drop": 3, "adv": 5}
        names = [n for n, w in weights.items() for _ in range(w)]
        for _ in range(rng.randrange(6, 60)):
            n = rng.choice(names)
            if n == "when":
                ops.append(["when", rng.choice([None, None, 0, 1, 2, 3])])
            elif n == "drop":
                ops.append(["drop", rng.choice([0, 0, 0, 1])])
            elif n == "adv":
                ops.append(["adv", rng.choice([0, 1, 1, 2, 5])])
            else:
                ops.append(n)
        cases.append({"delays": delays, "prep": prep, "ops": ops})
    return cases


def corpus():
    d = [1, 2, 4]
    return [
        # F22: stop while prepareConnection is pending, restart, second connection, first one drops
        {"delays": d, "prep": ["defer"], "ops": ["start", "cok", "stop", "start", "cok", "pok", ["drop", 0], ["drop", 0]]},
        # siblings: the hook rejects the connection / the connection drops while the hook is pending
        {"delays": d, "prep": ["raise", "ok"], "ops": ["start", "cok", ["adv", 1], "cok", ["drop", 0], ["adv", 1], "cok"]},
        {"delays": d, "prep": ["defer"], "ops": ["start", "cok", "pfail", ["adv", 1], "cok"]},
        {"delays": d, "prep": ["defer"], "ops": ["start", "cok", ["drop", 0], "pok", ["when", None], "stop"]},
        # the failure count resets only when the hook has accepted a connection (seeded C58-E): reject x3; fail, fail, reject
        {"delays": [1, 2, 3, 5], "prep": ["raise"], "ops": ["start", "cok", ["adv", 9], "cok", ["adv", 9], "cok", ["adv", 9]]},
        {"delays": [1, 2, 3, 5], "prep": ["defer"], "ops": ["start", "cfail", ["adv", 9], "cfail", ["adv", 9], "cok", "pfail", ["adv", 9], "cok", "pok"]},
        # stop while a restart is pending must cancel the restart (seeded C58-A)
        {"delays": d, "prep": [], "ops": ["start", "cok", "stop", "start", ["when", None], "stop", ["drop", 0], "cok", ["when", None]]},
        # failure limits, retries, stop/restart while disconnecting
        {"delays": d, "prep": [], "ops": ["start", ["when", 1], ["when", 2], ["when", None], "cfail", ["adv", 1], "cfail",
                                          ["adv", 1], ["adv", 1], "cok", "stop", ["drop", 0]]},
        {"delays": d, "prep": [], "ops": ["start", "cok", "stop", "start", ["when", 3], "stop", "start", ["drop", 0], "cok"]},
        {"delays": d, "prep": ["defer"], "ops": ["start", ["when", None], "cok", "pok", ["drop", 0], ["adv", 1], "cfail",
                                                 ["adv", 2], "cok", "pok", "stop", ["drop", 0], "stop"]},
    ]


def to_coq(case):
    def op(o):
        if o == "start":
            return "OStart"
        if o == "stop":
            return "OStop"
        if o in ("cok", "cfail", "pok", "pfail"):
            return {"cok": "OConnOk", "cfail": "OConnFail", "pok": "OPrepOk", "pfail": "OPrepFail"}[o]
        if o[0] == "when":
            return "OWhen None" if o[1] is None else f"OWhen (Some {int(o[1])}%nat)"
        if o[0] == "drop":
            return f"ODrop {int(o[1])}%nat"
        if o[0] == "adv":
            return f"OAdvance {int(o[1])}%N"
        raise ValueError(o)

    pm = {"ok": "PmOk", "raise": "PmRaise", "defer": "PmDefer"}
    if not case["delays"]:
        return None
    return (f"({coq_list([f'({int(x)})%Z' for x in case['delays']], 'Z')}, "
            f"{coq_list([pm[m] for m in case['prep']], 'pmode')}, {coq_list(map(op, case['ops']), 'op')})")


def shrink(case):
    ops = case["ops"]
    for i in range(len(ops)):
        yield {**case, "ops": ops[:i] + ops[i + 1:]}
    if len(case["prep"]) > 1:
        for m in case["prep"]:
            yield {**case, "prep": [m]}


def hist(case, obs):
    _, flag_at, kind = analyse(case, obs)
    cls = "hook=" + ("none" if not case["prep"] else "+".join(sorted(set(case["prep"]))))
    return cls + (" unprepared-connection:" + kind if flag_at is not None else "")


SPEC = Spec(
    pid="C58",
    gen=gen, impl=impl, oracle=oracle, corpus=corpus, shrink=shrink,
    coq_header="From C58 Require Import Model Run.",
    coq_fn="run_show",
    to_coq=to_coq,
    model_equal=model_equal,
    regen=lambda: tr.regen(REPO, COQ),
    nontrivial=lambda c, o: ("O" in o and ("W" in o or "S" in o or "R" in o)),
    histogram=hist,
    rule="for three configurations (no hook; hook returning an unfired Deferred; hook raising on every other "
         "connection): 'start' followed by every word of length <= 4 (quick, the longest length sampled 2%) / <= 5 "
         "(thorough, the longest length sampled 20%) over {start, stop, whenConnected(None), whenConnected(1), connect ok, connect fail, prepare ok, "
         "prepare fail, drop oldest connection, advance 1s}, and every word of length <= 2 (quick) / 3 (thorough) not starting with start; "
         "plus, after a connection is established, every word of length <= 4 (quick) / 6 (thorough) over {start, stop, "
         "whenConnected, drop} followed by a connect (stop/start/stop while Disconnecting or Restarting with the loss "
         "delivered afterwards); plus random histories of 6-60 ops with random retry delays, hook modes, failure limits 0-3 and clock steps; "
         "non-trivial = a connection was opened and some waiter fired or a retry was scheduled; distinct by (case, observation)",
    trusted=["translator translate/c58.py (fail-closed extraction of the automat table from makeMachine)",
             "hand-written behaviours / dispatch / environment in coq/C58/Model.v (tied by this correspondence run only)",
             "automat's TypeMachineBuilder dispatch (postponement of re-entrant inputs, data factory before behaviour) "
             "as modelled in Model.deliver"],
    assumptions=["endpoint.connect returns an unfired Deferred without a firing canceller; prepareConnection returns, "
                 "raises, or returns an unfired Deferred without a firing canceller (Deferred.cancel then fails it "
                 "with CancelledError, C03)",
                 "callbacks attached to whenConnected/stopService Deferreds and the protocol do not call back into the service",
                 "the transport reports connectionLost only when the harness says so (loseConnection does not "
                 "synchronously call connectionLost)"],
)
