"""C28 — template flattening never lets content become markup.

T-tie: coq/C28/Gen.v (escapeForContent, writeWithAttributeEscaping._write, escapedCDATA,
escapedComment, voidElements) is regenerated from src/twisted/web/_flatten.py and _stan.py on every
run; H-tie: coq/C28/Model.v models _flattenElement's context discipline.  The correspondence compares
the bytes written by the real flattenString with the model's, and the Coq reference tokenizer with an
independent Python one (also on raw hostile documents)."""
from __future__ import annotations

import random

from harness.common import COQ, REPO, Failure, Spec, coq_bytes
from translate import c28 as tr

# --------------------------------------------------------------------------------------
# trees (JSON):  {"k": "text"|"cdata"|"comment", "hex": <utf-8/bytes hex>, "str": bool}
#                {"k": "tag", "name": str, "bname": bool, "attrs": [[name, node], ...], "children": [...]}
#                {"k": "seq", "as": "list"|"tuple"|"gen", "items": [...]}
#                {"k": "wrap", "how": "slot-default"|"slot-filled"|"deferred"|"deferred-late"|"renderable"|
#                                     "render-method"|"coroutine", "node": ...}
#                {"k": "raw", "hex": ...}   (tokenizer cross-validation only)


def expand(case):
    """{"k": "long", "kind", "seq", "offset", "total", "str"} -> a div holding one long value (a filler with the
    multi-character sequence placed at the given offset) followed by a sentinel text"""
    if case.get("k") != "long":
        return case
    seq = bytes.fromhex(case["seq"])
    off, total = case["offset"], case["total"]
    data = b"x" * off + seq + b"x" * max(0, total - off - len(seq))
    node = {"k": case["kind"], "hex": data.hex(), "str": bool(case.get("str"))}
    return {"k": "tag", "name": "div", "attrs": [], "children": [node, {"k": "text", "hex": b"<z>".hex(), "str": False}]}


def leaf_bytes(n) -> bytes:
    """bytes of a leaf for the expected structure; a str leaf given as code points ("cps", may hold lone
    surrogates) is taken with its surrogates REMOVED (see the oracle)"""
    if "cps" in n:
        return "".join(chr(c) for c in n["cps"] if not 0xD800 <= c <= 0xDFFF).encode("utf-8")
    return bytes.fromhex(n["hex"])


def has_surrogate(n) -> bool:
    """some str leaf of the tree holds a lone surrogate"""
    k = n["k"]
    if k == "wrap":
        return has_surrogate(n["node"])
    if k == "seq":
        return any(has_surrogate(x) for x in n["items"])
    if k == "tag":
        return any(has_surrogate(v) for _, v in n["attrs"]) or any(has_surrogate(c) for c in n["children"])
    return any(0xD800 <= c <= 0xDFFF for c in n.get("cps", []))


def unwrap(n):
    k = n["k"]
    if k == "wrap":
        return unwrap(n["node"])
    if k == "seq":
        return {"k": "seq", "items": [unwrap(x) for x in n["items"]]}
    if k == "tag":
        return {"k": "tag", "name": n["name"], "attrs": [[a, unwrap(v)] for a, v in n["attrs"]],
                "children": [unwrap(c) for c in n["children"]]}
    if "cps" in n:
        return {"k": k, "cps": n["cps"], "hex": leaf_bytes(n).hex()}
    return {"k": k, "hex": n["hex"]}


_COUNTER = [0]


def _fresh() -> str:
    """a slot name not used by any enclosing slot frame"""
    _COUNTER[0] += 1
    return "s%d" % _COUNTER[0]


def build(n, late):
    """JSON tree -> real flattenable"""
    from twisted.internet.defer import Deferred, succeed
    from twisted.web.iweb import IRenderable
    from twisted.web.template import CDATA, Comment, Tag, slot
    from zope.interface import implementer
    k = n["k"]
    if k in ("text", "cdata", "comment"):
        if "cps" in n:
            v = "".join(chr(c) for c in n["cps"])
        else:
            b = bytes.fromhex(n["hex"])
            v = b.decode("utf-8") if n.get("str") else b
        return v if k == "text" else (CDATA(v) if k == "cdata" else Comment(v))
    if k == "tag":
        name = n["name"].encode("ascii") if n.get("bname") else n["name"]
        t = Tag(name)
        for a, v in n["attrs"]:
            t.attributes[a] = build(v, late)
        t.children = [build(c, late) for c in n["children"]]
        return t
    if k == "seq":
        items = [build(x, late) for x in n["items"]]
        if n.get("as") == "tuple":
            return tuple(items)
        if n.get("as") == "gen":
            return (x for x in items)
        return items
    if k == "wrap":
        inner = build(n["node"], late)
        how = n["how"]
        if how == "slot-default":
            return slot(_fresh(), default=inner)
        if how == "slot-filled":
            nm = _fresh()
            return Tag("")(slot(nm)).fillSlots(**{nm: inner})
        if how == "deferred":
            return succeed(inner)
        if how == "deferred-late":
            d = Deferred()
            late.append((d, inner))
            return d
        if how == "coroutine":
            async def co():
                return inner
            return co()

        @implementer(IRenderable)
        class R:
            def render(self, request):
                if how == "render-method":
                    return Tag("", render="m")
                return inner

            def lookupRenderMethod(self, name):
                return lambda request, tag: inner
        return R()
    raise ValueError(k)


def flatten_real(tree) -> bytes:
    from twisted.web.template import flattenString
    late = []
    root = build(tree, late)
    out = []
    d = flattenString(None, root)
    d.addCallback(out.append)
    errs = []
    d.addErrback(errs.append)
    guard = 0
    while late and guard < 1000:
        guard += 1
        dd, v = late.pop(0)
        dd.callback(v)
    if errs:
        errs[0].raiseException()
    if not out:
        raise RuntimeError("flattenString did not finish")
    return out[0]


# --------------------------------------------------------------------------------------
# independent reference tokenizer in Python (XML productions; html=True: WHATWG comment states)

NAMECH = set(b"abcdefghijklmnopqrstuvwxyzABCDEFGHIJKLMNOPQRSTUVWXYZ0123456789-_:.")
ENT = [(b"&amp;", 38), (b"&lt;", 60), (b"&gt;", 62), (b"&quot;", 34)]


def html_comment(s: bytes, i: int):
    """WHATWG 13.2.5.43-52, entered after '<!--'; returns (data, index after the comment)"""
    st, data = "start", bytearray()

    def in_comment(c):
        nonlocal st
        if c == 60:
            data.append(60); st = "lt"
        elif c == 45:
            st = "enddash"
        elif c == 0:
            data.extend(b"\xef\xbf\xbd"); st = "comment"
        else:
            data.append(c); st = "comment"

    def in_enddash(c):
        nonlocal st
        if c == 45:
            st = "end"
        else:
            data.append(45); in_comment(c)

    def in_end(c):
        nonlocal st
        if c == 62:
            return True
        if c == 33:
            st = "endbang"
        elif c == 45:
            data.append(45); st = "end"
        else:
            data.extend(b"--"); in_comment(c)
        return False

    n = len(s)
    while i < n:
        c = s[i]
        i += 1
        if st == "start":
            if c == 45: st = "startdash"
            elif c == 62: return bytes(data), i
            else: in_comment(c)
        elif st == "startdash":
            if c == 45: st = "end"
            elif c == 62: return bytes(data), i
            else:
                data.append(45); in_comment(c)
        elif st == "comment":
            in_comment(c)
        elif st == "lt":
            if c == 33:
                data.append(33); st = "ltbang"
            elif c == 60: data.append(60)
            else: in_comment(c)
        elif st == "ltbang":
            if c == 45: st = "ltbangdash"
            else: in_comment(c)
        elif st == "ltbangdash":
            if c == 45: st = "ltbangdashdash"
            else: in_enddash(c)
        elif st in ("ltbangdashdash", "end"):
            if in_end(c):
                return bytes(data), i
        elif st == "enddash":
            in_enddash(c)
        elif st == "endbang":
            if c == 45:
                data.extend(b"--!"); st = "enddash"
            elif c == 62: return bytes(data), i
            else:
                data.extend(b"--!"); in_comment(c)
    return bytes(data), n


def ref_tokens(s: bytes, html: bool = False):
    """list of tokens: ('c', byte) ('o', name, attrs, selfclosing) ('e', name) ('m', data) ('d', data) ('!',)"""
    out, i, n = [], 0, len(s)

    def name_at(j):
        k = j
        while k < n and s[k] in NAMECH:
            k += 1
        return s[j:k], k

    def entity(j):
        for lit, ch in ENT:
            if s.startswith(lit, j):
                return ch, j + len(lit)
        return None

    while i < n:
        c = s[i]
        if c == 60:
            if s.startswith(b"<!--", i):
                if html:
                    data, i = html_comment(s, i + 4)
                    out.append(("m", data))
                    continue
                j = s.find(b"-->", i + 4)
                if j < 0:
                    return out + [("!",)]
                out.append(("m", s[i + 4:j]))
                i = j + 3
            elif s.startswith(b"<![CDATA[", i):
                j = s.find(b"]]>", i + 9)
                if j < 0:
                    return out + [("!",)]
                out.append(("d", s[i + 9:j]))
                i = j + 3
            elif s.startswith(b"<!", i) or i + 1 >= n:
                return out + [("!",)]
            elif s[i + 1] == 47:
                nm, j = name_at(i + 2)
                if not nm or j >= n or s[j] != 62:
                    return out + [("!",)]
                out.append(("e", nm))
                i = j + 1
            else:
                nm, j = name_at(i + 1)
                if not nm:
                    return out + [("!",)]
                attrs = []
                while True:
                    if s.startswith(b" />", j):
                        out.append(("o", nm, attrs, True))
                        j += 3
                        break
                    if j < n and s[j] == 62:
                        out.append(("o", nm, attrs, False))
                        j += 1
                        break
                    if j < n and s[j] == 32:
                        an, k = name_at(j + 1)
                        if not an or not s.startswith(b'="', k):
                            return out + [("!",)]
                        k += 2
                        val = bytearray()
                        while True:
                            if k >= n:
                                return out + [("!",)]
                            ch = s[k]
                            if ch == 34:
                                break
                            if ch == 60:
                                return out + [("!",)]
                            if ch == 38:
                                e = entity(k)
                                if e is None:
                                    return out + [("!",)]
                                val.append(e[0])
                                k = e[1]
                            else:
                                val.append(ch)
                                k += 1
                        attrs.append((an, bytes(val)))
                        j = k + 1
                        continue
                    return out + [("!",)]
                i = j
        elif c == 38:
            e = entity(i)
            if e is None:
                return out + [("!",)]
            out.append(("c", e[0]))
            i = e[1]
        else:
            out.append(("c", c))
            i += 1
    return out


def show_tokens(toks) -> str:
    parts = []
    for t in toks:
        if t[0] == "c":
            parts.append("c%02x" % t[1])
        elif t[0] == "o":
            parts.append("o" + t[1].hex() + "[" + ";".join(a.hex() + "=" + v.hex() for a, v in t[2]) + "]"
                         + ("/" if t[3] else ""))
        elif t[0] == "!":
            parts.append("!")
        else:
            parts.append(t[0] + t[1].hex())
    return ",".join(parts)


def impl(case) -> str:
    if case["k"] == "raw":
        raw = bytes.fromhex(case["hex"])
        data, idx = html_comment(raw, 0)
        guard = not raw.startswith(b">") and not raw.startswith(b"->") and b"--!>" not in raw
        return ("- " + show_tokens(ref_tokens(raw)) + " h" + data.hex() + ":" + str(len(raw) - idx) + ":"
                + ("T" if guard else "F"))
    from twisted.web.error import FlattenerError
    case = expand(case)
    try:
        b = flatten_real(case)
    except FlattenerError as e:     # never expected for the generated trees; its own __str__ is not safe to call
        inner = e.args[0] if e.args else None
        return "EXC:FlattenerError:" + type(inner).__name__
    return b.hex() + " " + show_tokens(ref_tokens(b))


# --------------------------------------------------------------------------------------
# property oracle: the structure the tree must have, computed from the tree alone


def _void():
    from twisted.web._stan import voidElements
    return voidElements


def raw_serial(n) -> bytes:
    """what an attribute value must READ BACK as: the serialisation of the value in attribute
    context before the attribute-level escaping (text raw; nested markup with its own escaping)"""
    k = n["k"]
    b = leaf_bytes(n) if ("hex" in n or "cps" in n) else b""
    if k == "text":
        return b
    if k == "cdata":
        return b"<![CDATA[" + b.replace(b"]]>", b"]]]]><![CDATA[>") + b"]]>"
    if k == "comment":
        return b"<!--" + _ref_comment(b) + b"-->"
    if k == "seq":
        return b"".join(raw_serial(x) for x in n["items"])
    name = n["name"].encode()
    out = b"<" + name
    for a, v in n["attrs"]:
        out += b" " + a.encode() + b'="' + _ref_attr(raw_serial(v)) + b'"'
    if n["children"] or n["name"] not in _void():
        return out + b">" + b"".join(_content_serial(c) for c in n["children"]) + b"</" + name + b">"
    return out + b" />"


def _content_serial(n) -> bytes:
    if n["k"] == "text":
        return _ref_content(leaf_bytes(n))
    if n["k"] == "seq":
        return b"".join(_content_serial(x) for x in n["items"])
    return raw_serial(n)


def _ref_content(b):
    return b.replace(b"&", b"&amp;").replace(b"<", b"&lt;").replace(b">", b"&gt;")


def _ref_attr(b):
    return _ref_content(b).replace(b'"', b"&quot;")


def _ref_comment(b):
    b = b.replace(b"-->", b"--&gt;")
    return b + b" " if b.endswith(b"-") else b


def expected_tokens(n):
    """token sequence the flattened tree must tokenize to (comments: position only, data = None;
    CDATA: merged into one ('D', content) per node)"""
    k = n["k"]
    if k == "text":
        return [("c", x) for x in leaf_bytes(n)]
    if k == "cdata":
        return [("D", leaf_bytes(n))]
    if k == "comment":
        b = leaf_bytes(n)
        inside = not b.startswith(b">") and not b.startswith(b"->") and b"--!>" not in b
        # the comment's text must be exactly the escaped text (reference escaper); outside the HTML5 guard
        # (known finding F10) a repaired escaper may write something else: position only
        return [("m", _ref_comment(b) if inside else None)]
    if k == "seq":
        return [t for x in n["items"] for t in expected_tokens(x)]
    name = n["name"].encode()
    attrs = [(a.encode(), raw_serial(v)) for a, v in n["attrs"]]
    if n["children"] or n["name"] not in _void():
        return [("o", name, attrs, False)] + [t for c in n["children"] for t in expected_tokens(c)] + [("e", name)]
    return [("o", name, attrs, True)]


def normalise(toks, comment_data=False):
    """merge adjacent CDATA sections' contents; comment data kept only on request"""
    out = []
    for t in toks:
        if t[0] == "d":
            if out and out[-1][0] == "D":
                out[-1] = ("D", out[-1][1] + t[1])
            else:
                out.append(("D", t[1]))
        elif t[0] == "m":
            out.append(("m", t[1] if comment_data else None))
        else:
            out.append(t)
    return out


def _same(got, want):
    """token lists agree; a comment whose expected data is None matches any data"""
    if len(got) != len(want):
        return False
    for g, w in zip(got, want):
        if w[0] == "m" and g[0] == "m":
            if w[1] is not None and g[1] != w[1]:
                return False
        elif g != w:
            return False
    return True


def _merge_expected(toks):
    """adjacent CDATA nodes in the tree give adjacent sections: merge them the same way"""
    out = []
    for t in toks:
        if t[0] == "D" and out and out[-1][0] == "D":
            out[-1] = ("D", out[-1][1] + t[1])
        else:
            out.append(t)
    return out


def _comments(n, acc):
    if n["k"] == "comment":
        acc.append(leaf_bytes(n))
    elif n["k"] == "seq":
        for x in n["items"]:
            _comments(x, acc)
    elif n["k"] == "tag":
        for c in n["children"]:
            _comments(c, acc)
    return acc


def _first_diff(a, b):
    for i, (x, y) in enumerate(zip(a, b)):
        if x != y:
            return i, x, y
    return min(len(a), len(b)), (a[len(b)] if len(a) > len(b) else None), (b[len(a)] if len(b) > len(a) else None)


def _minidom_check(tree, flat: bytes):
    """cross-check of the reference tokenizer's reading by expat (only for documents that are
    well-formed XML 1.0: utf-8, no control characters, no '--' inside comments, no CR, and no
    TAB/LF in attribute values)"""
    import xml.dom.minidom as md
    try:
        flat.decode("utf-8")
    except UnicodeDecodeError:
        return None
    if any(c < 32 and c not in (9, 10) for c in flat) or b"\x7f" in flat:
        return None
    for cm in _comments(tree, []):
        if b"--" in cm:          # then '--' is unavoidable inside the comment: ill-formed XML, never injecting
            return None
    exp = expected_tokens(tree)
    for t in exp:
        if t[0] == "o" and (any(9 in v or 10 in v for _, v in t[2]) or len({a for a, _ in t[2]}) != len(t[2])):
            return None
        if t[0] in ("o", "e") and b":" in t[1]:
            return None
        if t[0] == "o" and any(b":" in a for a, _ in t[2]):
            return None
    try:
        dom = md.parseString(b"<verif-root>" + flat + b"</verif-root>")
    except Exception as e:  # expat refuses what the reference tokenizer accepted
        return f"expat refuses the flattened document: {e}"

    def walk(node, out):
        for ch in node.childNodes:
            if ch.nodeType == ch.ELEMENT_NODE:
                out.append(("o", ch.tagName.encode(), sorted((k.encode(), v.encode()) for k, v in ch.attributes.items())))
                walk(ch, out)
                out.append(("e", ch.tagName.encode()))
            elif ch.nodeType in (ch.TEXT_NODE, ch.CDATA_SECTION_NODE):
                out.append(("t", ch.data.encode()))
            elif ch.nodeType == ch.COMMENT_NODE:
                out.append(("m",))
        return out

    def merge(seq):
        out = []
        for t in seq:
            if t[0] == "t" and out and out[-1][0] == "t":
                out[-1] = ("t", out[-1][1] + t[1])
            elif t[0] == "t" and not t[1]:
                continue
            else:
                out.append(t)
        return out

    got = merge(walk(dom.documentElement, []))
    want = []
    for t in exp:
        if t[0] == "c":
            want.append(("t", bytes([t[1]])))
        elif t[0] == "D":
            want.append(("t", t[1]))
        elif t[0] == "m":
            want.append(("m",))
        elif t[0] == "o":
            want.append(("o", t[1], sorted(t[2])))
            if t[3]:
                want.append(("e", t[1]))
        else:
            want.append(t)
    want = merge(want)
    if got != want:
        return f"expat reads {got[:6]}..., the tree is {want[:6]}..."
    return None


def oracle(case, obs):
    if case["k"] == "raw":
        # the exact-guard theorem, on the real escaper and the Python port of the comment states:
        # Comment(text) ends at the flattener's own "-->" iff the text is inside the guard
        from twisted.web._flatten import escapedComment
        raw = bytes.fromhex(case["hex"])
        guard = not raw.startswith(b">") and not raw.startswith(b"->") and b"--!>" not in raw
        doc = escapedComment(raw) + b"-->" + b"<sentinel>"
        _, idx = html_comment(doc, 0)
        ends_right = doc[idx:] == b"<sentinel>"
        if guard and not ends_right:
            return Failure(case, f"Comment({raw!r}) is inside the guard (no leading '>' / '->', no '--!>') but the "
                           f"HTML5 comment states end it before the flattener's terminator", "html5-inside-guard-ends-early")
        # outside the guard an early end is the known finding F10 (reported on tree cases); a repaired
        # escaper that ends at the right place is accepted silently
        return None
    case = expand(case)
    tree = unwrap(case)
    sur = has_surrogate(tree)
    if obs.startswith("EXC:"):
        if sur and obs.endswith(":UnicodeEncodeError"):
            return None          # a str with a lone surrogate has no UTF-8 form: no document (HEAD behaviour)
        return Failure(case, "flattening raised " + obs, "flatten-raises:" + obs.split(":")[-1])
    flat = bytes.fromhex(obs.split(" ", 1)[0])
    if sur:
        # a document WAS produced for a tree with a lone surrogate: whatever stands for the surrogate (a
        # character reference, its surrogatepass bytes, U+FFFD, '?'), the rest of the text must still be text --
        # with those stand-ins removed the document must tokenize to the tree's tokens (surrogates removed)
        import re as _re
        cleaned = _re.sub(rb"&#[0-9]+;|&#x[0-9A-Fa-f]+;|\xed[\xa0-\xbf][\x80-\xbf]|\xef\xbf\xbd", b"", flat)
        want = [("m", None) if t[0] == "m" else t for t in _merge_expected(expected_tokens(tree))]
        for cand in (cleaned, cleaned.replace(b"?", b"")):
            if _same(normalise(ref_tokens(cand)), want):
                return None
        return Failure(case, f"a str with a lone surrogate was flattened to {flat[:90]!r}: the text around the surrogate "
                       f"is not escaped (markup introduced / structure changed)", "surrogate-text-becomes-markup")
    want = _merge_expected(expected_tokens(tree))
    got = normalise(ref_tokens(flat), comment_data=True)
    if not _same(got, want):
        i, g, w = next(((j, a, b) for j, (a, b) in enumerate(zip(got, want)) if not _same([a], [b])),
                       (min(len(got), len(want)), None, None))
        if g is None and w is None:
            g = got[i] if i < len(got) else None
            w = want[i] if i < len(want) else None
        kind = {"c": "text", "D": "cdata", "m": "comment", "o": "start-tag", "e": "end-tag"}.get((w or g or ("?",))[0], "other")
        if w and w[0] == "o" and g and g[0] == "o" and g[1] == w[1]:
            kind = "attribute-value"
        return Failure(case, f"flattened bytes {flat[:80]!r} tokenize (XML) to {got[max(0,i-1):i+2]} at token {i}, "
                       f"the tree requires {want[max(0,i-1):i+2]}", "xml-" + kind)
    err = _minidom_check(tree, flat)
    if err:
        return Failure(case, err, "expat-disagrees")
    goth = normalise(ref_tokens(flat, html=True))
    want = [("m", None) if t[0] == "m" else t for t in want]
    if goth != want:
        for cm in _comments(tree, []):
            if cm.startswith(b">"):
                return Failure(case, f"HTML5: Comment({cm!r}) ends at its first character; the rest becomes markup: {flat[:80]!r}",
                               "html5-comment-starts-with-gt")
            if cm.startswith(b"->"):
                return Failure(case, f"HTML5: Comment({cm!r}) ends after '->'; the rest becomes markup: {flat[:80]!r}",
                               "html5-comment-starts-with-dash-gt")
            if b"--!>" in cm:
                return Failure(case, f"HTML5: Comment({cm!r}) ends at '--!>'; the rest becomes markup: {flat[:80]!r}",
                               "html5-comment-contains-dash-dash-bang-gt")
        i, g, w = _first_diff(goth, want)
        return Failure(case, f"HTML5 comment states: tokens {goth[max(0,i-1):i+2]} at {i}, the tree requires {want[max(0,i-1):i+2]}",
                       "html5-other")
    return None


# --------------------------------------------------------------------------------------
# generation

HOSTILE = [b"<", b">", b"&", b'"', b"'", b"--", b"-", b"]]>", b"]]", b"]", b"<!--", b"-->", b"--!>", b"->", b"!", b"a",
           b"b", b" ", b"\n", b"\x00", b"\x01", b"\xc3\xa9", b"\xe2\x82\xac", b"</div>", b"<script>", b"&amp;", b"&lt;",
           b"&#60;", b"=", b"/", b"<![CDATA[", b"\t", b"\r", b";"]
NAMES = ["div", "p", "span", "a", "br", "img", "input", "hr", "x-y", "ns:t", "h1", "B"]
ATTRS = ["id", "class", "href", "data-x", "a", "b", "xml:lang"]
WRAPS = ["slot-default", "slot-filled", "deferred", "deferred-late", "renderable", "render-method", "coroutine"]


def _bytes(rng, maxparts=4, utf8=False):
    parts = [rng.choice(HOSTILE) for _ in range(rng.randrange(maxparts + 1))]
    b = b"".join(parts)
    if not utf8 and rng.random() < 0.1:
        b += bytes([rng.choice([0x80, 0xff, 0xc3])])
    return b


def _leaf(rng, kind=None):
    kind = kind or rng.choice(["text", "text", "cdata", "comment"])
    if rng.random() < 0.04:
        cps = [ord(c) for c in _bytes(rng, 3, utf8=True).decode("utf-8")]
        cps.insert(rng.randrange(len(cps) + 1), rng.choice([0xD800, 0xDBFF, 0xDC00, 0xDFFF]))
        return {"k": kind, "cps": cps, "str": True}
    as_str = rng.random() < 0.5
    b = _bytes(rng, utf8=as_str)
    return {"k": kind, "hex": b.hex(), "str": as_str}


def _node(rng, depth):
    r = rng.random()
    if depth <= 0 or r < 0.35:
        n = _leaf(rng)
    elif r < 0.8:
        name = rng.choice(NAMES)
        names = rng.sample(ATTRS, rng.randrange(0, 3))
        attrs = [[a, _node(rng, depth - 2) if rng.random() < 0.35 else _leaf(rng, "text")] for a in names]
        n = {"k": "tag", "name": name, "bname": rng.random() < 0.2, "attrs": attrs,
             "children": [_node(rng, depth - 1) for _ in range(rng.randrange(0, 3))]}
    else:
        n = {"k": "seq", "as": rng.choice(["list", "tuple", "gen"]),
             "items": [_node(rng, depth - 1) for _ in range(rng.randrange(0, 3))]}
    if rng.random() < 0.15:
        n = {"k": "wrap", "how": rng.choice(WRAPS), "node": n}
    return n


def _hx(s):
    return (s if isinstance(s, bytes) else s.encode()).hex()


def corpus():
    c = lambda s: {"k": "comment", "hex": _hx(s), "str": True}
    div = lambda *ch: {"k": "tag", "name": "div", "attrs": [], "children": list(ch)}
    return [
        div(c("><script>alert(1)</script>")),                     # F10
        div(c("-><script>alert(1)</script>")),                    # F10
        div(c("x--!><script>alert(1)</script>")),                 # F10
        div(c("a-->b-"), {"k": "cdata", "hex": _hx("a]]>b]]"), "str": True}, {"k": "text", "hex": _hx("</div><x>&"), "str": True}),
        {"k": "tag", "name": "a", "attrs": [["href", {"k": "text", "hex": _hx('"><b x="'), "str": False}],
                                            ["id", div(c('"-->'), {"k": "text", "hex": _hx('<&">'), "str": True})]],
         "children": []},
        {"k": "tag", "name": "br", "attrs": [], "children": []},
        {"k": "raw", "hex": _hx('<a b="&quot;&lt;"> &amp; <!--x--><![CDATA[]]]]><![CDATA[>]]></a><br />')},
        {"k": "raw", "hex": _hx("<a b=c>")},
    ]


def gen(rng, tier):
    cases = []
    # every short hostile text in each leaf context (deliberate boundary placement)
    small = [b"<", b">", b"&", b'"', b"-", b"]", b"!", b"a"]
    maxlen = 3 if tier == "quick" else 4
    import itertools
    for n in range(maxlen + 1):
        for tup in itertools.product(small, repeat=n):
            b = b"".join(tup)
            if n == maxlen and rng.random() < (0.5 if tier == "quick" else 0.6):
                continue
            kind = ["text", "cdata", "comment", "attr"][len(cases) % 4]
            for kind in (["comment", "cdata"] if (b"-" in b or b"]" in b or b"!" in b) else ["text", "attr"]):
                if kind == "attr":
                    cases.append({"k": "tag", "name": "p", "attrs": [["id", {"k": "text", "hex": b.hex(), "str": False}]],
                                  "children": [{"k": "text", "hex": b"z".hex(), "str": False}]})
                else:
                    cases.append({"k": "seq", "as": "list", "items": [{"k": kind, "hex": b.hex(), "str": False},
                                                                      {"k": "text", "hex": b"<z>".hex(), "str": False}]})
    # LONG values (> 64 KiB, the flattener's BUFFER_SIZE): the multi-character sequences at every offset in
    # [k*65536 - 3, k*65536 + 1]; the escaping must not depend on where a value would be cut into buffers
    B = 65536
    offs = [(1, d) for d in (-3, -2, -1, 0, 1)] + ([(2, -2), (2, -1)] if tier == "quick" else [(2, d) for d in (-3, -2, -1, 0, 1)])
    for k, d in offs:
        o = k * B + d
        total = o + 40
        for kind, seqs in (("cdata", [b"]]>"]), ("comment", [b"-->", b"-", b"--"]), ("text", [b"<&>"])):
            for sq in seqs:
                cases.append({"k": "long", "kind": kind, "seq": sq.hex(), "offset": o, "total": total,
                              "str": (k + d) % 2 == 0})
    # lone surrogates (high, low, reversed pair) mixed with markup in every str position: child, list item, each
    # wrapper (slot, Deferred, coroutine, renderer, render method), text of a tag nested in an attribute, attribute
    # value, CDATA, comment -- no document, or a document in which the text is still text
    payload = [ord(c) for c in '<script>alert(1)</script>&"-->]]>']
    for sur in ([0xD83D], [0xDCFF], [0xDC00, 0xD800], [0xDCFF, 0x61]):
        for cps in (sur + payload, payload + sur, payload[:8] + sur + payload[8:]):
            leaf = lambda kind, cps=cps: {"k": kind, "cps": list(cps), "str": True}
            p_ = lambda *ch: {"k": "tag", "name": "p", "attrs": [], "children": list(ch)}
            cases.append(p_(leaf("text")))
            cases.append({"k": "seq", "as": "list", "items": [leaf("text"), {"k": "text", "hex": b"<z>".hex(), "str": False}]})
            for how in WRAPS:
                cases.append(p_({"k": "wrap", "how": how, "node": leaf("text")}))
            cases.append({"k": "tag", "name": "a", "attrs": [["id", p_(leaf("text"))]], "children": []})
            cases.append({"k": "tag", "name": "a", "attrs": [["href", leaf("text")]], "children": [leaf("cdata")]})
            cases.append(p_(leaf("cdata")))
            cases.append(p_(leaf("comment")))
    for _ in range(500 if tier == "quick" else 6000):
        cases.append(_node(rng, rng.randrange(1, 6)))
    for _ in range(300 if tier == "quick" else 3000):
        cases.append({"k": "raw", "hex": _bytes(rng, 8).hex()})
    # comment-shaped raw texts: every string of length <= 5 (thorough 6) over {- > ! <} plus 'a' at length <= 4
    import itertools as _it
    for n in range(0, 6 if tier == "quick" else 7):
        for tup in _it.product([b"-", b">", b"!", b"<"] + ([b"a"] if n <= 4 else []), repeat=n):
            cases.append({"k": "raw", "hex": b"".join(tup).hex()})
    return cases


def to_coq(case):
    if case["k"] == "long":
        return None          # oracle only: 64 KiB values are not evaluated in Coq (the theorems are length-independent)
    if case["k"] == "raw":
        return "RRaw " + coq_bytes(bytes.fromhex(case["hex"]))
    if has_surrogate(case):
        def sterm(n):
            k = n["k"]
            if k == "wrap":
                return sterm(n["node"])
            if k in ("text", "cdata", "comment"):
                c = {"text": "SText", "cdata": "SCData", "comment": "SComment"}[k]
                if "cps" in n:
                    cps = "[" + ";".join(str(x) for x in n["cps"]) + "]%N" if n["cps"] else "(@nil N)"
                    return f"({c} (TStr {cps}))"
                return f"({c} (TBytes {coq_bytes(bytes.fromhex(n['hex']))}))"
            if k == "seq":
                return "(SSeq [" + "; ".join(sterm(x) for x in n["items"]) + "])"
            attrs = "[" + "; ".join("(" + coq_bytes(a.encode()) + ", " + sterm(v) + ")" for a, v in n["attrs"]) + "]"
            return "(STag " + coq_bytes(n["name"].encode()) + " " + attrs + " [" + "; ".join(sterm(c) for c in n["children"]) + "])"
        return "RSrc " + sterm(case)

    def term(n):
        k = n["k"]
        if k in ("text", "cdata", "comment"):
            return "(" + {"text": "NText", "cdata": "NCData", "comment": "NComment"}[k] + " " + coq_bytes(bytes.fromhex(n["hex"])) + ")"
        if k == "seq":
            return "(NSeq [" + "; ".join(term(x) for x in n["items"]) + "])"
        attrs = "[" + "; ".join("(" + coq_bytes(a.encode()) + ", " + term(v) + ")" for a, v in n["attrs"]) + "]"
        return "(NTag " + coq_bytes(n["name"].encode()) + " " + attrs + " [" + "; ".join(term(c) for c in n["children"]) + "])"

    return "RTree " + term(unwrap(case))


def shrink(case):
    k = case["k"]
    if k == "long":
        return
    if k == "wrap":
        yield case["node"]
    if k in ("text", "cdata", "comment") and "cps" in case:
        cps = case["cps"]
        for i in range(len(cps)):
            yield dict(case, cps=cps[:i] + cps[i + 1:])
        return
    if k in ("text", "cdata", "comment", "raw"):
        b = bytes.fromhex(case["hex"])
        for i in range(len(b)):
            nb = b[:i] + b[i + 1:]
            try:
                if case.get("str"):
                    nb.decode("utf-8")
            except UnicodeDecodeError:
                continue
            yield dict(case, hex=nb.hex())
    if k == "seq":
        for i, x in enumerate(case["items"]):
            yield x
            yield dict(case, items=case["items"][:i] + case["items"][i + 1:])
            for y in shrink(x):
                yield dict(case, items=case["items"][:i] + [y] + case["items"][i + 1:])
    if k == "tag":
        for i, x in enumerate(case["children"]):
            yield x
            yield dict(case, children=case["children"][:i] + case["children"][i + 1:])
            for y in shrink(x):
                yield dict(case, children=case["children"][:i] + [y] + case["children"][i + 1:])
        for i, (a, v) in enumerate(case["attrs"]):
            yield dict(case, attrs=case["attrs"][:i] + case["attrs"][i + 1:])
            for y in shrink(v):
                yield dict(case, attrs=case["attrs"][:i] + [[a, y]] + case["attrs"][i + 1:])


def hist(case, obs):
    if case["k"] == "long":
        return "long-" + case["kind"]
    if case["k"] == "raw":
        return "raw:" + ("error" if "! h" in obs or obs.split(" h")[0].endswith("!") else "ok")

    def depth(n):
        if n["k"] == "wrap":
            return depth(n["node"])
        if n["k"] == "seq":
            return 1 + max([depth(x) for x in n["items"]] or [0])
        if n["k"] == "tag":
            return 1 + max([depth(x) for x in n["children"]] + [depth(v) for _, v in n["attrs"]] or [0])
        return 0
    return "tree-depth-%d" % min(depth(case), 5)


SPEC = Spec(
    pid="C28",
    gen=gen,
    impl=impl,
    oracle=oracle,
    coq_header="From C28 Require Import Gen Model Run.",
    coq_fn="run_show",
    to_coq=to_coq,
    regen=lambda: tr.regen(REPO, COQ),
    corpus=corpus,
    shrink=shrink,
    histogram=hist,
    nontrivial=lambda c, o: c["k"] in ("raw", "long") or (not o.startswith("EXC:")) and any(x in bytes.fromhex(o.split(" ", 1)[0]) for x in (b"&", b"<!", b"=")),
    rule="every text of length <= 3 (thorough 4, sampled at the last length) over {< > & quote - ] ! a} as comment / "
         "CDATA / content text / attribute value followed by a sentinel; random trees of depth <= 5 (tags incl. void "
         "elements and namespaced names, 0..2 attributes whose values are texts or whole subtrees, lists / tuples / "
         "generators, str and bytes incl. invalid UTF-8, NUL, CR/LF; 15% of nodes wrapped in slot (default / filled), "
         "fired and late Deferred, coroutine, IRenderable, render method) over a 34-fragment hostile alphabet; raw "
         "hostile documents for the tokenizer cross-validation. non-trivial = raw, or output contains an entity, a "
         "'<!' construct or an attribute; distinct by (case, observation)",
    trusted=[
        "translator translate/replace_chain.py + translate/c28.py (fail-closed; validated by this correspondence run)",
        "coq/Lib/PyStr.v py_replace / ends_with = CPython bytes.replace / data[-1:] == b'-' (validated by this run)",
        "hand-written model of _flattenElement's context discipline (coq/C28/Model.v flatten), tied as far as the "
        "generated trees reach; slots / Deferreds / coroutines / renderers / generators are modelled as transparent",
        "the reference tokenizer (coq/C28/Model.v run) is a transcription of the XML 1.0 productions the flattener "
        "uses; cross-validated on every case against an independent Python tokenizer and, on well-formed documents, "
        "against expat (xml.dom.minidom); the WHATWG comment states are transcribed from the standard (no HTML5 "
        "parser is available in the image)",
    ],
    assumptions=["tag and attribute names are valid (non-empty, [A-Za-z0-9_:.-]); a str with a lone surrogate yields no document (modelled: "
                 "flatten_source = None)",
                 "CharRef nodes and the t:render / t:slot template loader are outside the model"],
)
