"""C18 — HTTP/1.1 server parsing does not depend on how bytes are segmented.

H-tie: coq/C18/Model.v (HTTPChannel as an incremental receiver: one step per iteration of
LineReceiver's loop, line / raw mode, identity and chunked (C22 model) decoders, buffering while a
request is handled, Expect: 100-continue, persistence) against a real ``http.HTTPChannel`` on a
logging StringTransport with a scripted resource (request i answered inside requestReceived or at a
later "finish" operation).

case = {"stream": hex, "resp": [bool, ...] (request i synchronous? default True),
        "plans": [[cut offset | "F", ...], ...], "cls": str}
For each plan the stream is delivered cut at the offsets, "F" lets the resource finish the request it
holds; afterwards the rest is delivered and all pending responses are written.  Plan [] = whole stream.
Observation = per plan: delivered requests, then the order of requests (R), 100 Continue (C), responses
(P), 400 (B) and loseConnection (L); plus a digest of all bytes written (compared by the oracle only).
"""
from __future__ import annotations

import hashlib

from harness.common import COQ, REPO, Failure, Spec, coq_list
from harness import c19
from translate import c22 as tr

BAD400 = b"HTTP/1.1 400 Bad Request\r\n\r\n"
CONT100 = b"HTTP/1.1 100 Continue\r\n\r\n"


def _run_plan(stream: bytes, resp: list, plan: list):
    from twisted.internet.testing import StringTransport
    from twisted.web import http

    log = []          # ("R", request tuple) | ("W", bytes) | ("L",)

    class T(StringTransport):
        def write(self, data):
            log.append(("W", bytes(data)))
            StringTransport.write(self, data)

        def writeSequence(self, seq):
            for d in seq:
                self.write(d)

        def loseConnection(self):
            log.append(("L",))
            StringTransport.loseConnection(self)

    pending = []

    class Req(http.Request):
        def answer(self):
            self.setResponseCode(200)
            self.setHeader(b"content-length", b"2")
            self.write(b"ok")
            self.finish()

        def process(self):
            i = self.channel.verif_count
            self.channel.verif_count += 1
            log.append(("R", (self.method, self.uri, self.clientproto,
                              [(k.lower(), list(v)) for k, v in self.requestHeaders.getAllRawHeaders()],
                              self.content.read())))
            if i >= len(resp) or resp[i]:
                self.answer()
            else:
                pending.append(self)

    ch = http.HTTPChannel()
    ch.requestFactory = Req
    ch.timeOut = None
    ch.verif_count = 0
    t = T()
    ch.makeConnection(t)

    def deliver(data):
        if not t.disconnecting:
            ch.dataReceived(data)

    pos = 0
    for o in plan:
        if o == "F":
            if pending:
                pending.pop(0).answer()
        else:
            k = max(o - pos, 0)
            deliver(stream[pos:pos + k])
            pos = max(pos, o)
    deliver(stream[pos:])
    guard = 0
    while pending and guard < 10000:
        pending.pop(0).answer()
        guard += 1
    # canonicalise
    reqs, tags, written, wbuf = [], "", b"", b""

    def flush_writes():
        nonlocal wbuf, tags
        while wbuf:
            if wbuf.startswith(CONT100):
                tags += "C"
                wbuf = wbuf[len(CONT100):]
            elif wbuf.startswith(BAD400):
                tags += "B"
                wbuf = wbuf[len(BAD400):]
            elif wbuf.startswith(b"HTTP/1.") and wbuf[8:16] == b" 200 OK\r" and b"\r\n\r\nok" in wbuf:
                tags += "P"
                j = wbuf.index(b"\r\n\r\nok") + 6
                wbuf = wbuf[j:]
            else:
                tags += "?"
                wbuf = b""

    for item in log:
        if item[0] == "W":
            wbuf += item[1]
            written += item[1]
        else:
            flush_writes()
            if item[0] == "R":
                reqs.append(item[1])
                tags += "R"
            else:
                tags += "L"
    flush_writes()
    return reqs, tags, written


def impl(case) -> str:
    stream = bytes.fromhex(case["stream"])
    out = []
    for plan in case["plans"]:
        reqs, tags, written = _run_plan(stream, case["resp"], plan)
        out.append(c19._show(reqs, tags) + "#" + hashlib.sha1(written).hexdigest()[:12])
    # plans that give exactly the first plan's result are written "="
    return "|".join([out[0]] + [("=" if o == out[0] else o) for o in out[1:]])


def _strip(obs: str) -> str:
    return "|".join(x.split("#")[0] for x in obs.split("|"))


def oracle(case, obs):
    stream = bytes.fromhex(case["stream"])
    res = obs.split("|")
    if len(res) != len(case["plans"]):
        return Failure(case, "malformed observation", "log")
    res = [res[0]] + [(res[0] if r == "=" else r) for r in res[1:]]
    # the stream in one piece, every request answered at once: the reference behaviour
    reqs, tags, written = _run_plan(stream, [], [])
    whole = c19._show(reqs, tags) + "#" + hashlib.sha1(written).hexdigest()[:12]
    if "?" in tags:
        return Failure(case, f"unrecognised bytes written: {written[-80:]!r}", "writes")
    for plan, r in zip(case["plans"], res):
        if r != whole:
            a, b = r.split("#")[0], whole.split("#")[0]
            na, nb = a.count("/") + (a[0] != " "), b.count("/") + (b[0] != " ")
            if a == b:
                kind = "bytes-written"
            elif na != nb:
                kind = f"requests:{nb}->{na}"
            elif a.rsplit(" ", 1)[0] != b.rsplit(" ", 1)[0]:
                kind = "request-content"
            else:
                kind = "event-order"
            asyn = "async" if ("F" in plan or not all(case["resp"])) else "sync"
            return Failure(case, f"plan {plan[:12]}{'...' if len(plan) > 12 else ''} resp={case['resp']}: {a[:200]} ; "
                                 f"whole stream: {b[:200]}", f"seg:{kind}:{asyn}")
    # the whole-stream behaviour itself is C19's subject; cross-check the request list with its reference
    want_reqs, want_end = c19.ref_parse(stream)
    if c19._show(reqs, "") != c19._show(want_reqs, "") and not case["cls"].startswith(("identity", "limits")):
        if c19._show(reqs, "") != c19._show(c19.ref_parse(stream, lenient_identity=True)[0], ""):
            return Failure(case, "whole-stream requests differ from the RFC reference parser (see C19)", "c19-reference")
    return None


# ------------------------------------------------------------------------------------------


def _plans(rng, stream, nreq_guess, every_split):
    n = len(stream)
    plans = [[]]
    if every_split:
        plans += [[i] for i in range(1, n)]
        plans.append(list(range(1, n)))
    for _ in range(3):
        plans.append(sorted(rng.randrange(0, n + 1) for _ in range(rng.randrange(1, 6))))
    return plans


def _async_plans(rng, stream, every_split):
    n = len(stream)
    plans = [[], [n]]                              # everything buffered while request 0 is handled
    for _ in range(4):
        cuts = sorted(rng.randrange(0, n + 1) for _ in range(rng.randrange(1, 6)))
        p = []
        for c in cuts:
            p.append(c)
            if rng.random() < 0.5:
                p.append("F")
        plans.append(p)
    if every_split:
        plans += [[i, "F"] for i in range(1, n, 2)] + [[i] for i in range(2, n, 2)]
        bw = []
        for i in range(1, n):
            bw.append(i)
            if rng.random() < 0.1:
                bw.append("F")
        plans.append(bw)
    return plans


def gen(rng, tier):
    q = tier == "quick"
    cases = []

    def add(stream, cls, every):
        cases.append({"stream": stream.hex(), "resp": [], "plans": _plans(rng, stream, 3, every), "cls": cls})
        resp = [rng.random() < 0.4 for _ in range(4)]
        cases.append({"stream": stream.hex(), "resp": resp, "plans": _async_plans(rng, stream, every), "cls": cls + "+async"})

    limit = 200
    for k in range(40 if q else 2000):
        n = rng.choice([1, 2, 2, 3])
        s = b"".join(c19._valid_request(rng, i == n - 1, tricky_body=rng.random() < 0.2) for i in range(n))
        if rng.random() < 0.15:
            s += rng.choice([b"GET /tail HTTP/1.1\r\nHost", b"\r\n", b"garbage\r\n\r\n", b"POST / HTTP/1.1\r\nContent-Length: 5\r\n\r\nab"])
        add(s, "valid", len(s) <= limit and (not q or k % 2 == 0))
    # Expect: 100-continue and obs-fold explicitly
    for s in [b"POST /e HTTP/1.1\r\nHost: h\r\nExpect: 100-continue\r\nContent-Length: 3\r\n\r\nabc" + c19.SENTINEL,
              b"POST /e HTTP/1.1\r\nHost: h\r\nexpect: 100-Continue\r\nTransfer-Encoding: chunked\r\n\r\n3\r\nabc\r\n0\r\n\r\n" + c19.SENTINEL,
              b"POST /e HTTP/1.0\r\nExpect: 100-continue\r\nContent-Length: 1\r\n\r\nx",
              b"GET /f HTTP/1.1\r\nA: b\r\n c\r\n\td\r\nHost: h\r\n\r\n" + c19.SENTINEL,
              b"GET /f HTTP/1.1\r\n folded-first: x\r\n\r\n" + c19.SENTINEL,
              b"\r\nGET /b HTTP/1.1\r\n\r\n\r\nGET /c HTTP/1.1\r\n\r\n\r\n\r\nGET /d HTTP/1.1\r\n\r\n",
              b"POST /t HTTP/1.1\r\nTransfer-Encoding: chunked\r\n\r\n1;x=y\r\na\r\n0\r\nT: v\r\nU: w\r\n\r\n" + c19.SENTINEL,
              b"GET /x HTTP/1.1\r\nConnection: close\r\n\r\n" + c19.SENTINEL,
              b"GET /x HTTP/1.0\r\n\r\n" + c19.SENTINEL]:
        add(s, "feature", True)
    # malformed: every class of 400 from C19's lists, in the middle of a pipeline
    bad = [b"GET  / HTTP/1.1\r\nHost: h\r\n\r\n", b"GET / HTTP/2.0\r\n\r\n", b"GET /\x7f HTTP/1.1\r\n\r\n",
           b"GET / HTTP/1.1\r\nNoColon\r\n\r\n", b"GET / HTTP/1.1\r\nBad Name: x\r\nHost: h\r\n\r\n",
           b"GET / HTTP/1.1\r\nA: a\x00b\r\n\r\n", b"POST / HTTP/1.1\r\nContent-Length: 3\r\nContent-Length: 3\r\n\r\nabc",
           b"POST / HTTP/1.1\r\nContent-Length: +3\r\n\r\nabc", b"POST / HTTP/1.1\r\nTransfer-Encoding: gzip\r\n\r\nabc",
           b"POST / HTTP/1.1\r\nContent-Length: 3\r\nTransfer-Encoding: chunked\r\n\r\n0\r\n\r\n",
           b"POST / HTTP/1.1\r\nTransfer-Encoding: chunked\r\n\r\ng\r\nabc\r\n", b"POST / HTTP/1.1\r\nTransfer-Encoding: chunked\r\n\r\n3\r\nabcXX0\r\n\r\n",
           b"POST / HTTP/1.1\r\nTransfer-Encoding: chunked\r\n\r\n3;\x00\r\nabc\r\n0\r\n\r\n",
           b"POST / HTTP/1.1\r\nTransfer-Encoding: identity\r\nContent-Length: 3\r\n\r\nabc"]
    for b in bad:
        pre = c19._valid_request(rng, False) if rng.random() < 0.6 else b""
        add(pre + b + c19.SENTINEL, "identity" if b"identity" in b else "malformed", True)
    if not q:
        for _ in range(300):
            s = c19._valid_request(rng, False) + rng.choice(bad) + c19.SENTINEL
            j = rng.randrange(len(s))
            s = s[:j] + bytes([rng.randrange(256)]) + s[j + 1:]
            add(s, "mutated", len(s) <= limit)
    # random byte damage to valid pipelines
    for _ in range(20 if q else 400):
        s = c19._valid_request(rng, False) + c19._valid_request(rng, True)
        for _ in range(rng.randrange(1, 3)):
            j = rng.randrange(len(s))
            s = s[:j] + rng.choice([b"", b"\r", b"\n", b" ", b":", bytes([rng.randrange(256)])]) + s[j + 1:]
        add(s, "damaged", len(s) <= limit and rng.random() < (0.3 if q else 1.0))
    # a request with a body, then 0-3 stray empty lines, then pipelined requests: every cut around the end of the
    # body (the IE extra-CRLF tolerance must not depend on where the delivery ends)
    nxt = b"GET /n1 HTTP/1.1\r\nHost: h\r\n\r\n" + b"GET /n2 HTTP/1.1\r\nHost: h\r\n\r\n"
    for head, body in ((b"POST /s HTTP/1.1\r\nHost: h\r\nContent-Length: 3\r\n\r\n", b"abc"),
                       (b"POST /s HTTP/1.1\r\nHost: h\r\nTransfer-Encoding: chunked\r\n\r\n", b"3\r\nabc\r\n0\r\n\r\n"),
                       (b"POST /s HTTP/1.1\r\nHost: h\r\nTransfer-Encoding: chunked\r\n\r\n", b"1\r\nz\r\n0\r\nT: v\r\n\r\n")):
        for stray in range(4):
            s = head + body + b"\r\n" * stray + nxt
            e = len(head) + len(body)
            lo, hi = max(1, e - 3), min(len(s) - 1, e + 2 * stray + 3)
            plans = [[]] + [[i] for i in range(lo, hi + 1)] + [[i, j] for i in range(lo, hi + 1) for j in range(i + 1, hi + 2)]
            plans.append(list(range(1, len(s))))
            cases.append({"stream": s.hex(), "resp": [], "plans": plans, "cls": f"stray-crlf{stray}"})
            cases.append({"stream": s.hex(), "resp": [False, True, False],
                          "plans": [[]] + [[i, "F"] for i in range(lo, hi + 1)] + [[i, i + 1, "F", "F"] for i in range(lo, hi)],
                          "cls": f"stray-crlf{stray}+async"})
    # chunk-size lines of maxChunkSizeLineLength -1 / +0 / +1 bytes, cut at every offset in their last bytes and CRLF
    for ln in (1023, 1024, 1025):
        for line in (b"5;" + b"e" * (ln - 2), b"0" * (ln - 1) + b"5"):
            head = b"POST /l HTTP/1.1\r\nHost: h\r\nTransfer-Encoding: chunked\r\n\r\n"
            s = head + line + b"\r\nhello\r\n0\r\n\r\n" + c19.SENTINEL
            e = len(head) + len(line)            # offset of the CR that ends the size line
            cuts = range(e - 4, e + 4)
            plans = [[]] + [[i] for i in cuts] + [[i, j] for i in cuts for j in cuts if i < j] + [[len(head), e, e + 1]]
            cases.append({"stream": s.hex(), "resp": [], "plans": plans, "cls": f"size-line{ln}"})
    # header section at the size limits (totalHeadersSize 16384, maxHeaders 500, MAX_LENGTH 16384)
    for nb in ((16384,) if q else (16200, 16383, 16384, 16385, 16400)):
        line = b"GET /" + b"a" * 20 + b" HTTP/1.1\r\n"
        pad = nb - (len(line) - 2) - len(b"X: ")
        s = line + b"X: " + b"v" * pad + b"\r\n\r\n" + c19.SENTINEL
        n = len(s)
        cases.append({"stream": s.hex(), "resp": [], "plans": [[], [n // 2], [len(line) + 5, n - 40], [n - 30]], "cls": "limits"})
    for ln in ((16384, 16385) if q else (16383, 16384, 16385, 16386, 16387)):
        s = b"GET /" + b"b" * (ln - len(b"GET / HTTP/1.1")) + b" HTTP/1.1\r\n\r\n" + c19.SENTINEL
        n = len(s)
        cases.append({"stream": s.hex(), "resp": [], "plans": [[], [ln], [ln + 1], [ln - 1, ln + 1], [100, ln + 2]], "cls": "limits"})
    s = b"GET /h HTTP/1.1\r\n" + b"".join(b"H%d: v\r\n" % i for i in range(501)) + b"\r\n" + c19.SENTINEL
    cases.append({"stream": s.hex(), "resp": [], "plans": [[], [len(s) // 3, len(s) // 2]], "cls": "limits"})
    return cases


def corpus():
    mk = lambda s, resp, plans, cls: {"stream": s.hex(), "resp": resp, "plans": plans, "cls": cls}
    two = b"POST /a HTTP/1.1\r\nHost: h\r\nContent-Length: 3\r\n\r\nabcGET /b HTTP/1.1\r\nHost: h\r\n\r\n"
    ch = b"POST /c HTTP/1.1\r\nHost: h\r\nTransfer-Encoding: chunked\r\n\r\n3\r\nabc\r\n0\r\n\r\nGET /d HTTP/1.1\r\n\r\n"
    out = [
        mk(two, [], [[]] + [[i] for i in range(1, len(two))] + [list(range(1, len(two)))], "valid"),
        mk(two, [False, False], [[], [len(two)], [10, "F", 60], [50, 55, "F", "F"]], "valid+async"),
        mk(ch, [], [[]] + [[i] for i in range(1, len(ch))], "valid"),
        mk(ch, [False], [[], [len(ch)], [70, "F"]], "valid+async"),
    ]
    # F5 through the channel: trailer section of 65535 bytes + final CRLF, the last CRLF split (needs the
    # C22 fix: before it the whole stream was accepted and the split one answered with 400)
    tr = b"T: " + b"v" * (65536 - 2 - 3 - 2 + 1) + b"\r\n"
    f5 = b"POST /t HTTP/1.1\r\nTransfer-Encoding: chunked\r\n\r\n1\r\nz\r\n0\r\n" + tr + b"\r\n"
    out.append(mk(f5, [], [[], [len(f5) - 1]], "trailer-limit"))
    return out


def coq_stream(b: bytes) -> str:
    return c19.coq_stream(b)


def to_coq(case):
    resp = coq_list(("true" if r else "false" for r in case["resp"]), "bool")
    plans = coq_list((coq_list((("PFin" if o == "F" else f"PCut {o}%N") for o in p), "pop") for p in case["plans"]),
                     "(list pop)")
    return f"CCase {resp} {coq_stream(bytes.fromhex(case['stream']))} {plans}"


def shrink(case):
    if len(case["plans"]) > 1:
        for p in case["plans"]:
            yield {**case, "plans": [p]}
        return
    p = case["plans"][0]
    for i in range(len(p)):
        yield {**case, "plans": [p[:i] + p[i + 1:]]}
    if any(not r for r in case["resp"]):
        yield {**case, "resp": []}


def histogram(case, obs):
    first = obs.split("|")[0].split("#")[0]
    return case["cls"] + " -> " + str(first.count("/") + (first[0] != " ")) + "req " + \
        ("400" if "B" in first.rsplit(" ", 1)[1] else "closed" if first.endswith("L") else "open")


SPEC = Spec(
    pid="C18",
    gen=gen, impl=impl, oracle=oracle, corpus=corpus, shrink=shrink,
    coq_header="From C18 Require Import Model Run.",
    coq_fn="run_show",
    to_coq=to_coq,
    regen=lambda: tr.regen(REPO, COQ),      # the model uses C22/Gen.v (byte tables of _abnf.py, limits)
    model_equal=lambda c, a, b: _strip(a) == b,
    nontrivial=lambda c, o: len(c["plans"]) > 1 and len(c["stream"]) > 40,
    histogram=histogram,
    case_timeout=60.0,
    rule="request streams (pipelines of 1-3 well-formed requests with Content-Length / chunked bodies, obs-fold, "
         "Expect: 100-continue, Connection: close, HTTP/1.0, trailing partial requests; every class of malformed "
         "request from C19 inside a pipeline; random byte damage; header sections at totalHeadersSize / maxHeaders / "
         "MAX_LENGTH +-1; bodies followed by 0-3 stray empty lines cut at every offset around the body end; chunk-size "
         "lines of 1023/1024/1025 bytes cut at every offset in their last bytes) each delivered whole, at EVERY 2-way split (streams <= 200 B), byte-wise and at random "
         "multi-splits, with all requests answered synchronously and again with a random subset answered later "
         "(finish operations between deliveries, incl. the whole rest of the stream buffered while the first request "
         "is handled).  non-trivial = more than one delivery plan on a stream > 20 bytes; distinct by (case, observation)",
    trusted=["hand-written model coq/C18/Model.v (tied by this correspondence run); per-line logic = C19 model, chunked "
             "decoder = C22 model",
             "the single-buffer rendering of LineReceiver._buffer / decoder._buffer / _dataBuffer hand-overs (validated "
             "by the correspondence at every split point)",
             "deliveries stop once the transport is disconnecting (a real transport stops reading on loseConnection)",
             "scripted resource: fixed 200 response, written inside requestReceived or at a later finish operation"],
    assumptions=["less than _optimisticEagerReadSize (16 KiB) buffered while a request is handled (no producer pause)",
                 "no timeouts; HTTP/1.x only"],
)
