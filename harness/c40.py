"""C40 — SMTP body transparency: H-tie (hand-written model coq/C40; end-to-end SMTPClient <-> SMTP over
in-memory transports with scripted file-read chunking and network segmentation)."""
from __future__ import annotations

import itertools

from harness.common import Failure, Spec, coq_bytes, coq_list

# case = {"msgs": [{"body": hex, "reads": [int, ...], "lens": [int, ...]}, ...]}   (1-3 messages sent over ONE connection:
#          getMailFrom returns an address once per message, then None); the legacy single-message form
#          {"body", "reads", "lens"} is still accepted
#   refuse (optional) k: the message object's k-th lineReceived call (from 0) raises SMTPServerError(552)
#   eomfail (optional) true: the Deferred returned by the message object's eomReceived fails
#   body   the bytes of the file returned by getMailData()
#   reads  sizes - 1 of successive file.read() results (a file-like may return short reads); afterwards
#          FileSender's own CHUNK_SIZE applies
#   lens   sizes - 1 of the network segments in which the client's DATA-phase bytes reach the server


MAX_LENGTH = 16384          # basic.LineOnlyReceiver.MAX_LENGTH, inherited by smtp.SMTP


class ScriptedFile:
    def __init__(self, data, sizes):
        self.data, self.sizes, self.pos, self.k = data, list(sizes), 0, 0

    def read(self, n):
        if self.pos >= len(self.data):
            return b""
        m = n
        if self.k < len(self.sizes):
            m = min(n, self.sizes[self.k] + 1)
            self.k += 1
        out = self.data[self.pos:self.pos + m]
        self.pos += len(out)
        return out


def split_by(lens, bs: bytes):
    out, i = [], 0
    for n in lens:
        if i >= len(bs):
            break
        out.append(bs[i:i + n + 1])
        i += n + 1
    if i < len(bs):
        out.append(bs[i:])
    return out


def _msgs(case):
    if "msgs" in case:
        return case["msgs"]
    return [{"body": case["body"], "reads": case["reads"], "lens": case["lens"]}]


_quiet = []


def _quiet_logs():
    """the server logs the failure of a message's eomReceived with log.err; keep it off stderr"""
    if not _quiet:
        from twisted.logger import globalLogBeginner
        try:
            globalLogBeginner.beginLoggingTo([lambda event: None], redirectStandardIO=False, discardBuffer=True)
        except Exception:
            pass
        _quiet.append(True)


def _run(msgs):
    _quiet_logs()
    """-> (per message (wire, data-phase events) or None when the dialogue never reached DATA for it,
           command lines the server saw outside the DATA phases after the first DATA, sentMail calls)"""
    from twisted.internet import defer
    from twisted.internet.testing import StringTransport
    from twisted.mail import smtp
    from zope.interface import implementer

    evs = []

    made = []           # message objects created so far (one per DATA command)
    phase = {"data": False}

    @implementer(smtp.IMessage)
    class Msg:
        def __init__(self):
            self.beh = msgs[len(made)] if len(made) < len(msgs) else {}
            self.n = 0
            made.append(self)

        def lineReceived(self, line):
            k = self.n
            self.n += 1
            if self.beh.get("refuse") is not None and self.beh["refuse"] == k:
                evs.append("R:" + bytes(line).hex())
                raise smtp.SMTPServerError(552, b"refused")
            evs.append("L:" + bytes(line).hex())

        def eomReceived(self):
            evs.append("EOM")
            if self.beh.get("eomfail"):
                d = defer.fail(RuntimeError("disk full"))
                return d
            return defer.succeed(None)

        def connectionLost(self):
            evs.append("LOST")

    class ServerTransport(StringTransport):
        """records the replies the server writes while the DATA bytes are arriving"""

        def write(self, data):
            if phase["data"]:
                for line in bytes(data).split(b"\r\n"):
                    if line:
                        evs.append("S:" + line[:3].decode("ascii", "replace"))
            StringTransport.write(self, data)

        def writeSequence(self, data):
            self.write(b"".join(data))

    @implementer(smtp.IMessageDelivery)
    class Delivery:
        def receivedHeader(self, helo, origin, recipients):
            return None

        def validateFrom(self, helo, origin):
            return origin

        def validateTo(self, user):
            return Msg

    class Server(smtp.SMTP):
        noisy = False

        def state_COMMAND(self, line):
            evs.append("C:" + bytes(line).hex())
            return smtp.SMTP.state_COMMAND(self, line)

    sent = []

    class Client(smtp.SMTPClient):
        debug = False
        n = 0            # messages handed out so far

        def getMailFrom(self):
            if self.n >= len(msgs):
                return None
            self.n += 1
            return b"a@example.com"

        def getMailTo(self):
            return [b"b@example.com"]

        def getMailData(self):
            m = msgs[self.n - 1]
            return ScriptedFile(bytes.fromhex(m["body"]), m["reads"])

        def sentMail(self, code, resp, numOk, addresses, log):
            sent.append(f"{code}:{numOk}")

    server, st = Server(delivery=Delivery()), ServerTransport()
    client, ct = Client(b"me.example.com"), StringTransport()
    server.makeConnection(st)
    client.makeConnection(ct)

    def to_client():
        d = st.value()
        st.clear()
        if d:
            client.dataReceived(d)
        return bool(d)

    def to_server():
        d = ct.value()
        ct.clear()
        if d and not st.disconnecting:
            server.dataReceived(d)
        return bool(d)

    def dialogue_until_data():
        for _ in range(40):                   # greeting / RSET, HELO, MAIL, RCPT, DATA, 354
            a = to_client()
            if ct.producer is not None:
                return not ct.value()
            b = to_server()
            if not a and not b:
                return False
        return False

    per, between = [], []
    for k, m in enumerate(msgs):
        n0 = len(evs)
        if not dialogue_until_data():
            per.append(None)
            between += evs[n0:]
            break
        if k > 0:
            between += evs[n0:]
        n0 = len(evs)
        while ct.producer is not None:        # the transport pulls the FileSender until it unregisters
            ct.producer.resumeProducing()
        wire = ct.value()
        ct.clear()
        phase["data"] = True
        for c in split_by(m["lens"], wire):
            if st.disconnecting:
                break
            server.dataReceived(c)
        phase["data"] = False
        per.append((wire, evs[n0:]))
    n1 = len(evs)
    for _ in range(40):
        a = to_client()
        b = to_server()
        if not a and not b:
            break
    between += evs[n1:]
    server.setTimeout(None)
    client.setTimeout(None)
    return per, between, sent


def _show_msg(r):
    if r is None:
        return "w=- e=NODATA"
    return "w=" + r[0].hex() + " e=" + " ".join(r[1])


def impl(case) -> str:
    per, between, sent = _run(_msgs(case))
    return " ; ".join(_show_msg(r) for r in per) + " a=" + " ".join(between) + " sent=" + ",".join(sent)


# ----- the property on the observation, without the model -------------------------------------------------


def expected_lines(body: bytes):
    """what the message object must receive: the body's lines, after the server's documented header handling;
    None when the property does not speak about this body (CR inside, or last line not LF-terminated)"""
    if b"\r" in body or (body and not body.endswith(b"\n")):
        return None
    if not body:
        return "empty"
    lines = body.split(b"\n")[:-1]
    if any(len(l) + (1 if l[:1] == b"." else 0) > MAX_LENGTH for l in lines):
        return None             # the server refuses lines longer than LineOnlyReceiver.MAX_LENGTH (documented limit)
    if lines[0] and b":" not in lines[0]:
        lines = [b""] + lines
    return lines


def _where(body: bytes, reads):
    """classify a dot-line by where it sits (for the failure tag)"""
    chunks = split_by(reads, body)
    starts, pos = set(), 0
    for c in chunks:
        starts.add(pos)
        pos += len(c)
    if body[:1] == b".":
        return "dot-at-message-start"
    i = 0
    for k, b in enumerate(body):
        if b == 0x2E and k > 0 and body[k - 1] == 0x0A and k in starts:
            return "dot-at-read-chunk-start"
    return "elsewhere"


def _expected_events(m, exp):
    """events the DATA phase of this message must produce, from the body and the message object's behaviour"""
    calls = [b""] if exp == "empty" else exp
    rf = m.get("refuse")
    if rf is not None and rf < len(calls):
        return ["L:" + c.hex() for c in calls[:rf]] + ["R:" + calls[rf].hex(), "LOST", "S:552"], "552:1"
    code = "550" if m.get("eomfail") else "250"
    return ["L:" + c.hex() for c in calls] + ["EOM", "S:" + code], code + ":1"


def _oracle_msg(case, k, m, part):
    """one message of the session: its own body decides what must arrive, whatever was sent before it"""
    body = bytes.fromhex(m["body"])
    exp = expected_lines(body)
    if exp is None:
        return None
    where = _where(body, m["reads"])
    if m.get("refuse") is not None:
        where += "/message-refuses-line"
    if k > 0:
        where += "/message-%d-of-session" % (k + 1)
    if part == "w=- e=NODATA":
        return Failure(case, f"message {k + 1} was never transferred (the dialogue did not reach DATA)", "message-not-sent/" + where)
    w, e = part[2:].split(" e=", 1)
    evs = e.split(" ") if e else []
    cmds = [x for x in evs if x.startswith("C:")]
    if cmds:
        return Failure(case, f"message {k + 1}: body content reached the command interpreter: "
                             f"{[bytes.fromhex(c[2:])[:40] for c in cmds][:3]}", "body-line-executed-as-command/" + where)
    ends = [x for x in evs if x == "EOM" or x.startswith("S:")]
    want, _ = _expected_events(m, exp)
    want_ends = [x for x in want if x == "EOM" or x.startswith("S:")]
    if ends != want_ends or evs[-len(want_ends):] != want_ends:
        return Failure(case, f"message {k + 1}: the transfer did not end exactly once at the terminator with {want_ends}: "
                             f"{evs[-5:]}", "ended-not-at-terminator/" + where)
    if exp == "empty" and evs == ["EOM", "S:250"] and not m.get("eomfail") and m.get("refuse") is None:
        return None             # zero lines: delivering no line at all is fine too (design.d/C40.md)
    if evs != want:
        return Failure(case, f"message {k + 1}: message object saw {evs[:8]} expected {want[:8]}", "lines-altered/" + where)
    return None


def oracle(case, obs):
    msgs = _msgs(case)
    head, sent = obs.rsplit(" sent=", 1)
    head, after = head.split(" a=", 1)
    parts = head.split(" ; ")
    after = after.split(" ") if after else []
    for k, m in enumerate(msgs):
        if k >= len(parts):
            f = _oracle_msg(case, k, m, "w=- e=NODATA")
        else:
            f = _oracle_msg(case, k, m, parts[k])
        if f:
            return f
    if all(expected_lines(bytes.fromhex(m["body"])) is not None for m in msgs):
        hx = lambda b: "C:" + b.hex()
        again = [hx(b"RSET"), hx(b"MAIL FROM:<a@example.com>"), hx(b"RCPT TO:<b@example.com>"), hx(b"DATA")]
        want = again * (len(msgs) - 1) + [hx(b"RSET"), hx(b"QUIT")]
        codes = ",".join(_expected_events(m, expected_lines(bytes.fromhex(m["body"])))[1] for m in msgs)
        if after != want or sent != codes:
            return Failure(case, f"dialogue around the messages: {[bytes.fromhex(x[2:]) for x in after]} sentMail={sent}",
                           "dialogue-after-data")
    return None


# ----- generation -------------------------------------------------------------------------------------------

LINES = [b".", b".", b"..", b"...", b".a", b"a.", b"", b"", b"QUIT", b"RSET", b"Subject: x", b"a:b", b"body", b".:",
         b"\x00", b"\xff.", b" .", b"\t.", b" . ", b"x" * 5]


def _body(rng):
    n = rng.randrange(0, 7)
    return b"".join(rng.choice(LINES) + b"\n" for _ in range(n))


def _sizes(rng, total):
    k = rng.random()
    if k < 0.2:
        return []
    if k < 0.4:
        return [0] * total
    out, s = [], 0
    while s < total:
        n = rng.choice([0, 0, 1, 2, 3, 5, 9])
        out.append(n)
        s += n + 1
    return out


def _cuts_at_line_starts(rng, body):
    """read sizes that put chunk boundaries exactly at line starts (where the pinned code fails)"""
    starts = [i + 1 for i, b in enumerate(body) if b == 0x0A and i + 1 < len(body)]
    rng.shuffle(starts)
    starts = sorted(starts[:rng.randrange(0, len(starts) + 1)])
    out, prev = [], 0
    for s in starts:
        out.append(s - prev - 1)
        prev = s
    return out


def gen(rng, tier):
    quick = tier == "quick"
    cases = []
    for _ in range(500 if quick else 12000):
        body = _body(rng)
        r = rng.random()
        reads = _cuts_at_line_starts(rng, body) if r < 0.4 else _sizes(rng, len(body))
        cases.append({"body": body.hex(), "reads": reads, "lens": _sizes(rng, 2 * len(body) + 5)})
    # every body of <= 3 lines over a tiny line alphabet, every read cut position, byte-wise network
    alpha = [b".", b"", b"a", b".a"] if quick else [b".", b"", b"a", b".a", b"..", b"a:"]
    for n in range(0, 4):
        for ls in itertools.product(alpha, repeat=n):
            body = b"".join(x + b"\n" for x in ls)
            for cut in range(0, max(1, len(body))):
                if quick and n == 3 and rng.random() > 0.3:
                    continue
                reads = [cut - 1] if cut >= 1 else []
                cases.append({"body": body.hex(), "reads": reads, "lens": [0] * (2 * len(body) + 5) if cut % 2 else []})
    # outside the property (CR inside, last line unterminated): correspondence only
    for _ in range(120 if quick else 3000):
        body = bytes(rng.choice([0x2E, 0x2E, 0x0A, 0x0A, 0x0D, 0x0D, 0x61, 0x3A]) for _ in range(rng.randrange(0, 9)))
        cases.append({"body": body.hex(), "reads": _sizes(rng, len(body)), "lens": _sizes(rng, 2 * len(body) + 5)})
    # sessions: 2-3 messages over one connection; earlier bodies with / without a final LF, later bodies starting with '.'
    starts = [b".\nQUIT\n", b".foo\n", b"..\n", b".\n", b"a\n", b"Subject: s\n\n.x\n"]
    ends = [b"abc", b"x\ny", b".", b"abc\n", b"", b"\n", b"a\n.", b"tail."]
    for _ in range(260 if quick else 5000):
        n = rng.choice([2, 2, 3])
        msgs = []
        for k in range(n):
            r = rng.random()
            if k < n - 1 and r < 0.6:
                body = (_body(rng) if rng.random() < 0.5 else b"") + rng.choice(ends)
            elif k > 0 and r < 0.8:
                body = rng.choice(starts) + (_body(rng) if rng.random() < 0.5 else b"")
            else:
                body = _body(rng)
            reads = _cuts_at_line_starts(rng, body) if rng.random() < 0.4 else _sizes(rng, len(body))
            msgs.append({"body": body.hex(), "reads": reads, "lens": _sizes(rng, 2 * len(body) + 5)})
        cases.append({"msgs": msgs})
    # message objects that refuse a line part-way (IMessage.lineReceived raises SMTPServerError) or whose eomReceived
    # fails, with command-looking body lines after the refusal; alone and inside sessions
    cmdish = [b"NOOP", b"QUIT", b"RSET", b"MAIL FROM:<x@example.com>", b"DATA", b".", b"..", b"", b"a: b", b"body"]
    for _ in range(220 if quick else 4000):
        n = rng.choice([1, 1, 2, 3])
        msgs = []
        for k in range(n):
            body = b"".join(rng.choice(cmdish) + b"\n" for _ in range(rng.randrange(1, 7)))
            m = {"body": body.hex(), "reads": _sizes(rng, len(body)), "lens": _sizes(rng, 2 * len(body) + 5)}
            r = rng.random()
            if r < 0.6:
                m["refuse"] = rng.randrange(0, 6)
            elif r < 0.8:
                m["eomfail"] = True
            msgs.append(m)
        cases.append({"msgs": msgs})
    # LineOnlyReceiver.MAX_LENGTH end to end: a body line whose wire form is MAX_LENGTH-2 .. MAX_LENGTH bytes (with and
    # without a leading '.'), followed by command-looking lines, the network cut at every position around its CR LF
    for L in (MAX_LENGTH - 2, MAX_LENGTH - 1, MAX_LENGTH, MAX_LENGTH + 1):
        for dot in (False, True):
            line = (b"." + b"d" * (L - 2)) if dot else b"x" * L           # dot-stuffed to L bytes on the wire
            pre = b"Subject: s\n"
            body = pre + line + b"\nNOOP\nQUIT\n.tail\n"
            cr = len(pre) + 1 + L                                          # offset of the line's CR in the wire bytes
            cuts = [[cr - 1], [cr], [cr + 1], [cr - 3, 0, 0, 0, 0, 0]] if quick else \
                [[cr - 2], [cr - 1], [cr], [cr + 1], [cr + 2], [cr - 3, 0, 0, 0, 0, 0], [cr - 1, 0], []]
            for lens in cuts:
                cases.append({"msgs": [{"body": body.hex(), "reads": [], "lens": lens}]})
    for e in ends:                                  # every (ending, start) pair, whole reads
        for st_ in starts:
            cases.append({"msgs": [{"body": e.hex(), "reads": [], "lens": []}, {"body": st_.hex(), "reads": [], "lens": []}]})
    if not quick:
        # FileSender's real CHUNK_SIZE (2**14): a dot-line right at the 16384-byte boundary
        for k in (16382, 16383, 16384):
            body = b"x" * 99 + b"\n"
            body = body * (k // 100) + b"y" * (k % 100 - 1) + b"\n" + b".\nQUIT\n.tail\n"
            cases.append({"body": body.hex(), "reads": [], "lens": []})
    return cases


def corpus():
    return [
        {"body": b".\nQUIT\n".hex(), "reads": [], "lens": []},                      # F13: dot at message start
        {"body": b"a\n.\nRSET\n".hex(), "reads": [1], "lens": []},                  # F13: dot at read-chunk start
        {"body": b"a\n.b\n".hex(), "reads": [1], "lens": [0, 0, 0]},                # F13: leading dot eaten
        {"body": b"Subject: x\n\nbody\n..\n.\n".hex(), "reads": [2, 2, 2], "lens": []},
        {"body": b"".hex(), "reads": [], "lens": []},
        {"body": b"\n".hex(), "reads": [], "lens": [0]},
        {"body": b"no header\n".hex(), "reads": [], "lens": [3]},
        # the message object refuses its second line; NOOP / QUIT follow in the body; a second message after it
        {"msgs": [{"body": b"a\nb\nNOOP\nQUIT\n".hex(), "reads": [], "lens": [], "refuse": 2},
                  {"body": b"second\n".hex(), "reads": [], "lens": [], "eomfail": True}]},
        # two messages on one connection: the first body has no final LF, the second starts with a dot-line
        {"msgs": [{"body": b"abc".hex(), "reads": [], "lens": []}, {"body": b".\nQUIT\n".hex(), "reads": [], "lens": []}]},
        {"msgs": [{"body": b"abc".hex(), "reads": [], "lens": []}, {"body": b".foo\n".hex(), "reads": [], "lens": []},
                  {"body": b"x\n".hex(), "reads": [0], "lens": [1]}]},
    ]


def to_coq(case):
    out = []
    for m in _msgs(case):
        body = bytes.fromhex(m["body"])
        if len(body) > 3000:
            return None
        rf = "(@None nat)" if m.get("refuse") is None else f"(Some {m['refuse']}%nat)"
        out.append(f"({coq_bytes(body)}, {coq_list([f'{n}%nat' for n in m['reads']], 'nat')}, "
                   f"{coq_list([f'{n}%nat' for n in m['lens']], 'nat')}, {rf}, {'true' if m.get('eomfail') else 'false'})")
    return coq_list(out, "(list N * list nat * list nat * option nat * bool)")


def model_equal(case, impl_obs, model_obs):
    return impl_obs.split(" a=", 1)[0] == model_obs


def _shrink_msg(m):
    body = bytes.fromhex(m["body"])
    lines = body.split(b"\n")
    if body.endswith(b"\n"):
        lines = lines[:-1]
        for i in range(len(lines)):
            nb = b"".join(x + b"\n" for x in lines[:i] + lines[i + 1:])
            yield {**m, "body": nb.hex()}
        for i, l in enumerate(lines):
            if len(l) > 1:
                nb = b"".join(x + b"\n" for x in lines[:i] + [l[:-1]] + lines[i + 1:])
                yield {**m, "body": nb.hex()}
    elif len(body) > 1:
        for i in range(len(body)):
            yield {**m, "body": (body[:i] + body[i + 1:]).hex()}
    if m["lens"]:
        yield {**m, "lens": []}
    for i in range(len(m["reads"])):
        yield {**m, "reads": m["reads"][:i] + m["reads"][i + 1:]}


def shrink(case):
    msgs = _msgs(case)
    for i in range(len(msgs)):
        if len(msgs) > 1:
            yield {"msgs": msgs[:i] + msgs[i + 1:]}
    for i, m in enumerate(msgs):
        for m2 in _shrink_msg(m):
            yield {"msgs": msgs[:i] + [m2] + msgs[i + 1:]}


def histogram(case, obs):
    msgs = _msgs(case)
    k = f"{len(msgs)}msg "
    m = msgs[-1]
    body = bytes.fromhex(m["body"])
    e = expected_lines(body)
    if len(msgs) > 1:
        prev = bytes.fromhex(msgs[-2]["body"])
        k += ("prev-unterminated " if prev and not prev.endswith(b"\n") else "") + ("dot-first " if body[:1] == b"." else "")
    if e is None:
        return k + "outside-property (CR / unterminated)"
    if e == "empty":
        return k + "empty body"
    return k + _where(body, m["reads"]) + (" dotlines" if any(l[:1] == b"." for l in body.split(b"\n")) else " plain")


SPEC = Spec(
    pid="C40",
    gen=gen, impl=impl, oracle=oracle, corpus=corpus, shrink=shrink,
    coq_header="From C40 Require Import Model Run.",
    coq_fn="run_session",
    to_coq=to_coq,
    model_equal=model_equal,
    nontrivial=lambda c, o: any("2e" in m["body"] for m in _msgs(c)),
    histogram=histogram,
    rule="bodies of 0-6 lines from a pool rich in dot-lines ('.', '..', '.a'), empty lines, header-like and "
         "command-like lines; file-read chunking: whole / byte-wise / random / cuts placed exactly at line starts; network "
         "segmentation whole / byte-wise / random; every body of <= 3 lines over {'.', '', 'a', '.a'} (thorough adds "
         "'..', 'a:') with every single read-cut position; a malformed stream (CR inside, unterminated last line) for the "
         "correspondence only; sessions of 2-3 messages over one connection (earlier bodies with and without a final LF, "
         "later bodies starting with dot-lines; every ending x start pair); thorough adds dot-lines at FileSender's real "
         "16384-byte boundary; message objects that refuse their k-th line (SMTPServerError) or fail eomReceived, bodies of "
         "command-looking lines, alone and in sessions; body lines of MAX_LENGTH-2..MAX_LENGTH+1 wire bytes (with/without "
         "leading dot) with the network cut at every position around their CR LF (oracle only: bodies over 3000 bytes skip "
         "the model); non-trivial = a body contains a '.'",
    trusted=["hand-written model coq/C40/Model.v (tied by this correspondence run only)",
             "bytes.replace semantics (one-byte pattern = flat_map; 3-byte pattern left-to-right non-overlapping) as written "
             "in Model.v, validated by the wire comparison",
             "LineOnlyReceiver framing modelled byte-wise on CR LF without its MAX_LENGTH check (that is C16)"],
    assumptions=["transformChunk modelled as repaired by fixes/C40-dot-stuffing-across-chunks.patch",
                 "message lines shorter than LineOnlyReceiver.MAX_LENGTH (16384)",
                 "every message of a session goes to one recipient that accepts it"],
    case_timeout=20.0,
)
