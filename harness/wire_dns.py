"""Shared DNS helpers for C32 / C33: case <-> twisted objects, canonical printing, an independent
strict RFC 1035 decoder (the 'independent DNS decoder' of the property; dnspython is not installed),
Coq terms, generators."""
from __future__ import annotations

import struct

from harness.common import coq_list


def coq_bytes(b: bytes) -> str:
    """hex string literal, decoded by Run.hx (much cheaper for coqc to parse than a list of numerals)"""
    return "(@nil N)" if not b else f'(hx "{bytes(b).hex()}")'

EXN = {"error": "StructError"}


def exn(e) -> str:
    n = type(e).__name__
    return "E:" + EXN.get(n, n)


# class name -> [(attribute, kind)]   kinds: n name, b bytes, u unsigned, s signed, l list of bytes, cs Charstr
SIMPLE = ["Record_NS", "Record_MD", "Record_MF", "Record_CNAME", "Record_MB", "Record_MG", "Record_MR",
          "Record_PTR", "Record_DNAME"]
FIELDS = {
    "Record_A": [("address", "b")],
    "Record_SOA": [("mname", "n"), ("rname", "n"), ("serial", "u"), ("refresh", "s"), ("retry", "s"),
                   ("expire", "s"), ("minimum", "u")],
    "Record_NULL": [("payload", "b")],
    "Record_WKS": [("address", "b"), ("protocol", "u"), ("map", "b")],
    "Record_HINFO": [("cpu", "b"), ("os", "b")],
    "Record_MINFO": [("rmailbx", "n"), ("emailbx", "n")],
    "Record_MX": [("preference", "u"), ("name", "n")],
    "Record_TXT": [("data", "l")],
    "Record_SPF": [("data", "l")],
    "Record_RP": [("mbox", "n"), ("txt", "n")],
    "Record_AFSDB": [("subtype", "u"), ("hostname", "n")],
    "Record_AAAA": [("address", "b")],
    "Record_SRV": [("priority", "u"), ("weight", "u"), ("port", "u"), ("target", "n")],
    "Record_NAPTR": [("order", "u"), ("preference", "u"), ("flags", "cs"), ("service", "cs"), ("regexp", "cs"),
                     ("replacement", "n")],
    "Record_SSHFP": [("algorithm", "u"), ("fingerprintType", "u"), ("fingerprint", "b")],
    "Record_TSIG": [("algorithm", "n"), ("timeSigned", "u"), ("fudge", "u"), ("MAC", "b"), ("originalID", "u"),
                    ("error", "u"), ("otherData", "b")],
    "UnknownRecord": [("data", "b")],
}
for _s in SIMPLE:
    FIELDS[_s] = [("name", "n")]

# the same layouts by TYPE number, written from the RFCs (1035, 1183, 2782, 2915/3403, 3596, 4255, 2845, 6672, 4408)
RFC_SCHEMA = {
    1: "b4", 2: "n", 3: "n", 4: "n", 5: "n", 7: "n", 8: "n", 9: "n", 12: "n", 39: "n",
    6: "n n u4 s4 s4 s4 u4", 10: "r", 11: "b4 u1 r", 13: "c c", 14: "n n", 17: "n n", 15: "u2 n", 18: "u2 n",
    16: "t", 99: "t", 28: "b16", 33: "u2 u2 u2 n", 35: "u2 u2 c c c n", 44: "u1 u1 r",
    250: "n u6 u2 L u2 u2 L",
}

HDR = ["id", "answer", "opCode", "auth", "trunc", "recDes", "recAv", "authenticData", "checkingDisabled", "rCode"]


def dotted(labels) -> bytes:
    return b".".join(bytes.fromhex(l) for l in labels)


def wire_len(labels) -> int:
    return sum(len(l) // 2 + 1 for l in labels) + 1


# ---- case -> twisted objects ------------------------------------------------------------------

def make_record(dns, t, ttl, data):
    cls_ = dns.Message._recordTypes.get(t, dns.UnknownRecord)
    r = cls_()
    name = cls_.__name__
    if name == "Record_A6":
        plen, suffix, prefix = data[0]["a6"]
        r.prefixLen = plen
        r.suffix = bytes.fromhex(suffix)
        r.prefix = dns.Name(dotted(prefix))
        r.bytes = int((128 - plen) / 8.0)
    else:
        for (attr, kind), v in zip(FIELDS[name], data):
            if kind == "n":
                val = dns.Name(dotted(v["n"]))
            elif kind == "cs":
                val = dns.Charstr(bytes.fromhex(v["b"]))
            elif kind == "b":
                val = bytes.fromhex(v["b"])
            elif kind == "l":
                val = [bytes.fromhex(x) for x in v["l"]]
            elif kind == "u":
                val = v["u"]
            else:
                val = v["s"]
            setattr(r, attr, val)
    r.ttl = ttl
    return r


def make_message(dns, case, factory=None):
    h = case["hdr"]
    m = (factory or dns.Message)(id=h["id"], answer=h["answer"], opCode=h["opCode"], recDes=h["recDes"],
                                 recAv=h["recAv"], auth=h["auth"], rCode=h["rCode"], trunc=h["trunc"],
                                 maxSize=case["maxSize"], authenticData=h["authenticData"],
                                 checkingDisabled=h["checkingDisabled"])
    m.queries = [dns.Query(dotted(n), t, c) for n, t, c in case["q"]]
    for sec, attr in (("an", "answers"), ("ns", "authority"), ("ar", "additional")):
        out = []
        for r in case[sec]:
            out.append(dns.RRHeader(name=dotted(r["n"]), type=r["t"], cls=r["c"], ttl=r["ttl"],
                                    payload=make_record(dns, r["t"], r["ttl"], r["d"]), auth=bool(h["auth"])))
        setattr(m, attr, out)
    return m


# ---- canonical printing -------------------------------------------------------------------------

def show_fields_py(payload) -> str:
    name = type(payload).__name__
    if name not in FIELDS and name != "Record_A6":
        return "?" + name            # None / a class we do not know: an observation for the oracle, not a crash
    if name == "Record_A6":
        return f"a{payload.prefixLen}:{payload.suffix.hex()}:{payload.prefix.name.hex()}"
    out = []
    for attr, kind in FIELDS[name]:
        v = getattr(payload, attr)
        if kind == "n":
            out.append("n" + v.name.hex())
        elif kind == "cs":
            out.append("b" + v.string.hex())
        elif kind == "b":
            out.append("b" + v.hex())
        elif kind == "l":
            out.append("l" + ":".join(x.hex() for x in v))
        elif kind == "u":
            out.append("u" + str(v))
        else:
            out.append("s" + str(v))
    return ";".join(out)


def show_message_py(m) -> str:
    s = ",".join(str(int(getattr(m, a))) for a in HDR)
    s += " Q[" + " ".join(f"{q.name.name.hex()}/{q.type}/{q.cls}" for q in m.queries) + "]"
    for tag, sec in (("AN", m.answers), ("NS", m.authority), ("AR", m.additional)):
        s += f" {tag}[" + " ".join(
            f"{r.name.name.hex()}/{r.type}/{r.cls}/{r.ttl}/{show_fields_py(r.payload)}" for r in sec) + "]"
    return s


def show_fval_case(v) -> str:
    if "u" in v:
        return "u" + str(v["u"])
    if "s" in v:
        return "s" + str(v["s"])
    if "n" in v:
        return "n" + dotted(v["n"]).hex()
    if "b" in v:
        return "b" + v["b"]
    if "l" in v:
        return "l" + ":".join(v["l"])
    p, s, n = v["a6"]
    return f"a{p}:{s}:{dotted(n).hex()}"


def show_rr_case(r) -> str:
    return f"{dotted(r['n']).hex()}/{r['t']}/{r['c']}/{r['ttl']}/" + ";".join(show_fval_case(v) for v in r["d"])


def show_message_case(case, trunc=None, sections=None) -> str:
    h = dict(case["hdr"])
    if trunc is not None:
        h["trunc"] = trunc
    secs = sections or {k: case[k] for k in ("q", "an", "ns", "ar")}
    s = ",".join(str(h[a]) for a in HDR)
    s += " Q[" + " ".join(f"{dotted(n).hex()}/{t}/{c}" for n, t, c in secs["q"]) + "]"
    for tag, k in (("AN", "an"), ("NS", "ns"), ("AR", "ar")):
        s += f" {tag}[" + " ".join(show_rr_case(r) for r in secs[k]) + "]"
    return s


# ---- independent strict RFC 1035 decoder --------------------------------------------------------

class Malformed(Exception):
    pass


class Short(Exception):
    pass


def rfc_name(msg: bytes, pos: int):
    """RFC 1035 3.1 / 4.1.4: labels of 1..63 octets, at most 255 octets in all, pointers only to a
    prior occurrence.  Returns (dotted bytes, position after the name in the stream)."""
    labels = []
    total = 1
    end = None
    limit = pos            # a pointer must point before the name (or pointer chain element) it is in
    hops = 0
    while True:
        if pos >= len(msg):
            raise Short()
        l = msg[pos]
        if l == 0:
            pos += 1
            break
        if l & 0xC0 == 0xC0:
            if pos + 1 >= len(msg):
                raise Short()
            tgt = (l & 0x3F) << 8 | msg[pos + 1]
            if tgt >= limit:
                raise Malformed("forward or self pointer")
            if end is None:
                end = pos + 2
            pos = limit = tgt
            hops += 1
            continue
        if l & 0xC0:
            raise Malformed("invalid label type %#x" % l)
        if pos + 1 + l > len(msg):
            raise Short()
        labels.append(msg[pos + 1:pos + 1 + l])
        total += l + 1
        if total > 255:
            raise Malformed("name longer than 255 octets")
        pos += 1 + l
    return b".".join(labels), (end if end is not None else pos)


def rfc_rdata(msg: bytes, pos: int, rdlen: int, t: int) -> str:
    end = pos + rdlen
    if end > len(msg):
        raise Short()
    if t == 38:      # A6 (RFC 2874): prefix length, suffix, prefix name
        plen = msg[pos]
        nb = (128 - plen) // 8 if plen <= 128 else 0
        suffix = b"\0" * (16 - nb) + msg[pos + 1:pos + 1 + nb]
        p = pos + 1 + nb
        name = b""
        if plen:
            name, p = rfc_name(msg, p)
        if p != end:
            raise Malformed("rdata length")
        return f"a{plen}:{suffix.hex()}:{name.hex()}"
    out = []
    for f in RFC_SCHEMA.get(t, "r").split():
        if f == "n":
            n, pos = rfc_name(msg, pos)
            out.append("n" + n.hex())
        elif f[0] == "b":
            k = int(f[1:])
            out.append("b" + msg[pos:pos + k].hex())
            pos += k
        elif f[0] in "us":
            k = int(f[1:])
            v = int.from_bytes(msg[pos:pos + k], "big", signed=(f[0] == "s"))
            out.append(f[0] + str(v))
            pos += k
        elif f == "c":
            l = msg[pos]
            out.append("b" + msg[pos + 1:pos + 1 + l].hex())
            pos += 1 + l
        elif f == "L":
            l = int.from_bytes(msg[pos:pos + 2], "big")
            out.append("b" + msg[pos + 2:pos + 2 + l].hex())
            pos += 2 + l
        elif f == "t":
            xs = []
            while pos < end:
                l = msg[pos]
                xs.append(msg[pos + 1:pos + 1 + l].hex())
                pos += 1 + l
            out.append("l" + ":".join(xs))
        elif f == "r":
            out.append("b" + msg[pos:end].hex())
            pos = end
        if pos > end:
            raise Malformed("field runs past rdlength")
    if pos != end:
        raise Malformed("rdata not used up")
    return ";".join(out)


def rfc_decode(msg: bytes) -> str:
    """Strict decode of a whole message; stops silently at the end of a truncated message."""
    if len(msg) < 12:
        raise Short()
    ident, b3, b4, nq, nan, nns, nar = struct.unpack("!H2B4H", msg[:12])
    h = [ident, b3 >> 7, (b3 >> 3) & 15, (b3 >> 2) & 1, (b3 >> 1) & 1, b3 & 1, b4 >> 7, (b4 >> 5) & 1, (b4 >> 4) & 1, b4 & 15]
    pos = 12
    secs = {"Q": [], "AN": [], "NS": [], "AR": []}
    try:
        for _ in range(nq):
            n, p = rfc_name(msg, pos)
            if p + 4 > len(msg):
                raise Short()
            t, c = struct.unpack("!HH", msg[p:p + 4])
            pos = p + 4
            secs["Q"].append(f"{n.hex()}/{t}/{c}")
        for tag, cnt in (("AN", nan), ("NS", nns), ("AR", nar)):
            for _ in range(cnt):
                n, p = rfc_name(msg, pos)
                if p + 10 > len(msg):
                    raise Short()
                t, c, ttl, rdlen = struct.unpack("!HHIH", msg[p:p + 10])
                data = rfc_rdata(msg, p + 10, rdlen, t)
                pos = p + 10 + rdlen
                secs[tag].append(f"{n.hex()}/{t}/{c}/{ttl}/{data}")
    except Short:
        pass
    return ",".join(map(str, h)) + " Q[" + " ".join(secs["Q"]) + "] AN[" + " ".join(secs["AN"]) + "] NS[" + \
        " ".join(secs["NS"]) + "] AR[" + " ".join(secs["AR"]) + "]"


# ---- Coq terms ----------------------------------------------------------------------------------

def coq_labels(labels) -> str:
    return coq_list([coq_bytes(bytes.fromhex(l)) for l in labels], "label")


def coq_fval(v) -> str:
    if "u" in v:
        return f"(VU {v['u']}%N)"
    if "s" in v:
        return f"(VS ({v['s']})%Z)"
    if "n" in v:
        return f"(VName {coq_labels(v['n'])})"
    if "b" in v:
        return f"(VBytes {coq_bytes(bytes.fromhex(v['b']))})"
    if "l" in v:
        return "(VList " + coq_list([coq_bytes(bytes.fromhex(x)) for x in v["l"]], "(list N)") + ")"
    p, s, n = v["a6"]
    return f"(VA6 {p}%N {coq_bytes(bytes.fromhex(s))} {coq_labels(n)})"


def coq_rr(r) -> str:
    return (f"(mkRR {coq_labels(r['n'])} {r['t']}%N {r['c']}%N {r['ttl']}%N "
            + coq_list([coq_fval(v) for v in r["d"]], "fval") + ")")


def coq_message(case) -> str:
    h = case["hdr"]
    hd = "(mkH " + " ".join(f"{h[a]}%N" for a in ["id", "answer", "opCode", "auth", "trunc", "recDes", "recAv",
                                                   "authenticData", "checkingDisabled", "rCode"]) + ")"
    qs = coq_list([f"(mkQ {coq_labels(n)} {t}%N {c}%N)" for n, t, c in case["q"]], "query")
    secs = " ".join(coq_list([coq_rr(r) for r in case[k]], "rr") for k in ("an", "ns", "ar"))
    return f"(mkM {hd} {qs} {secs})"


# ---- reference (uncompressed) encoder, used to seed the C33 mutation streams --------------------

def ref_name(labels) -> bytes:
    return b"".join(bytes([len(l) // 2 & 0xFF]) + bytes.fromhex(l) for l in labels) + b"\0"


def ref_rdata(t, data) -> bytes:
    if t == 38:
        plen, suffix, prefix = data[0]["a6"]
        nb = (128 - plen) // 8 if plen <= 128 else 0
        return bytes([plen & 0xFF]) + (bytes.fromhex(suffix)[16 - nb:] if nb else b"") + (ref_name(prefix) if plen else b"")
    out = b""
    for f, v in zip(RFC_SCHEMA.get(t, "r").split(), data):
        if f == "n":
            out += ref_name(v["n"])
        elif f[0] == "b" or f == "r":
            out += bytes.fromhex(v["b"])
        elif f[0] == "u":
            out += (v["u"] % 256 ** int(f[1:])).to_bytes(int(f[1:]), "big")
        elif f[0] == "s":
            out += (v["s"] % 2 ** 32).to_bytes(4, "big")
        elif f == "c":
            b = bytes.fromhex(v["b"])[:255]
            out += bytes([len(b)]) + b
        elif f == "L":
            b = bytes.fromhex(v["b"])
            out += len(b).to_bytes(2, "big") + b
        elif f == "t":
            for x in v["l"]:
                b = bytes.fromhex(x)[:255]
                out += bytes([len(b)]) + b
    return out


def ref_encode(case) -> bytes:
    h = case["hdr"]
    b3 = (h["answer"] & 1) << 7 | (h["opCode"] & 15) << 3 | (h["auth"] & 1) << 2 | (h["trunc"] & 1) << 1 | h["recDes"] & 1
    b4 = (h["recAv"] & 1) << 7 | (h["authenticData"] & 1) << 5 | (h["checkingDisabled"] & 1) << 4 | h["rCode"] & 15
    out = struct.pack("!H2B4H", h["id"] & 0xFFFF, b3, b4, len(case["q"]), len(case["an"]), len(case["ns"]), len(case["ar"]))
    for n, t, c in case["q"]:
        out += ref_name(n) + struct.pack("!HH", t & 0xFFFF, c & 0xFFFF)
    for s in ("an", "ns", "ar"):
        for r in case[s]:
            rd = ref_rdata(r["t"], r["d"])
            out += ref_name(r["n"]) + struct.pack("!HHIH", r["t"] & 0xFFFF, r["c"] & 0xFFFF, r["ttl"] & 0xFFFFFFFF,
                                                  len(rd) & 0xFFFF) + rd
    return out
