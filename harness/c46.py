"""C46 — endpoint description quoting round-trips.

T-tie: coq/C46/Gen.v (quoteStringArgument) is regenerated from src/twisted/internet/endpoints.py
on every run; H-tie: coq/C46/Model.v models _tokenize/_parse; this correspondence run validates
both on rendered descriptions and on raw hostile descriptions."""
from __future__ import annotations

import itertools

from harness.common import COQ, REPO, Failure, Spec
from translate import c46 as tr

# --------------------------------------------------------------------------------------
# canonical printing (must match coq/C46/Run.v)


def show_str(s: str) -> str:
    return "[" + ",".join(str(ord(c)) for c in s) + "]"


def show_result(args, kw) -> str:
    return ("A[" + ",".join(show_str(a) for a in args) + "]K["
            + ",".join("(" + show_str(k) + "," + show_str(v) + ")" for k, v in kw.items()) + "]")


def _render(q, items) -> str:
    parts = []
    for it in items:
        if it[0] == "p":
            parts.append(q(it[1]))
        else:
            parts.append(q(it[1]) + "=" + q(it[2]))
    return ":".join(parts)


def _parse_obs(desc: str) -> str:
    from twisted.internet import endpoints
    try:
        args, kw = endpoints._parse(desc)
    except RuntimeError:            # generator raised StopIteration: backslash at the very end
        return "ERR"
    except UnicodeEncodeError:      # nativeString(key): keyword names must be ASCII
        return "UNI"
    return show_result(args, kw)


class _F:
    """a protocol factory that is never used"""

    def doStart(self):
        pass

    def doStop(self):
        pass


def _endpoint_obs(t: str) -> str:
    """the text as it arrives at the reactor through the public string APIs"""
    from twisted.internet import endpoints
    from twisted.internet.testing import MemoryReactor
    q = endpoints.quoteStringArgument
    out = []
    r = MemoryReactor()
    endpoints.clientFromString(r, "unix:path=" + q(t) + ":timeout=7").connect(_F())
    out.append(show_str(r.unixClients[0][0]))
    r = MemoryReactor()
    endpoints.clientFromString(r, "unix:" + q(t)).connect(_F())
    out.append(show_str(r.unixClients[0][0]))
    r = MemoryReactor()
    endpoints.clientFromString(r, "tcp:host=" + q(t) + ":port=80").connect(_F())
    out.append(show_str(r.tcpClients[0][0]) + "/" + str(r.tcpClients[0][1]))
    r = MemoryReactor()
    endpoints.serverFromString(r, "unix:" + q(t) + ":mode=660").listen(_F())
    out.append(show_str(r.unixServers[0][0]))
    r = MemoryReactor()
    endpoints.serverFromString(r, "tcp:0:interface=" + q(t)).listen(_F())
    out.append(show_str(r.tcpServers[0][3]))
    return " ".join(out)


def impl(case) -> str:
    from twisted.internet import endpoints
    q = endpoints.quoteStringArgument
    if case["kind"] == "items":
        desc = _render(q, case["items"])
        return show_str(desc) + " " + _parse_obs(desc)
    if case["kind"] == "raw":
        return "[" + ",".join(show_str(q(t)) for t in case["quote"]) + "] " + _parse_obs(case["desc"])
    if case["kind"] == "endpoint":
        try:
            return _endpoint_obs(case["text"])
        except (TypeError, ValueError, KeyError, IndexError) as e:
            return "EXC:" + type(e).__name__
    raise ValueError(case["kind"])


# --------------------------------------------------------------------------------------
# property oracle (independent of the Coq model)


def _unshow(s: str) -> str:
    s = s.strip("[]")
    return "".join(chr(int(x)) for x in s.split(",")) if s else ""


def ref_split(desc: str):
    """Reference reading of a description, written from the documentation of serverFromString:
    arguments are separated by unescaped ':'; an argument containing an unescaped '=' is
    key=value (split at the first one); backslash makes the next character literal; keyword names
    must be ASCII ("UNI"); a lone backslash at the very end is an error ("ERR", reported after the
    arguments that precede the unfinished one have been accepted).  Returns (args, kw) or a tag."""
    segs, cur, i, dangling = [], [], 0, False
    while i < len(desc):
        c = desc[i]
        if c == "\\":
            if i + 1 >= len(desc):
                dangling = True
                break
            cur.append(("lit", desc[i + 1]))
            i += 2
            continue
        if c == ":":
            segs.append(cur)
            cur = []
        else:
            cur.append(("raw", c))
        i += 1
    if not dangling:
        segs.append(cur)
    args, kw = [], {}
    text = lambda part: "".join(ch for _, ch in part)
    for seg in segs:
        eq = next((j for j, (k, ch) in enumerate(seg) if k == "raw" and ch == "="), None)
        if eq is None:
            args.append(text(seg))
        else:
            if not text(seg[:eq]).isascii():
                return "UNI"
            kw[text(seg[:eq])] = text(seg[eq + 1:])
    if dangling:
        return "ERR"
    return args, kw


def _ref_show(r) -> str:
    return r if isinstance(r, str) else show_result(r[0], r[1])


def _classify(items) -> str:
    for it in items:
        if it[0] == "p" and "=" in it[1]:
            return "positional-contains-equals"
        if it[0] == "k" and "=" in it[1]:
            return "key-contains-equals"
    return "roundtrip"


def oracle(case, obs):
    if case["kind"] == "items":
        items = case["items"]
        args = [it[1] for it in items if it[0] == "p"]
        kw = {}
        want = None
        for it in items:
            if it[0] == "k":
                if not it[1].isascii():      # keyword names become Python keyword names: ASCII only
                    want = "UNI"
                    break
                kw[it[1]] = it[2]
        want = want or show_result(args, kw)
        got = obs.split(" ", 1)[1] if " " in obs else obs
        if got != want:
            return Failure(case, f"description built from quoted arguments parses to {got}, expected {want}",
                           _classify(items))
        return None
    if case["kind"] == "raw":
        qs, got = obs.split(" ", 1)
        shown = qs[1:-1]
        quoted = [] if not shown else [_unshow(x) for x in shown.replace("],[", "]|[").split("|")]
        for t, qt in zip(case["quote"], quoted):
            r = ref_split(qt)
            if r != ([t], {}):
                return Failure(case, f"quoteStringArgument({t!r}) = {qt!r} does not read back as one positional "
                               f"argument equal to the text (reference reading: {r})",
                               "positional-contains-equals" if "=" in t else "quote-not-one-argument")
            r2 = ref_split("k=" + qt)
            if r2 != ([], {"k": t}):
                return Failure(case, f"k={qt!r} does not read back as keyword k with the text", "quote-keyword-value")
        want = _ref_show(ref_split(case["desc"]))
        if got != want:
            return Failure(case, f"_parse({case['desc']!r}) gives {got}, reference reading gives {want}", "parse-reference")
        return None
    if case["kind"] == "endpoint":
        t = case["text"]
        want = " ".join([show_str(t), show_str(t), show_str(t) + "/80", show_str(t), show_str(t)])
        if obs != want:
            parts, wparts = obs.split(" "), want.split(" ")
            which = next((i for i, (a, b) in enumerate(zip(parts, wparts)) if a != b), -1)
            names = ["client-unix-keyword", "client-unix-positional", "client-tcp-host", "server-unix-positional",
                     "server-tcp-interface"]
            if obs.startswith("EXC:"):
                tag = "positional-contains-equals" if "=" in t else "endpoint-exception"
            else:
                tag = ("positional-contains-equals" if "=" in t and which in (1, 3)
                       else "endpoint-" + (names[which] if 0 <= which < len(names) else "other"))
            return Failure(case, f"text {t!r} arrives at the reactor as {obs} (expected {want})", tag)
        return None
    return None


# --------------------------------------------------------------------------------------
# generation

HOSTILE = [":", "=", "\\", ":", "=", "\\", "a", "b", " ", "\u00e9", "\u20ac", "\U0001F600", "\x00", "\n", "/", "."]
SMALL = [":", "=", "\\", "a"]


def _text(rng, maxlen=6):
    return "".join(rng.choice(HOSTILE) for _ in range(rng.randrange(maxlen + 1)))


def _item(rng):
    if rng.random() < 0.5:
        return ["p", _text(rng)]
    # keys: sometimes repeated (dict update), sometimes hostile
    k = rng.choice(["k", "k", "key", _text(rng, 3), _text(rng, 3)])
    return ["k", k, _text(rng)]


def corpus():
    return [
        {"kind": "items", "items": [["p", "tcp"], ["p", "a=b"]]},                    # F18
        {"kind": "items", "items": [["p", "tcp"], ["k", "a=b", "v"]]},
        {"kind": "raw", "quote": ["a=b"], "desc": "tcp:a=b"},
        {"kind": "endpoint", "text": "/tmp/a=b"},
        {"kind": "items", "items": [["p", "ssl"], ["p", "443"], ["k", "privateKey", "C:\\key=1.pem"]]},
        {"kind": "raw", "quote": [], "desc": "tcp:80\\"},                           # lone trailing backslash
        {"kind": "raw", "quote": ["\\"], "desc": "a\\:b=c\\==d:e=f=g:=:"},
    ]


def gen(rng, tier):
    cases = []
    n_small = 3 if tier == "quick" else 5
    for n in range(n_small + 1):
        for tup in itertools.product(SMALL, repeat=n):
            t = "".join(tup)
            cases.append({"kind": "items", "items": [["p", t]]})
            cases.append({"kind": "items", "items": [["p", "tcp"], ["p", t], ["p", "z"]]})
            cases.append({"kind": "items", "items": [["p", "tcp"], ["k", t, "v"]]})
            cases.append({"kind": "items", "items": [["p", "tcp"], ["k", "k", t], ["p", "z"]]})
    n_raw = 4 if tier == "quick" else 6
    for n in range(n_raw + 1):
        for tup in itertools.product(SMALL, repeat=n):
            d = "".join(tup)
            cases.append({"kind": "raw", "quote": [d] if n <= 3 else [], "desc": d})
    for _ in range(600 if tier == "quick" else 8000):
        cases.append({"kind": "items", "items": [_item(rng) for _ in range(rng.randrange(1, 7))]})
    for _ in range(400 if tier == "quick" else 4000):
        cases.append({"kind": "raw", "quote": [_text(rng) for _ in range(rng.randrange(3))],
                      "desc": _text(rng, 14)})
    for _ in range(60 if tier == "quick" else 600):
        cases.append({"kind": "endpoint", "text": _text(rng, 8)})
    return cases


def coq_cps(s: str) -> str:
    if not s:
        return "(@nil N)"
    return "[" + ";".join(str(ord(c)) for c in s) + "]%N"


def to_coq(case):
    if case["kind"] == "items":
        its = []
        for it in case["items"]:
            if it[0] == "p":
                its.append(f"Pos {coq_cps(it[1])}")
            else:
                its.append(f"Kw {coq_cps(it[1])} {coq_cps(it[2])}")
        return "inl [" + "; ".join(its) + "]"
    if case["kind"] == "raw":
        qs = "[" + "; ".join(coq_cps(t) for t in case["quote"]) + "]" if case["quote"] else "(@nil (list N))"
        return f"inr ({qs}, {coq_cps(case['desc'])})"
    return None


def shrink(case):
    if case["kind"] == "items":
        items = case["items"]
        for i in range(len(items)):
            if len(items) > 1:
                yield {"kind": "items", "items": items[:i] + items[i + 1:]}
        for i, it in enumerate(items):
            for j in range(1, len(it)):
                s = it[j]
                for k in range(len(s)):
                    yield {"kind": "items", "items": items[:i] + [it[:j] + [s[:k] + s[k + 1:]] + it[j + 1:]] + items[i + 1:]}
    elif case["kind"] == "raw":
        d = case["desc"]
        if case["quote"]:
            yield {"kind": "raw", "quote": [], "desc": d}
            for i, t in enumerate(case["quote"]):
                yield {"kind": "raw", "quote": case["quote"][:i] + case["quote"][i + 1:], "desc": d}
                for k in range(len(t)):
                    yield {"kind": "raw", "quote": case["quote"][:i] + [t[:k] + t[k + 1:]] + case["quote"][i + 1:], "desc": d}
        for k in range(len(d)):
            yield {"kind": "raw", "quote": case["quote"], "desc": d[:k] + d[k + 1:]}
    elif case["kind"] == "endpoint":
        t = case["text"]
        for k in range(len(t)):
            yield {"kind": "endpoint", "text": t[:k] + t[k + 1:]}


def hist(case, obs):
    if case["kind"] == "items":
        texts = "".join("".join(it[1:]) for it in case["items"])
        return "items:" + ("non-ascii-name" if obs.endswith("UNI") else "specials" if any(c in texts for c in ":=\\") else "plain")
    if case["kind"] == "raw":
        return "raw:" + ("error" if obs.endswith("ERR") else "non-ascii-name" if obs.endswith("UNI") else "ok")
    return "endpoint"


SPEC = Spec(
    pid="C46",
    gen=gen,
    impl=impl,
    oracle=oracle,
    coq_header="From C46 Require Import Gen Model Run.",
    coq_fn="run_show",
    to_coq=to_coq,
    regen=lambda: tr.regen(REPO, COQ),
    corpus=corpus,
    shrink=shrink,
    histogram=hist,
    nontrivial=lambda c, o: c["kind"] != "items" or any(ch in "".join("".join(it[1:]) for it in c["items"]) for ch in ":=\\"),
    rule="items: every text of length <= 3 (thorough 5) over {: = \\ a} as sole argument, as positional, as key and "
         "as value, plus random argument lists (1..6 arguments, texts of length 0..6 over a 12-symbol hostile "
         "alphabet incl. non-ASCII/astral/NUL/LF, repeated keys); raw: every description of length <= 4 (thorough 6) "
         "over {: = \\ a} plus random hostile descriptions (incl. trailing backslash); endpoint: texts sent through "
         "clientFromString/serverFromString to a MemoryReactor (oracle only). non-trivial = contains : = or \\ "
         "(or raw/endpoint); distinct by (case, observation)",
    trusted=[
        "translator translate/replace_chain.py + translate/c46.py (fail-closed; validated by this correspondence run)",
        "coq/Lib/PyStr.v py_replace = CPython str.replace for non-empty patterns (validated by this correspondence run)",
        "hand-written model of _tokenize/_parse (coq/C46/Model.v), tied as far as the generated descriptions reach",
        "Python str = list of code points; dict = insertion-ordered association list",
    ],
    assumptions=["descriptions and arguments are str (quoteStringArgument does not accept bytes)"],
)
