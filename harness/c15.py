"""C15 - TCP byte streams on every reactor: trace validation (TV-tie) of coq/C15 (C14's descriptor composed with a
kernel socket-pair oracle and the reactor's dispatch rule) against real loopback connections on the select, poll,
epoll and asyncio reactors.

case = {"reactor": "select"|"poll"|"epoll"|"asyncio", "sndbuf": n, "rcvbuf": n (0 = kernel default),
        "sl": SEND_LIMIT or 0 (class default), "bs": bufferSize or 0 (class default),
        "A": side, "B": side, "expect": {...}}          A = connecting side (tcp.Client), B = accepted side (tcp.Server)
side = {"half": bool (protocol provides IHalfCloseableProtocol), "rules": [[trigger, [action...]]...]}
trigger = "conn" | ["recv", n] (once, when >= n bytes have been delivered) | "data" (every dataReceived)
        | ["at", ms] (timer from connectionMade) | "rlost" | "wlost" | "lost"
action  = ["w", len] | ["ws", [len...]] | ["echo"] (write as many bytes as the current dataReceived delivered)
        | ["lose"] | ["losew"] | ["abort"] | ["pause"] | ["resume"] | ["later", ms, [action...]]
Every byte a side writes is byte_at(salt_side, offset in that side's stream of write *calls*), so content is
position-determined.

Each reactor runs in a fresh subprocess (this file executed as a script, `_runner_main`), several cases one after
the other inside one reactor.run().  Inside the subprocess nothing in /repo is changed: the transport's socket is
replaced by a recording proxy in connectionMade, and the transport's IReadWriteDescriptor methods (doRead, doWrite,
connectionLost, readConnectionLost) are wrapped as instance attributes, which gives the dispatch boundaries.

Recorded nondeterminism (the trace replayed into the model): which side's doRead / doWrite the reactor dispatched in
which order, every recv result (n bytes / EOF / EAGAIN / error), every send result (k / error), disconnect events the
reactor reports without any I/O call (POLLHUP-style), the firing of abortConnection's delayed call, and the moment
every application call was made.  The model computes everything else (which bytes, which callbacks, which socket
calls, reactor registration) and must print the same line.
"""
from __future__ import annotations

import json
import os
import subprocess
import sys
import threading
import time
import zlib

SALT = {"A": 17, "B": 101}
_PERIOD = 251 * 241


def byte_at(salt: int, i: int) -> int:
    return (i % 251 + (i // 251) % 241 + salt) % 256


_blocks: dict = {}


def pattern(salt: int, off: int, n: int) -> bytes:
    """bytes off .. off+n-1 of the stream of the side with this salt"""
    blk = _blocks.get(salt)
    if blk is None:
        blk = _blocks[salt] = bytes(byte_at(salt, i) for i in range(_PERIOD))
    if n <= 0:
        return b""
    start = off % _PERIOD
    reps = (start + n) // _PERIOD + 1
    return (blk * reps)[start:start + n]


def ck(data: bytes, value: int = 1) -> int:
    return zlib.adler32(data, value) & 0xFFFFFFFF


# --------------------------------------------------------------------------------------------------------
# the subprocess: real reactor, real loopback connections


def _runner_main() -> None:
    req = json.load(sys.stdin)
    kind = req["reactor"]
    if kind == "select":
        from twisted.internet import selectreactor as m
    elif kind == "poll":
        from twisted.internet import pollreactor as m
    elif kind == "epoll":
        from twisted.internet import epollreactor as m
    elif kind == "asyncio":
        from twisted.internet import asyncioreactor as m
    else:
        raise SystemExit("unknown reactor " + kind)
    m.install()
    import errno
    import socket as _socket

    from twisted.internet import error, interfaces, protocol, reactor
    from zope.interface import implementer

    from twisted.python import log as _tlog

    errors = []          # failures logged by twisted while a scenario runs (exceptions swallowed by the reactor)

    def _observer(ev):
        if ev.get("isError"):
            f = ev.get("failure")
            errors.append(f.type.__name__ if f is not None else "error")

    _tlog.addObserver(_observer)
    limit = float(req.get("limit", 8.0))
    grace = float(req.get("grace", 0.03))
    cases = req["cases"]
    out = sys.stdout

    class Scenario:
        def __init__(self, idx, case):
            self.idx, self.case = idx, case
            self.tokens = []          # finished tokens
            self.cur = None           # [side, head, outs]
            self.t = {}               # side -> transport
            self.in_app = {"A": False, "B": False}
            self.in_disp = {"A": False, "B": False}
            self.pending = {"A": False, "B": False}     # last dispatch returned a reason; disconnect call follows
            self.abort_pending = {"A": False, "B": False}
            self.aborted = {"A": False, "B": False}
            self.woff = {"A": 0, "B": 0}                # stream offset of the next write call
            self.rlen = {"A": 0, "B": 0}
            self.rck = {"A": 1, "B": 1}
            self.mism = {"A": None, "B": None}          # first offset where delivered bytes differ from the pattern
            self.nlost = {"A": 0, "B": 0}
            self.made = {"A": False, "B": False}
            self.done = False
            self.port = None
            self.timers = []
            self.finish_cb = None
            self.curdata = 0
            del errors[:]

        # ---- token log ----
        def flags(self, side):
            t = self.t.get(side)
            if t is None:
                return ""
            return ("R" if t in reactor.getReaders() else "") + ("W" if t in reactor.getWriters() else "")

        def close_token(self):
            if self.cur is not None:
                side, head, outs, fl = self.cur
                if fl is None or self.in_disp[side] or self.in_app[side]:
                    fl = self.flags(side)       # closed from inside an instrumented call of this side: state is current
                self.tokens.append(side + head + ">" + (",".join(outs) or "-") + "|" + fl)
                self.cur = None

        def begin(self, side, head):
            self.close_token()
            self.cur = [side, head, [], None]

        def sample(self, side):
            """an instrumented call on this side returns: the registration now is the state after the event so far
            (the reactor may unregister the descriptor before the next instrumented call is reached)"""
            if self.cur is not None and self.cur[0] == side:
                self.cur[3] = self.flags(side)

        def emit(self, side, text):
            if self.cur is None or self.cur[0] != side:
                self.begin(side, "U")       # something happened on this side outside any event of this side
            self.cur[2].append(text)

        # ---- application actions ----
        def act(self, side, a):
            t = self.t[side]
            k = a[0]
            if k == "later":
                self.timers.append(reactor.callLater(a[1] / 1000.0, self.run_actions, side, a[2]))
                return
            if k == "echo":
                a = ["w", self.curdata]
                k = "w"
            if k == "w":
                data = pattern(SALT[side], self.woff[side], a[1])
                self.woff[side] += a[1]
                self.app(side, "w%d" % a[1], lambda: t.write(data))
            elif k == "ws":
                datas = []
                for n in a[1]:
                    datas.append(pattern(SALT[side], self.woff[side], n))
                    self.woff[side] += n
                self.app(side, "q" + "+".join(str(n) for n in a[1]), lambda: t.writeSequence(datas))
            elif k == "lose":
                self.app(side, "l", t.loseConnection)
            elif k == "losew":
                self.app(side, "h", t.loseWriteConnection)
            elif k == "abort":
                def ab():
                    if not self.nlost[side] and not self.aborted[side]:
                        self.abort_pending[side] = True
                    self.aborted[side] = True
                    t.abortConnection()
                self.app(side, "x", ab)
            elif k == "pause":
                self.app(side, "p", t.pauseProducing)
            elif k == "resume":
                self.app(side, "u", t.resumeProducing)
            else:
                raise AssertionError(a)

        def app(self, side, head, fn):
            self.begin(side, head)
            prev = self.in_app[side]
            self.in_app[side] = True
            try:
                fn()
            finally:
                self.in_app[side] = prev
                self.sample(side)

        def run_actions(self, side, actions):
            if self.done:
                return
            for a in actions:
                self.act(side, a)

        def fire(self, side, trig):
            for r in self.case[side]["rules"]:
                if r[0] == trig:
                    self.run_actions(side, r[1])

        # ---- instrumentation of one transport ----
        def instrument(self, side, t):
            sc = self
            self.t[side] = t
            case = self.case
            real = t.socket
            if case.get("sndbuf"):
                real.setsockopt(_socket.SOL_SOCKET, _socket.SO_SNDBUF, case["sndbuf"])
            if case.get("rcvbuf"):
                real.setsockopt(_socket.SOL_SOCKET, _socket.SO_RCVBUF, case["rcvbuf"])
            if case.get("sl"):
                t.SEND_LIMIT = case["sl"]
            if case.get("bs"):
                t.bufferSize = case["bs"]

            class Sock:
                linger = False

                def __getattr__(self, name):
                    return getattr(real, name)

                def recv(self, n):
                    try:
                        data = real.recv(n)
                    except OSError as e:
                        sc.begin(side, "r-" if e.args[0] in (errno.EWOULDBLOCK, errno.EAGAIN) else "r!")
                        raise
                    sc.begin(side, "r%d" % len(data))
                    return data

                def send(self, data):
                    b = bytes(data)
                    try:
                        k = real.send(data)
                    except OSError as e:
                        if e.args[0] == errno.EINTR:
                            raise
                        if e.args[0] in (errno.EWOULDBLOCK, errno.EAGAIN, errno.ENOBUFS):
                            sc.begin(side, "s0")
                            sc.emit(side, "k%d.%d:0" % (len(b), ck(b)))
                        else:
                            sc.begin(side, "s!")
                            sc.emit(side, "k%d.%d:!" % (len(b), ck(b)))
                        raise
                    sc.begin(side, "s%d" % k)
                    sc.emit(side, "k%d.%d:%d" % (len(b), ck(b), k))
                    return k

                def shutdown(self, how):
                    if how == 1:
                        sc.emit(side, "h")
                    return real.shutdown(how)

                def setsockopt(self, level, opt, val):
                    if level == _socket.SOL_SOCKET and opt == _socket.SO_LINGER:
                        self.linger = True
                    return real.setsockopt(level, opt, val)

                def close(self):
                    sc.emit(side, "z" if self.linger else "c")
                    return real.close()

            t.socket = Sock()
            o_read, o_write, o_lost, o_rlost = t.doRead, t.doWrite, t.connectionLost, t.readConnectionLost

            def dispatch(orig):
                def w():
                    prev = sc.in_disp[side]
                    sc.in_disp[side] = True
                    try:
                        why = orig()
                    except BaseException:
                        sc.pending[side] = True
                        raise
                    finally:
                        sc.in_disp[side] = prev
                        sc.sample(side)
                    sc.pending[side] = bool(why)
                    return why
                return w

            def lost_like(orig):
                def w(reason):
                    if sc.pending[side]:
                        sc.pending[side] = False
                    elif sc.in_app[side] or sc.in_disp[side]:
                        pass
                    elif reason.check(error.ConnectionAborted) and sc.abort_pending[side]:
                        sc.begin(side, "T")
                    else:
                        sc.begin(side, "H")
                    if reason.check(error.ConnectionAborted):
                        sc.abort_pending[side] = False
                    prev = sc.in_disp[side]
                    sc.in_disp[side] = True
                    try:
                        return orig(reason)
                    finally:
                        sc.in_disp[side] = prev
                        sc.sample(side)
                return w

            t.doRead, t.doWrite = dispatch(o_read), dispatch(o_write)
            t.connectionLost, t.readConnectionLost = lost_like(o_lost), lost_like(o_rlost)

        # ---- life cycle ----
        def start(self, finish_cb):
            self.finish_cb = finish_cb
            sc = self

            def make(side):
                half = sc.case[side]["half"]

                class P(protocol.Protocol):
                    def connectionMade(self):
                        sc.made[side] = True
                        sc.instrument(side, self.transport)
                        for r in sc.case[side]["rules"]:
                            if isinstance(r[0], list) and r[0][0] == "at":
                                sc.timers.append(reactor.callLater(r[0][1] / 1000.0, sc.run_actions, side, r[1]))
                        sc.fire(side, "conn")

                    def dataReceived(self, data):
                        other = "B" if side == "A" else "A"
                        sc.emit(side, "d%d.%d" % (len(data), ck(data)))
                        off = sc.rlen[side]
                        if sc.mism[side] is None and data != pattern(SALT[other], off, len(data)):
                            exp = pattern(SALT[other], off, len(data))
                            sc.mism[side] = off + next(i for i in range(len(data)) if data[i] != exp[i])
                        before = sc.rlen[side]
                        sc.rlen[side] += len(data)
                        sc.rck[side] = ck(data, sc.rck[side])
                        sc.curdata = len(data)
                        for r in sc.case[side]["rules"]:
                            if r[0] == "data":
                                sc.run_actions(side, r[1])
                            elif isinstance(r[0], list) and r[0][0] == "recv" and before < r[0][1] <= sc.rlen[side]:
                                sc.run_actions(side, r[1])

                    def connectionLost(self, reason):
                        code = ("D" if reason.check(error.ConnectionDone) else
                                "A" if reason.check(error.ConnectionAborted) else
                                "L" if reason.check(error.ConnectionLost) else
                                "X" + reason.type.__name__)
                        sc.emit(side, "L" + code)
                        sc.nlost[side] += 1
                        try:
                            sc.fire(side, "lost")
                        finally:
                            sc.check_end()

                    def readConnectionLost(self):
                        sc.emit(side, "R")
                        sc.fire(side, "rlost")

                    def writeConnectionLost(self):
                        sc.emit(side, "W")
                        sc.fire(side, "wlost")

                if half:
                    P = implementer(interfaces.IHalfCloseableProtocol)(P)
                return P

            PA, PB = make("A"), make("B")
            sf = protocol.ServerFactory()
            sf.protocol = PB
            sf.noisy = False
            self.port = reactor.listenTCP(0, sf, interface="127.0.0.1")
            if self.case.get("sndbuf"):
                self.port.socket.setsockopt(_socket.SOL_SOCKET, _socket.SO_SNDBUF, self.case["sndbuf"])
            if self.case.get("rcvbuf"):
                self.port.socket.setsockopt(_socket.SOL_SOCKET, _socket.SO_RCVBUF, self.case["rcvbuf"])
            cf = protocol.ClientFactory()
            cf.protocol = PA
            cf.noisy = False
            cf.clientConnectionFailed = lambda conn, reason: sc.end("FAILED-CONNECT")
            reactor.connectTCP("127.0.0.1", self.port.getHost().port, cf)
            self.timers.append(reactor.callLater(self.case.get("limit") or limit, self.end, "HANG"))

        def check_end(self):
            if self.made["A"] and self.made["B"] and self.nlost["A"] and self.nlost["B"] and not self.done:
                self.timers.append(reactor.callLater(grace, self.end, None))
            elif self.nlost["A"] and not self.made["B"] and not self.done:
                # the accepted side may never be created (connection reset before accept): give it a moment
                self.timers.append(reactor.callLater(grace * 5, self.end, None))

        def end(self, verdict):
            if self.done:
                return
            self.done = True
            self.close_token()
            for tm in self.timers:
                if tm.active():
                    tm.cancel()
            if verdict in (None, "HANG"):
                obs = " ".join(self.tokens)
                obs += " #%d.%d;%d.%d" % (self.rlen["A"], self.rck["A"], self.rlen["B"], self.rck["B"])
                obs += " ##" + ";".join(
                    "%s:made=%d,lost=%d,mism=%s" % (s, self.made[s], self.nlost[s],
                                                    "-" if self.mism[s] is None else self.mism[s]) for s in "AB")
                obs += ";E:" + ("+".join(errors[:3]) or "-")
                if verdict == "HANG":       # not finished within the limit: report what happened so far
                    obs += ";T:timeout"
                    for s in "AB":
                        t = self.t.get(s)
                        if t is not None and not self.nlost[s]:
                            try:
                                t.abortConnection()
                            except Exception:
                                pass
            else:
                obs = verdict
                for s in "AB":
                    t = self.t.get(s)
                    if t is not None and not t.disconnected:
                        try:
                            t.abortConnection()
                        except Exception:
                            pass
            d = self.port.stopListening()
            out.write(json.dumps({"i": self.idx, "obs": obs}) + "\n")
            out.flush()
            cb = self.finish_cb
            if d is not None:
                d.addBoth(lambda _: reactor.callLater(0.005 if verdict is None else 0.1, cb))
            else:
                reactor.callLater(0.005, cb)

    it = iter(list(enumerate(cases)))

    def next_case():
        try:
            i, c = next(it)
        except StopIteration:
            reactor.stop()
            return
        try:
            Scenario(i, c).start(next_case)
        except Exception as e:       # a broken case must not stop the batch
            out.write(json.dumps({"i": i, "obs": "CRASH:" + type(e).__name__ + ":" + str(e)[:150]}) + "\n")
            out.flush()
            reactor.callLater(0, next_case)

    reactor.callWhenRunning(next_case)
    reactor.run()



# --------------------------------------------------------------------------------------------------------
# the checking process: batches of cases per reactor subprocess, trace -> Coq, oracle, generator

if __name__ != "__main__":
    from harness.common import NPROC, SRC, VERIF, Failure, Spec, stable_hash

REACTORS = ("select", "poll", "epoll", "asyncio")
CASE_LIMIT = float(os.environ.get("C15_CASE_LIMIT", "8"))
DEFAULT_SL, DEFAULT_BS = 128 * 1024, 65536
MODEL_MAX_BYTES = int(os.environ.get("C15_MODEL_MAX_BYTES", str(96 * 1024)))
MODEL_MAX_EVENTS = 1500

_OBS: dict = {}          # stable_hash(case) -> observation of the most recent real run


def _run_batch(reactor_name, cases, limit=CASE_LIMIT):
    """one fresh subprocess with this reactor; returns the list of observations (same order)."""
    env = dict(os.environ, PYTHONPATH=SRC + os.pathsep + VERIF)
    req = json.dumps({"reactor": reactor_name, "cases": cases, "limit": limit})
    res = ["CRASH:NoResult:the reactor subprocess produced no result for this case"] * len(cases)
    try:
        r = subprocess.run([sys.executable, os.path.abspath(__file__)], input=req, env=env, text=True,
                           capture_output=True, timeout=sum(c.get("limit") or limit for c in cases) + 30)
        stdout, stderr = r.stdout, r.stderr
    except subprocess.TimeoutExpired as e:
        stdout = e.stdout.decode() if isinstance(e.stdout, bytes) else (e.stdout or "")
        stderr = "batch timeout"
    for line in stdout.splitlines():
        try:
            d = json.loads(line)
            res[d["i"]] = d["obs"]
        except (ValueError, KeyError, IndexError):
            pass
    err = (stderr or "").strip().splitlines()
    if err:
        last = err[-1][:150].replace('"', "'")
        res = [o if not o.startswith("CRASH:NoResult") else "CRASH:Subprocess:" + last for o in res]
    return res


def prefetch(cases, chunk=12):
    """run all cases now (grouped by reactor, `chunk` cases per fresh subprocess, NPROC subprocesses at a time)"""
    from concurrent.futures import ThreadPoolExecutor

    todo = [c for c in cases if stable_hash(c) not in _OBS]
    jobs = []
    for rk in REACTORS:
        group = [c for c in todo if c["reactor"] == rk]
        for i in range(0, len(group), chunk):
            jobs.append((rk, group[i:i + chunk]))
    with ThreadPoolExecutor(max_workers=max(1, min(NPROC, 8))) as ex:
        for (rk, group), obs in zip(jobs, ex.map(lambda j: _run_batch(*j), jobs)):
            for c, o in zip(group, obs):
                _OBS[stable_hash(c)] = o


def impl(case) -> str:
    h = stable_hash(case)
    if h not in _OBS:
        _OBS[h] = _run_batch(case["reactor"], [case])[0]
    obs = _OBS[h]
    if obs.startswith("CRASH:"):
        _, cls, msg = obs.split(":", 2)
        raise type(cls, (Exception,), {})(msg)
    return obs


# ---- trace -> Coq ----


def _tokens(obs):
    body = obs.split(" ##")[0]
    toks = body.rpartition(" #")[0]
    return toks.split(" ") if toks else []


def _parse(tok):
    """token -> (side, head, outs, flags)"""
    head, _, rest = tok.partition(">")
    outs, _, flags = rest.partition("|")
    return head[0], head[1:], ([] if outs == "-" else outs.split(",")), flags


def to_coq(case):
    obs = _OBS.get(stable_hash(case))
    if obs is None or " #" not in obs:
        return None
    toks = _tokens(obs)
    if len(toks) > MODEL_MAX_EVENTS:
        return None
    off = {"A": 0, "B": 0}
    evs = []
    for tok in toks:
        s, head, _, _ = _parse(tok)
        S = "SA" if s == "A" else "SB"
        k = head[0]
        if k == "w":
            n = int(head[1:])
            evs.append(f"App {S} (AWrite (pat {SALT[s]} {off[s]} {n}))")
            off[s] += n
        elif k == "q":
            parts = [int(x) for x in head[1:].split("+")] if len(head) > 1 else []
            ds = []
            for n in parts:
                ds.append(f"pat {SALT[s]} {off[s]} {n}")
                off[s] += n
            evs.append(f"App {S} (AWriteSeq [" + "; ".join(ds) + "])")
        elif k in "lhxpu" and len(head) == 1:
            evs.append(f"App {S} " + {"l": "ALose", "h": "ALoseW", "x": "AAbort", "p": "APause", "u": "AResume"}[k])
        elif k == "r":
            a = head[1:]
            evs.append(f"Rd {S} " + ("REof" if a == "0" else "RAgain" if a == "-" else "RErr" if a == "!"
                                      else f"(RData {int(a)})"))
        elif k == "s":
            a = head[1:]
            evs.append(f"Wr {S} " + ("SErr" if a == "!" else f"(SOk {int(a)})"))
        elif head == "H":
            evs.append(f"Hup {S}")
        elif head == "T":
            evs.append(f"Tick {S}")
        else:
            return None          # unsolicited callback: nothing the model could replay; the oracle reports it
    if off["A"] + off["B"] > MODEL_MAX_BYTES:
        return None
    sl = case.get("sl") or DEFAULT_SL
    bs = case.get("bs") or DEFAULT_BS
    half = lambda s: "true" if case[s]["half"] else "false"
    return (f"(({sl}, {bs}, {half('A')}, {half('B')}, ([" + "; ".join(evs) + "] : list event))%N)")


def model_equal(case, impl_obs, model_obs):
    return impl_obs.split(" ##")[0] == model_obs


# ---- the property, stated on the observation of the real run (no model involved) ----

_REASON = {"D": "ConnectionDone", "L": "ConnectionLost", "A": "ConnectionAborted"}


def oracle(case, obs):
    if obs == "FAILED-CONNECT":
        return Failure(case, "the loopback connection could not be established", "connect-failed")
    if " ##" not in obs:
        return Failure(case, "malformed observation " + obs[:80], "log")
    exp = case["expect"]
    direct = dict(x.split(":", 1) for x in obs.split(" ##")[1].split(";"))
    info = {s: dict(kv.split("=") for kv in direct[s].split(",")) for s in "AB"}
    rk = case["reactor"]
    if direct.get("E", "-") != "-":
        return Failure(case, f"{rk}: twisted logged an unhandled exception while the connection ran: {direct['E']}",
                       "logged-error")
    for s in "AB":
        if info[s]["mism"] != "-":
            return Failure(case, f"{rk}: bytes delivered to {s} differ from the bytes its peer wrote, first at stream "
                           f"offset {info[s]['mism']}", "bytes-corrupt")
    lost = {"A": None, "B": None}
    nlost = {"A": 0, "B": 0}
    wopen = {"A": True, "B": True}      # writes issued now count as written
    W = {"A": 0, "B": 0}
    issued = {"A": 0, "B": 0}
    got = {"A": 0, "B": 0}
    eof_at = {"A": None, "B": None}
    for i, tok in enumerate(_tokens(obs)):
        s, head, outs, _ = _parse(tok)
        o = "B" if s == "A" else "A"
        if head == "U":
            return Failure(case, f"{rk}: token {i}: side {s} was called back outside any event of its own ({outs})",
                           "unsolicited-callback")
        if head[0] in "wq":
            n = sum(int(x) for x in head[1:].split("+")) if len(head) > 1 else 0
            issued[s] += n
            if wopen[s]:
                W[s] += n
        elif head == "x" and lost[s] is None:
            wopen[s] = False
        elif head == "r0":
            eof_at[s] = got[s]
        for x in outs:
            if lost[s] is not None and x[0] in "dRWL":
                what = {"d": "dataReceived", "R": "readConnectionLost", "W": "writeConnectionLost",
                        "L": "connectionLost"}[x[0]]
                return Failure(case, f"{rk}: token {i}: {what} on side {s} after its connectionLost",
                               "connectionLost-twice" if x[0] == "L" else
                               "data-after-connectionLost" if x[0] == "d" else "callback-after-connectionLost")
            if x == "R" and head not in ("r0", "H"):
                return Failure(case, f"{rk}: token {i}: readConnectionLost on side {s} although no EOF was read "
                               f"(event {head}): a {'read error' if head == 'r!' else 'write-side close'} was reported "
                               "as a half-close, connectionLost not called",
                               "halfclose-reported-for-" + ("read-error" if head == "r!" else "other-event"))
            if x[0] == "d":
                got[s] += int(x[1:].split(".")[0])
            elif x in ("h", "W"):
                wopen[s] = False
            elif x[0] == "L":
                lost[s] = x[1:]
                nlost[s] += 1
                wopen[s] = False
    if direct.get("T"):
        never = [s for s in "AB" if info[s]["made"] == "1" and nlost[s] == 0]
        return Failure(case, f"{rk}: the connection did not finish within the per-case limit; connectionLost never "
                       f"called on side(s) {never or '-'}", "connectionLost-never" if never else "never-finished")
    for s in "AB":
        o = "B" if s == "A" else "A"
        if info[s]["made"] == "0":
            if exp.get("maybe_unmade") == s:
                continue
            return Failure(case, f"{rk}: side {s} was never connected", "never-connected")
        if int(info[s]["lost"]) != nlost[s]:
            return Failure(case, "malformed observation (connectionLost count)", "log")
        if nlost[s] == 0:
            return Failure(case, f"{rk}: connectionLost never called on side {s}", "connectionLost-never")
        if lost[s] not in exp[s]:
            return Failure(case, f"{rk}: side {s} lost with {_REASON.get(lost[s], lost[s])}, expected one of "
                           f"{[_REASON[x] for x in exp[s]]}", "reason-" + s + "-" + lost[s][:1])
        if got[s] > W[o] and got[s] > issued[o]:
            return Failure(case, f"{rk}: side {s} received {got[s]} bytes, its peer wrote {issued[o]}", "bytes-extra")
        if exp[o + s] == "exact" and got[s] != W[o]:
            return Failure(case, f"{rk}: side {s} received {got[s]} of the {W[o]} bytes its peer wrote before closing",
                           "bytes-missing")
        if exp[o + s] == "exact" and eof_at[s] is not None and eof_at[s] != W[o]:
            return Failure(case, f"{rk}: side {s} saw EOF after {eof_at[s]} of {W[o]} bytes", "eof-early")
    return None



# ---- generator ----

_LOST_NOISE = [["w", 5], ["lose"], ["abort"], ["pause"], ["resume"], ["ws", [1, 2]], ["losew"]]


def _pieces(rng, total, sl, bs):
    """write / writeSequence actions adding up to `total` bytes, sizes placed at the limits"""
    acts, left = [], total
    while left > 0:
        c = rng.choice([1, 2, sl - 1, sl, sl + 1, bs - 1, bs, bs + 1, 2 * sl + 1, left, left // 2 + 1,
                        rng.randrange(1, left + 1), 4096, 65536])
        c = max(1, min(left, c))
        if rng.random() < 0.25:
            parts, rem = [], c
            for _ in range(rng.randrange(0, 3)):
                x = rng.randrange(0, rem + 1)
                parts.append(x)
                rem -= x
            parts.append(rem)
            acts.append(["ws", parts])
        else:
            acts.append(["w", c])
        left -= c
        if rng.random() < 0.08:
            acts.append(rng.choice([["w", 0], ["ws", []], ["ws", [0, 0]]]))
    return acts


def _chain(rng, acts, final, bursts=True):
    """spread actions over 1-4 timer bursts; `final` actions come after the last write"""
    if not bursts or len(acts) < 2 or rng.random() < 0.4:
        return acts + final
    cut = rng.randrange(1, len(acts))
    return acts[:cut] + [["later", rng.choice([0, 1, 2, 5, 10]), _chain(rng, acts[cut:], final)]]


def _one(rng, kind, big):
    sl = rng.choice([0, 0, 1000, 3000, 4096, 257, 64] if not big else [0, 0, 0, 16384, 65536])
    bs = rng.choice([0, 0, 1500, 512, 4096, 100] if not big else [0, 0, 8192, 65536])
    esl, ebs = sl or DEFAULT_SL, bs or DEFAULT_BS
    sndbuf = rng.choice([0, 2304, 4096, 8192, 32768] if not big else [0, 16384, 65536])
    rcvbuf = rng.choice([0, 2304, 4096, 16384] if not big else [0, 16384, 65536])
    # keep the number of kernel calls bounded: total bytes <= ~250 sends / recvs
    cap = min(esl, ebs) * 250
    if big:
        total = min(cap, rng.choice([200000, 1 << 20, 3 << 20, 4 << 20, rng.randrange(100000, 4 << 20)]))
    else:
        total = min(cap, rng.choice([0, 1, 2, 100, 1000, 5000, 20000, 40000, rng.randrange(1, 40000),
                                     esl, esl + 1, ebs, ebs + 1, sndbuf or 3000, 2 * (rcvbuf or 3000)]))
    hx, hy = rng.random() < 0.4, rng.random() < 0.4
    X = {"half": hx, "rules": []}
    Y = {"half": hy, "rules": []}
    ex = {"X": ["D"], "Y": ["D"], "XY": "exact", "YX": "exact"}
    W = lambda n: _pieces(rng, n, esl, ebs)
    if kind == "simple":
        X["rules"].append(["conn", _chain(rng, W(total), [["lose"]])])
        if hy:
            Y["rules"].append(["rlost", [["lose"]]])
    elif kind == "reply":
        Y["half"] = hy = rng.random() < 0.8
        again = rng.random()
        X["rules"].append(["conn", _chain(rng, W(total), [["losew"]] + ([["later", rng.choice([1, 5, 20]), [["losew"]]]]
                                                                     if again < 0.3 else []))])
        if hx:
            X["rules"].append(["rlost", [["lose"]]])
            if 0.3 <= again < 0.6:
                X["rules"].append(["wlost", [["losew"]]])       # a second half-close once the first is complete
            late = rng.random()
            # write() / writeSequence() after the write side has been shut down: dropped silently, nothing else happens
            after = rng.sample([["ws", [5, 7]], ["w", 3], ["ws", [1]], ["w", 100], ["ws", [0, 200, 1]]], rng.randrange(1, 4))
            if late < 0.35:
                X["rules"].append(["wlost", after])
            elif late < 0.55:
                X["rules"].append(["wlost", [["later", rng.choice([0, 2, 10]), after]]])
            elif late < 0.7:
                X["rules"].append([["recv", 1], after])         # when the first reply bytes arrive
        if hy:
            reply = _chain(rng, W(min(max(total, 1), rng.choice([1, 50, 3000, 30000, 30000]))), [["lose"]])
            Y["rules"].append(["rlost", reply if rng.random() < 0.5 else [["later", rng.choice([5, 25]), reply]]])
    elif kind == "echo":
        total = max(1, min(total, 20000 if not big else total))
        X["rules"].append(["conn", _chain(rng, W(total), [])])
        X["rules"].append([["recv", total], [["lose"]]])
        Y["rules"].append(["data", [["echo"]]])
        if hy:
            Y["rules"].append(["rlost", [["lose"]]])
    elif kind == "pause":
        X["rules"].append(["conn", _chain(rng, W(total), [["lose"]])])
        pz = [["pause"], ["later", rng.choice([1, 5, 15, 30]), [["resume"]]]]
        Y["rules"].append(["conn", pz] if rng.random() < 0.5 or total < 2 else [["recv", rng.randrange(1, total + 1)], pz])
        if hy:
            Y["rules"].append(["rlost", [["lose"]]])
    elif kind == "both":
        n1, n2 = max(1, total), max(1, min(total, rng.choice([1, 10, 3000, 30000, total])))
        X["rules"] += [["conn", W(n1)], [["recv", n2], [["lose"]]]]
        Y["rules"] += [["conn", W(n2)], [["recv", n1], [["lose"]]]]
        if hx:
            X["rules"].append(["rlost", [["lose"]]])
        if hy:
            Y["rules"].append(["rlost", [["lose"]]])
    elif kind == "write-after-lose":
        a = W(total)
        cut = rng.randrange(0, len(a) + 1)
        X["rules"].append(["conn", a[:cut] + [["lose"]] + a[cut:] + ([["lose"]] if rng.random() < 0.3 else [])])
        if hy:
            Y["rules"].append(["rlost", [["lose"]]])
    elif kind == "abort":
        a = W(max(total, 1))
        cut = rng.randrange(0, len(a) + 1)
        how = rng.random()
        if how < 0.4:       # abort in the same callback as the writes (some writes after it)
            X["rules"].append(["conn", a[:cut] + [["abort"]] + a[cut:]])
        elif how < 0.7:     # abort from a timer
            X["rules"].append(["conn", a])
            X["rules"].append([["at", rng.choice([0, 1, 3, 8])], [["abort"]] + ([["lose"]] if rng.random() < 0.3 else [])])
        else:               # loseConnection, then abort
            X["rules"].append(["conn", a + [["lose"], ["abort"]]])
        Y["half"] = hy = rng.random() < 0.6        # a reset must reach a half-closeable receiver as connectionLost
        if hy and rng.random() < 0.5:
            Y["rules"].append(["rlost", [["lose"]]])
        ex = {"X": ["A"], "Y": ["L"], "XY": "prefix", "YX": "exact", "unmade": "Y"}
    elif kind == "peer-abort":
        total = max(total, 2)
        X["rules"].append(["conn", _chain(rng, W(total), [["lose"]])])
        Y["rules"].append([["recv", rng.randrange(1, total + 1)], [["abort"]]])
        ex = {"X": ["D", "L"], "Y": ["A"], "XY": "prefix", "YX": "exact"}
    elif kind == "early-close":
        total = max(total, 2)
        X["rules"].append(["conn", _chain(rng, W(total), [["lose"]])])
        Y["rules"].append([["recv", rng.randrange(1, total + 1)], [["lose"]]])
        if hx:
            X["rules"].append(["rlost", [["lose"]]])
        ex = {"X": ["D", "L"], "Y": ["D"], "XY": "prefix", "YX": "exact"}
    elif kind == "late-abort":
        X["rules"].append(["conn", W(total) + [["lose"]]])
        X["rules"].append([["at", rng.choice([0, 1, 2, 5])], [["abort"]]])
        if hy:
            Y["rules"].append(["rlost", [["lose"]]])
        ex = {"X": ["D", "A"], "Y": ["D", "L"], "XY": "prefix", "YX": "exact", "unmade": "Y"}
    elif kind == "halfclose-then-close":
        # write, loseWriteConnection and loseConnection in every order while the data is still buffered (same
        # turn, or loseConnection a few turns later): whatever was accepted must arrive before the clean EOF
        total = max(total, 1)
        a = W(total)
        order = rng.choice(["w h l", "w l h", "h w l", "h l w", "l h w", "l w h", "w h w l", "w h l w"])
        acts, later_lose = [], rng.random() < 0.35
        half_w = len(a) // 2
        nw = order.split().count("w")
        seen_w = 0
        for tok in order.split():
            if tok == "w":
                seen_w += 1
                acts += a if nw == 1 else (a[:half_w] if seen_w == 1 else a[half_w:])
            elif tok == "h":
                acts.append(["losew"])
            else:
                acts.append(["later", rng.choice([0, 1, 3]), [["lose"]]] if later_lose and tok == order.split()[-1]
                            else ["lose"])
        X["rules"].append(["conn", acts])
        if hx:
            X["rules"].append(["rlost", [["lose"]]])
        if hy:
            Y["rules"].append(["rlost", [["lose"]]])
    elif kind == "reply-on-input":
        # X is not reading; a request arrives; in ONE turn X queues a small reply and resumes reading, so one poll
        # event carries IN and OUT; the request handler (dataReceived) calls loseConnection and the doWrite of the
        # same event flushes the reply and finishes the close
        X["half"] = hx = rng.random() < 0.75
        nreq = rng.choice([1, 10, 100, 1000])
        nrep = rng.choice([1, 50, 500, min(esl, 2000)])
        X["rules"] += [["conn", [["pause"]]],
                       [["at", rng.choice([15, 30])], W(nrep) + [["resume"]]],
                       [["recv", nreq], [["lose"]]]]           # everything read: the close sends FIN, not RST
        Y["rules"].append(["conn", W(nreq)])
        if hx:
            X["rules"].append(["rlost", [["lose"]]])
        if hy:
            Y["rules"].append(["rlost", [["lose"]]])
        ex = {"X": ["D"], "Y": ["D"], "XY": "exact", "YX": "exact"}
    elif kind == "dead-peer":
        # the peer goes away early while X is not reading; later X acts on the dead connection
        t0 = rng.choice([0, 5, 10])
        yact = rng.choice(["abort", "lose"])
        Y["rules"].append([["at", t0], [[yact]]])
        xacts = rng.choice([[["abort"], ["w", 10]], [["w", 10], ["lose"]], [["lose"], ["w", 5], ["abort"]],
                            [["w", max(total, 1)], ["abort"]], [["resume"]], [["losew"], ["w", 3]]])
        X["rules"].append(["conn", [["pause"]]])
        X["rules"].append([["at", t0 + rng.choice([15, 30])], xacts + [["later", 30, [["lose"]]]]])
        if hx:
            X["rules"].append(["rlost", [["lose"]]])
        ex = {"X": ["D", "L", "A"], "Y": ["A" if yact == "abort" else "D"], "XY": "prefix", "YX": "exact",
              "unmade": "X" if yact == "abort" else None}
    else:
        raise AssertionError(kind)
    for side in (X, Y):
        if rng.random() < 0.3:
            side["rules"].append(["lost", rng.sample(_LOST_NOISE, rng.randrange(1, 4))])
    swap = rng.random() < 0.5           # which of the two is the connecting side: both close directions
    A, B = (Y, X) if swap else (X, Y)
    m = {"X": "B", "Y": "A"} if swap else {"X": "A", "Y": "B"}
    expect = {m["X"]: ex["X"], m["Y"]: ex["Y"], m["X"] + m["Y"]: ex["XY"], m["Y"] + m["X"]: ex["YX"]}
    if ex.get("unmade") and m[ex["unmade"]] == "B":
        expect["maybe_unmade"] = "B"
    return {"reactor": None, "kind": kind + ("-big" if big else ""), "limit": 30 if big else 0, "sndbuf": sndbuf, "rcvbuf": rcvbuf, "sl": sl, "bs": bs,
            "A": A, "B": B, "expect": expect}


KINDS = ["simple", "simple", "reply", "reply", "echo", "pause", "both", "write-after-lose", "abort", "abort",
         "peer-abort", "early-close", "late-abort", "dead-peer", "halfclose-then-close", "halfclose-then-close", "reply-on-input"]


def _gen_cases(rng, per_reactor, nbig):
    cases = []
    for rk in REACTORS:
        for i in range(per_reactor):
            c = _one(rng, KINDS[i % len(KINDS)] if i < 2 * len(KINDS) else rng.choice(KINDS), False)
            c["reactor"] = rk
            cases.append(c)
        for i in range(nbig):
            c = _one(rng, rng.choice(["simple", "reply", "echo", "pause", "abort", "both", "halfclose-then-close"]), True)
            c["reactor"] = rk
            cases.append(c)
    return cases


def corpus():
    E = {"A": ["D"], "B": ["D"], "AB": "exact", "BA": "exact"}
    base = [
        # nothing written, immediate close
        {"kind": "corpus-empty", "sndbuf": 0, "rcvbuf": 0, "sl": 0, "bs": 0,
         "A": {"half": False, "rules": [["conn", [["lose"]]]]}, "B": {"half": False, "rules": []}, "expect": E},
        # partial writes through tiny buffers, writeSequence with empty chunks, close right after the writes
        {"kind": "corpus-partial", "sndbuf": 4096, "rcvbuf": 2304, "sl": 3000, "bs": 1500,
         "A": {"half": False, "rules": [["conn", [["w", 10], ["ws", [5, 0, 7]], ["w", 20000], ["lose"]]]]},
         "B": {"half": False, "rules": []}, "expect": E},
        # half-close request / response, both protocols half-closeable
        {"kind": "corpus-halfclose", "sndbuf": 0, "rcvbuf": 0, "sl": 0, "bs": 0,
         "A": {"half": True, "rules": [["conn", [["w", 100], ["losew"]]], ["rlost", [["lose"]]]]},
         "B": {"half": True, "rules": [["rlost", [["w", 50], ["lose"]]]]}, "expect": E},
        # abort with data buffered; calls on the dead transport from connectionLost
        {"kind": "corpus-abort", "sndbuf": 4096, "rcvbuf": 2304, "sl": 3000, "bs": 1500,
         "A": {"half": False, "rules": [["conn", [["w", 50000]]], [["at", 5], [["abort"]]],
                                        ["lost", [["w", 5], ["lose"], ["abort"]]]]},
         "B": {"half": False, "rules": [["lost", [["w", 1], ["lose"]]]]},
         "expect": {"A": ["A"], "B": ["L"], "AB": "prefix", "BA": "exact", "maybe_unmade": "B"}},
        # the accepted side writes and closes; writes after loseConnection are still delivered
        {"kind": "corpus-server-writes", "sndbuf": 2304, "rcvbuf": 2304, "sl": 257, "bs": 100,
         "A": {"half": True, "rules": [["rlost", [["lose"]]]]},
         "B": {"half": False, "rules": [["conn", [["w", 300], ["lose"], ["w", 900], ["ws", [1, 2, 3]]]]]},
         "expect": E},
    ]
    base += [
        # the writer has stopped reading (loseConnection with a long flush ahead) when the reader aborts: poll / epoll
        # report the reset as a hang-up without POLLIN (the POLL_DISCONNECTED branch of _doReadOrWrite), select /
        # asyncio as a failing send
        {"kind": "corpus-hup", "sndbuf": 2304, "rcvbuf": 2304, "sl": 1000, "bs": 512,
         "A": {"half": False, "rules": [["conn", [["w", 60000], ["lose"]]]]},
         "B": {"half": False, "rules": [[["recv", 1], [["abort"]]]]},
         "expect": {"A": ["L"], "B": ["A"], "AB": "prefix", "BA": "exact"}},
        # half-close answered by a non-half-closeable protocol: EOF is a full close for it
        {"kind": "corpus-halfclose-plain-peer", "sndbuf": 0, "rcvbuf": 0, "sl": 0, "bs": 0,
         "A": {"half": True, "rules": [["conn", [["w", 3000], ["losew"]]], ["rlost", [["lose"]]]]},
         "B": {"half": False, "rules": []}, "expect": E},
        # both sides write 30 kB at once through tiny buffers, each closes when it has everything
        {"kind": "corpus-both", "sndbuf": 2304, "rcvbuf": 2304, "sl": 3000, "bs": 1500,
         "A": {"half": False, "rules": [["conn", [["w", 30000]]], [["recv", 30000], [["lose"]]]]},
         "B": {"half": True, "rules": [["conn", [["ws", [10000, 0, 20000]]]], [["recv", 30000], [["lose"]]],
                                       ["rlost", [["lose"]]]]}, "expect": E},
    ]
    base += [
        # abortConnection, then a write re-registers the writer of a socket the peer has already reset: poll / epoll
        # report the hang-up (connectionLost) before abortConnection's delayed call runs, which must then do nothing
        {"kind": "corpus-abort-then-hup", "sndbuf": 0, "rcvbuf": 0, "sl": 0, "bs": 0,
         "A": {"half": False, "rules": [["conn", [["pause"]]], [["at", 25], [["abort"], ["w", 10]]]]},
         "B": {"half": False, "rules": [["conn", [["abort"]]]]},
         "expect": {"A": ["L", "A"], "B": ["A"], "AB": "prefix", "BA": "exact"}},
        # the same on the accepted side (tcp.Server has no guard of its own in front of Connection.connectionLost)
        {"kind": "corpus-abort-then-hup-server", "sndbuf": 0, "rcvbuf": 0, "sl": 0, "bs": 0,
         "A": {"half": False, "rules": [[["at", 10], [["abort"]]]]},
         "B": {"half": False, "rules": [["conn", [["pause"]]], [["at", 40], [["abort"], ["w", 10]]]]},
         "expect": {"A": ["A"], "B": ["L", "A"], "AB": "exact", "BA": "prefix", "maybe_unmade": "B"}},
    ]
    base += [
        # loseWriteConnection again after the half-close completed (used to re-register the writer: send on a socket
        # shut down for writing -> EPIPE -> ConnectionLost, the reply is never read), and on the dead transport
        {"kind": "corpus-losew-twice", "sndbuf": 0, "rcvbuf": 0, "sl": 0, "bs": 0,
         "A": {"half": True, "rules": [["conn", [["w", 100], ["losew"]]], ["wlost", [["losew"]]],
                                       ["rlost", [["lose"]]], ["lost", [["losew"]]]]},
         "B": {"half": True, "rules": [["rlost", [["later", 20, [["w", 50], ["lose"]]]]]]}, "expect": E},
        {"kind": "corpus-losew-after-lost", "sndbuf": 0, "rcvbuf": 0, "sl": 0, "bs": 0,
         "A": {"half": False, "rules": [["lost", [["losew"]]]]},
         "B": {"half": True, "rules": [["conn", [["w", 100], ["lose"]]], ["lost", [["losew"], ["w", 1]]]]},
         "expect": E},
    ]
    base += [
        # write -> loseWriteConnection -> loseConnection in one turn, data still buffered: the half-close is only
        # REQUESTED, so loseConnection must wait for the flush (not close at once and drop the buffer)
        {"kind": "corpus-halfclose-then-close", "sndbuf": 2304, "rcvbuf": 2304, "sl": 1000, "bs": 512,
         "A": {"half": False, "rules": [["conn", [["w", 5000], ["ws", [100, 0, 7]], ["losew"], ["lose"]]]]},
         "B": {"half": True, "rules": [["rlost", [["lose"]]]]}, "expect": E},
        {"kind": "corpus-halfclose-then-close-later", "sndbuf": 0, "rcvbuf": 0, "sl": 0, "bs": 0,
         "A": {"half": False, "rules": []},
         "B": {"half": True, "rules": [["conn", [["losew"], ["w", 300000], ["later", 1, [["lose"]]]]],
                                       ["rlost", [["lose"]]]]}, "expect": E},
    ]
    base += [
        # reply queued + input arrives + dataReceived calls loseConnection: on poll / epoll one event carries IN and
        # OUT, doRead returns nothing and doWrite returns CONNECTION_DONE -- a write-side result, so connectionLost
        # (not readConnectionLost) must follow although the protocol is half-closeable
        {"kind": "corpus-reply-on-input", "sndbuf": 0, "rcvbuf": 0, "sl": 0, "bs": 0,
         "A": {"half": True, "rules": [["conn", [["w", 10]]], ["rlost", [["lose"]]]]},
         "B": {"half": True, "rules": [["conn", [["pause"]]], [["at", 25], [["w", 50], ["resume"]]],
                                       [["recv", 1], [["lose"]]], ["rlost", [["lose"]]]]},
         "expect": {"A": ["D"], "B": ["D"], "AB": "prefix", "BA": "exact"}},
        # the peer aborts while a half-closeable protocol is reading: a reset is connectionLost(ConnectionLost),
        # never readConnectionLost
        {"kind": "corpus-abort-halfcloseable-reader", "sndbuf": 0, "rcvbuf": 0, "sl": 0, "bs": 0,
         "A": {"half": False, "rules": [["conn", [["w", 3000]]], [["at", 20], [["abort"]]]]},
         "B": {"half": True, "rules": []},
         "expect": {"A": ["A"], "B": ["L"], "AB": "prefix", "BA": "exact"}},
    ]
    base += [
        # writeSequence() and write() after the half-close COMPLETED (from writeConnectionLost and when the reply
        # starts arriving): both are dropped silently (C14: write and write_seq share the _writeDisconnected guard);
        # the peer's large reply still arrives completely and both sides end with ConnectionDone
        {"kind": "corpus-write-after-halfclose", "sndbuf": 0, "rcvbuf": 0, "sl": 0, "bs": 0, "limit": 20,
         "A": {"half": True, "rules": [["conn", [["w", 100], ["losew"]]], ["wlost", [["ws", [5, 7]], ["w", 3]]],
                                       [["recv", 1], [["ws", [9]], ["w", 1]]], ["rlost", [["lose"]]]]},
         "B": {"half": True, "rules": [["rlost", [["w", 300000], ["later", 2, [["w", 100000], ["lose"]]]]]]},
         "expect": E},
        {"kind": "corpus-writeseq-after-halfclose-server", "sndbuf": 4096, "rcvbuf": 2304, "sl": 3000, "bs": 1500,
         "A": {"half": True, "rules": [["rlost", [["w", 20000], ["lose"]]]]},
         "B": {"half": True, "rules": [["conn", [["ws", [10, 20]], ["losew"]]],
                                       ["wlost", [["later", 1, [["ws", [4, 4]]]]]], ["rlost", [["lose"]]]]},
         "expect": E},
    ]
    out = []
    for rk in REACTORS:
        for c in base:
            out.append(dict(c, reactor=rk))
    return out


def gen(rng, tier):
    if tier == "quick":
        cases = _gen_cases(rng, int(os.environ.get("C15_QUICK_N", "17")), 1)
    else:
        cases = _gen_cases(rng, int(os.environ.get("C15_THOROUGH_N", "500")), 12)
    prefetch(corpus() + cases, chunk=12 if tier == "quick" else 30)
    return cases


def search(rng):
    cases = _gen_cases(rng, 40, 2)
    prefetch(cases, chunk=15)
    return cases


def shrink(case):
    """smaller scenarios: drop a rule, drop an action, halve a write"""
    for s in "AB":
        rules = case[s]["rules"]
        for i in range(len(rules)):
            if rules[i][0] != "conn" or len(rules) > 1:
                yield {**case, s: {**case[s], "rules": rules[:i] + rules[i + 1:]}}
        for i, (trig, acts) in enumerate(rules):
            for j, a in enumerate(acts):
                if a[0] in ("w",) and a[1] > 1:
                    na = acts[:j] + [["w", a[1] // 2]] + acts[j + 1:]
                    yield {**case, s: {**case[s], "rules": rules[:i] + [[trig, na]] + rules[i + 1:]}}
                elif a[0] in ("w", "ws", "pause", "resume") and len(acts) > 1:
                    na = acts[:j] + acts[j + 1:]
                    yield {**case, s: {**case[s], "rules": rules[:i] + [[trig, na]] + rules[i + 1:]}}


def _hist(c, o):
    return f"{c['reactor']}/{c.get('kind', '?')}"


def _describe(c):
    return {k: c[k] for k in ("reactor", "kind", "sndbuf", "rcvbuf", "sl", "bs", "A", "B") if k in c}


if __name__ != "__main__":
    SPEC = Spec(
        pid="C15",
        gen=gen, impl=impl, oracle=oracle, corpus=corpus, search=search,
        coq_header="From TwLib Require Import TcpShow.\nFrom C14 Require Import Model.\nFrom C15 Require Import Model Run.",
        coq_fn="run_show",
        to_coq=to_coq,
        model_equal=model_equal,
        shard=int(os.environ.get("C15_SHARD", "36")),
        nontrivial=lambda c, o: ">d" in o and ("LD" in o or "LL" in o or "LA" in o),
        histogram=_hist,
        describe=_describe,
        case_timeout=3600.0,
        rule="real loopback TCP connections (127.0.0.1) on the select, poll, epoll and asyncio reactors, one fresh "
             "subprocess per reactor and batch; scripted protocols in 11 scenario families (write+close, half-close "
             "request/response, echo, paused reader, both sides writing, writes after loseConnection, abort with "
             "buffered data, abort by the reader, early close by the reader, late abort) with write sizes at "
             "SEND_LIMIT / bufferSize / socket-buffer boundaries, writeSequence with empty chunks, timer bursts, "
             "SO_SNDBUF/SO_RCVBUF down to the kernel minimum, either side connecting; the recorded kernel / reactor "
             "choices are replayed into the Coq model, which must print the same line (every send argument and "
             "result, every callback with length+Adler-32 of its bytes, every socket shutdown/close, reactor "
             "registration after every event) and accept every recorded choice as enabled; non-trivial = data "
             "delivered and a connectionLost observed",
        trusted=["hand-written model coq/C15/Model.v on top of coq/C14/Model.v (tied by this trace validation only)",
                 "the kernel socket-pair oracle and the reactor dispatch hypotheses (Model.enabled): checked against "
                 "every recorded trace, not proved",
                 "harness instrumentation: socket proxy + instance-level wrappers of doRead/doWrite/connectionLost/"
                 "readConnectionLost (dispatch boundaries)"],
        assumptions=["send accepts a prefix of what is offered; recv returns a non-empty prefix of what is queued, "
                     "b'' only after the peer's FIN with nothing queued, an error only after a reset",
                     "the reactor dispatches doRead / doWrite only on descriptors registered for it"],
    )


if __name__ == "__main__":
    _runner_main()
    sys.exit(0)
