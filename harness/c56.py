"""C56 — flattened and JSON-round-tripped log events format like the original (H-tie, coq/C56).

Case = a format string given as items (literal, field name, conversion, spec) plus deterministic values.
Real code: ``formatWithCall`` on the event, ``flatFormat`` after ``flattenEvent``, and ``flatFormat`` after
``eventFromJSON(eventAsJSON(event))``.  The renderings the model needs (str / repr / format of each field's
value) are computed with CPython here, independently of twisted (own field-path resolver); ``string.Formatter``
parsing is the CPython oracle that turns the real format string back into the same item list.
"""
from __future__ import annotations

import json
import string

from harness.common import Failure, Spec, coq_list, coq_option

# ------------------------------------------------------------------------------------------------
# deterministic value universe


class Obj:
    """object with deterministic str/repr, attributes, items and a pure method"""

    def __init__(self, tag, attrs):
        self._tag = tag
        self.__dict__.update(attrs)

    def __str__(self):
        return f"<{self._tag}>"

    def __repr__(self):
        return f"Obj({self._tag!r})"

    def m(self):
        return "called-" + self._tag

    def __getitem__(self, k):
        return f"{self._tag}[{k}]"


class Fn:
    """callable object with deterministic str/repr (an uncalled function prints its address)"""

    def __init__(self, tag, ret):
        self._tag, self._ret = tag, ret

    def __call__(self):
        return self._ret

    def __str__(self):
        return f"<fn {self._tag}>"

    def __repr__(self):
        return f"Fn({self._tag!r})"


import enum


class State(str, enum.Enum):          # str subclass whose str() is not its raw characters ('State.UP' vs 'up')
    UP = "up"
    DOWN = "down"


class Masked(str):
    def __str__(self):
        return "*" * len(self)


class Level(enum.IntEnum):
    LOW = 1
    HIGH = 9

    def __str__(self):
        return "level-" + self.name.lower()


class Celsius(float):
    def __str__(self):
        return "%.1fC" % float(self)


class Count(int):
    def __str__(self):
        return "#%d" % int(self)

    __repr__ = int.__repr__


SUBCLS = {"State.UP": State.UP, "State.DOWN": State.DOWN, "Level.HIGH": Level.HIGH}
_REF = [False]        # True while the CPython-only reference renderings are computed


class Raiser:
    """value whose str() raises (repr is fine): flattening an event that uses it fails part-way"""

    def __str__(self):
        raise ValueError("unprintable")

    def __repr__(self):
        return "Raiser()"


class Nested:
    """value whose str()/repr() re-enters the logger: it flattens and formats ANOTHER event"""

    def __init__(self, inner):
        self._inner = inner

    def _text(self):
        if _REF[0]:
            return expected(self._inner)          # reference: no twisted code involved
        from twisted.logger import formatEvent
        from twisted.logger._flatten import flattenEvent
        e = dict({k: build(v) for k, v in self._inner["values"].items()}, log_format=fmt_string(self._inner["items"]))
        flattenEvent(e)
        return formatEvent(e)

    def __str__(self):
        return self._text()

    def __repr__(self):
        return "Nested<" + self._text() + ">"


def build(v):
    t = v["t"]
    if t == "sub":
        return SUBCLS[v["v"]]
    if t == "masked":
        return Masked(v["v"])
    if t == "celsius":
        return Celsius(v["v"])
    if t == "count":
        return Count(v["v"])
    if t == "raiser":
        return Raiser()
    if t == "nested":
        return Nested(v["inner"])
    if t == "callobj":
        return Fn(v["tag"], build(v["ret"]))
    if t == "bool":
        return v["v"]
    if t == "bytes":
        return bytes.fromhex(v["v"])
    if t == "tuple":
        return tuple(build(x) for x in v["v"])
    if t == "idict":          # dict with non-string keys, as [key, value] pairs
        return {k: build(x) for k, x in v["v"]}
    if t in ("int", "str"):
        return v["v"]
    if t == "float":
        return float(v["v"])
    if t == "none":
        return None
    if t == "list":
        return [build(x) for x in v["v"]]
    if t == "dict":
        return {k: build(x) for k, x in v["v"].items()}
    if t == "obj":
        return Obj(v["tag"], {k: build(x) for k, x in v.get("attrs", {}).items()})
    if t == "fn":
        r = build(v["ret"])
        return lambda: r
    raise ValueError(t)


def fmt_string(items) -> str:
    out = []
    for it in items:
        out.append(it["lit"].replace("{", "{{").replace("}", "}}"))
        if it.get("name") is not None:
            f = it["name"]
            if it["conv"]:
                f += "!" + it["conv"]
            if it["spec"] is not None and (it["spec"] != "" or it.get("colon")):
                f += ":" + it["spec"]
            out.append("{" + f + "}")
    return "".join(out)


def resolve(name: str, event: dict):
    """own resolver for field names: key, then .attr / [index] steps, each optionally followed by ()"""
    import re
    toks = re.findall(r"\.[^.\[\]]+|\[[^\]]*\]|^[^.\[\]]+", name)
    if "".join(toks) != name or not toks:
        raise ValueError("unparsable field name " + name)

    def call(tok, getter):
        if tok.endswith("()"):
            return getter(tok[:-2])()
        return getter(tok)
    cur = call(toks[0], lambda k: event[k])
    for t in toks[1:]:
        if t.startswith("."):
            cur = call(t[1:], lambda k, c=cur: getattr(c, k))
        else:
            k = t[1:-1]
            cur = cur[int(k)] if k.isdigit() else cur[k]
    return cur


def renderings(case):
    """per field: (full | None, str, repr) computed with CPython only"""
    was = _REF[0]
    _REF[0] = True
    try:
        return _renderings(case)
    finally:
        _REF[0] = was


def _renderings(case):
    event = {k: build(v) for k, v in case["values"].items()}
    out = []
    for it in case["items"]:
        if it.get("name") is None:
            out.append(None)
            continue
        try:
            v = resolve(it["name"], event)
        except Exception:
            out.append("unresolvable")
            continue
        spec = it["spec"] or ""
        try:
            if "{" in spec:
                spec = spec.format(**event)
            conv = it["conv"]
            cv = {"": v, "s": str(v), "r": repr(v), "a": ascii(v)}[conv or ""]
            full = format(cv, spec)
        except Exception:
            full = None
        try:
            out.append((full, str(v), repr(v)))
        except Exception:
            out.append("unresolvable")
    return out


def expected(case):
    """reference text computed with CPython only (independent resolver): None if some field does not render"""
    out = []
    for it, r in zip(case["items"], renderings(case)):
        out.append(it["lit"])
        if r is None:
            continue
        if r == "unresolvable" or r[0] is None:
            return None
        out.append(r[0])
    return "".join(out)


def impl(case) -> str:
    """a case is one event, or a HISTORY: events handled one after the other in this process, some of which fail
    part-way through flattening / flat-formatting; only the well-formed steps are observed"""
    if case.get("kind") != "history":
        return impl_step(case)
    from twisted.logger import _flatten, eventAsJSON
    out = []
    for st in case["steps"]:
        if st.get("bad"):
            e = dict({k: build(v) for k, v in st["values"].items()}, log_format=fmt_string(st["items"]))
            try:
                if st["bad"] == "flatformat":
                    e["log_flattened"] = {}
                    _flatten.flatFormat(e)
                elif st["bad"] == "json":
                    eventAsJSON(e)
                else:
                    _flatten.flattenEvent(e)
            except Exception:
                pass
        else:
            out.append(impl_step(st))
    return ";".join(out)


def impl_step(case) -> str:
    from twisted.logger import _format, _flatten, eventAsJSON, eventFromJSON
    fmt = fmt_string(case["items"])
    mk = lambda: dict({k: build(v) for k, v in case["values"].items()}, log_format=fmt)

    def hx(fn):
        try:
            r = fn()
        except Exception:
            return "!"
        return "=" + r.encode("utf-8").hex()
    orig = hx(lambda: _format.formatWithCall(fmt, mk()))

    def flat():
        e = mk()
        _flatten.flattenEvent(e)
        return _flatten.flatFormat(e) if "log_flattened" in e else _format.formatWithCall(fmt, e)

    def viajson():
        e = eventFromJSON(eventAsJSON(mk()))
        return _flatten.flatFormat(e) if "log_flattened" in e else _format.formatWithCall(e["log_format"], e)
    # the format string must parse back into the items (string.Formatter is the CPython oracle for parsing)
    parsed = [(l, n, s, c) for l, n, s, c in string.Formatter().parse(fmt)]
    want = []
    for it in case["items"]:
        if it.get("name") is None:
            if it["lit"]:
                want.append((it["lit"], None, None, None))
        else:
            want.append((it["lit"], it["name"], it["spec"] if (it["spec"] or it.get("colon")) else "", it["conv"] or None))
    tag = "" if _merge(parsed) == _merge(want) else "PARSE-MISMATCH"
    return tag + orig + "|" + hx(flat) + "|" + hx(viajson)


def _merge(parsed):
    """string.Formatter splits literals at doubled braces: merge adjacent literal-only items"""
    out = []
    lit = ""
    for l, n, s, c in parsed:
        lit += l
        if n is not None:
            out.append((lit, n, s or "", c))
            lit = ""
    if lit:
        out.append((lit, None, None, None))
    return out


def which_of(flat, orig):
    return "flattened" if flat != orig else "JSON-round-tripped"


def good_steps(case):
    return [st for st in case["steps"] if not st.get("bad")] if case.get("kind") == "history" else [case]


def oracle(case, obs):
    """history independence: every well-formed event formats like its original whatever was handled before it"""
    if case.get("kind") != "history":
        return oracle_step(case, obs)
    steps = good_steps(case)
    parts = obs.split(";") if steps else []
    if len(parts) != len(steps):
        return Failure(case, "malformed observation", "harness-history")
    for k, (st, o) in enumerate(zip(steps, parts)):
        f = oracle_step(st, o)
        if f is not None:
            tag = "history:" + f.tag if f.tag in ("flat-differs", "json-differs", "original-format-differs") else f.tag
            return Failure(case, f"well-formed event #{k} of the history ({fmt_string(st['items'])!r}), handled after "
                                 f"{[fmt_string(x['items']) + (' [fails]' if x.get('bad') else '') for x in case['steps']]}: "
                                 + f.reason, tag)
    return None


def oracle_step(case, obs):
    if obs.startswith("PARSE-MISMATCH"):
        return Failure(case, "generator produced a format string that string.Formatter parses differently", "harness-parse")
    orig, flat, js = obs.split("|")
    exp = expected(case)
    if exp is None:
        # some field does not resolve / format under CPython's own rules: the event is outside the property
        # (whatever the original formatting does, there is no text to preserve)
        if orig == "!":
            return None
    else:
        want = "=" + exp.encode("utf-8").hex()
        if orig != want:
            return Failure(case, "formatting the ORIGINAL event does not give the text str.format semantics give "
                                 f"(got {orig[:60]}, expected {want[:60]}): field resolution / rendering on the original "
                                 "event's own formatting path is wrong", "original-format-differs")
    if flat == orig and js == orig:
        return None
    mid = [it for it in case["items"] if it.get("name") is not None and "()" in it["name"][:-2]]
    if mid and flat == "!":
        return Failure(case, f"{which_of(flat, orig)} event does not format: field {mid[0]['name']!r} has call "
                             f"parentheses before its last segment; flattenEvent only understands a trailing '()' "
                             f"and raises KeyError", "flatten-call-before-last-segment")
    specs = [it for it in case["items"] if it.get("name") is not None and it["spec"]]
    asc = [it for it in case["items"] if it.get("name") is not None and it["conv"] == "a"]
    which = "flattened" if flat != orig else "JSON-round-tripped"
    if asc:
        return Failure(case, f"{which} event formats differently: a field uses the !a conversion, which flattenEvent "
                             f"stores under the !s key and flatFormat looks up under !a", "flatten-ascii-conversion-keyerror")
    if specs:
        return Failure(case, f"{which} event formats differently: format spec {specs[0]['spec']!r} is ignored by "
                             f"flatFormat (it stores str(value))", "flatten-ignores-format-spec")
    return Failure(case, f"{which} event formats differently: orig={orig[:80]} flat={flat[:80]} json={js[:80]}",
                   "flat-differs" if flat != orig else "json-differs")


# ------------------------------------------------------------------------------------------------

_IDS: dict = {}


def _id(s: str) -> int:
    return _IDS.setdefault(s, len(_IDS) + 1)


def ctext(s: str) -> str:
    b = s.encode("utf-8")
    return "(@nil N)" if not b else "[" + ";".join(map(str, b)) + "]%N"


def to_coq(case):
    terms = [to_coq_step(st) for st in good_steps(case)]
    if any(t is None for t in terms):
        return None
    return coq_list(terms, "(list item)")


def to_coq_step(case):
    rs = renderings(case)
    if any(r == "unresolvable" for r in rs):
        return None
    if any(it.get("name") is not None and "()" in it["name"][:-2] for it in case["items"]):
        return None        # call before the last segment: flattenEvent raises (known finding), not modelled
    items = []
    for it, r in zip(case["items"], rs):
        if r is None:
            items.append(f"(Item {ctext(it['lit'])} None)")
            continue
        full, s, rp = r
        conv = {"": "CNone", "s": "CS", "r": "CR", "a": "CA"}[it["conv"] or ""]
        spec = 0 if not it["spec"] else _id("spec:" + it["spec"])
        f = f"(Field {_id('name:' + it['name'])}%N {spec}%N {conv} {coq_option(ctext(full) if full is not None else None, 'text')} {ctext(s)} {ctext(rp)})"
        items.append(f"(Item {ctext(it['lit'])} (Some {f}))")
    return coq_list(items, "item")


def model_equal(case, impl_obs, model_out):
    a, b = impl_obs.split(";"), model_out.split(";")
    return len(a) == len(b) and all(model_equal_step(x, y) for x, y in zip(a, b))


def model_equal_step(impl_obs, model_out):
    # model prints orig|flat ; the JSON text must equal the flattened one
    parts = impl_obs.split("|")
    return len(parts) == 3 and parts[0] + "|" + parts[1] == model_out and parts[2] == parts[1]


def _o(tag, **attrs):
    return {"t": "obj", "tag": tag, "attrs": attrs}


VALUES = {
    "x": {"t": "int", "v": 5}, "y": {"t": "str", "v": "sé"}, "z": {"t": "float", "v": "3.14159"},
    "w": {"t": "int", "v": 6}, "n": {"t": "none"},
    "l": {"t": "list", "v": [{"t": "int", "v": 1}, {"t": "str", "v": "two"}, {"t": "list", "v": []}]},
    "d": {"t": "dict", "v": {"k": {"t": "str", "v": "v"}, "n": {"t": "int", "v": -3}}},
    "o": _o("o", a={"t": "list", "v": [{"t": "int", "v": 10}, {"t": "int", "v": 20}]},
            d={"t": "dict", "v": {"k": {"t": "str", "v": "deep"}}}, p=_o("inner"),
            kids={"t": "list", "v": [_o("kid0"), _o("kid1", p=_o("grandkid"))]},
            reg={"t": "dict", "v": {"k": _o("regk"), "n": _o("regn")}}),
    "f": {"t": "fn", "ret": {"t": "int", "v": 7}},
    "g": {"t": "fn", "ret": _o("made", a={"t": "str", "v": "A"})},
    # callables with a deterministic text of their own: usable both called and uncalled
    "c": {"t": "callobj", "tag": "c", "ret": {"t": "int", "v": 41}},
    "total": {"t": "callobj", "tag": "total", "ret": {"t": "str", "v": "sum"}},
    # bytes (valid UTF-8, ASCII and not) at top level, in containers, as attribute, returned by a call
    "line": {"t": "bytes", "v": b"NICK alice".hex()}, "cafe": {"t": "bytes", "v": "café".encode().hex()},
    "hd": {"t": "dict", "v": {"host": {"t": "bytes", "v": b"example.org".hex()}}},
    "chunks": {"t": "list", "v": [{"t": "bytes", "v": b"ab\n".hex()}, {"t": "bytes", "v": "é".encode().hex()}]},
    "frame": _o("frame", payload={"t": "bytes", "v": b"PING :x".hex()}),
    "rd": {"t": "fn", "ret": {"t": "bytes", "v": b"read data".hex()}},
    # plain JSON-native data with the two things JSON cannot keep: tuples and non-string keys
    "flag": {"t": "bool", "v": True},
    "addr": {"t": "tuple", "v": [{"t": "str", "v": "192.0.2.1"}, {"t": "int", "v": 4321}]},
    "routes": {"t": "list", "v": [{"t": "tuple", "v": [{"t": "str", "v": "a"}, {"t": "int", "v": 1}]},
                                  {"t": "tuple", "v": []}]},
    "info": {"t": "dict", "v": {"version": {"t": "tuple", "v": [{"t": "int", "v": 24}, {"t": "int", "v": 3}]},
                                "name": {"t": "str", "v": "tw"}}},
    "counts": {"t": "idict", "v": [[200, {"t": "int", "v": 17}], [404, {"t": "int", "v": 2}]]},
    "nest": {"t": "dict", "v": {"by": {"t": "idict", "v": [[1, {"t": "str", "v": "one"}]]}}},
    # str / int / float subclasses whose str() is not their raw payload
    "st": {"t": "sub", "v": "State.UP"}, "mask": {"t": "masked", "v": "secret"}, "lvl": {"t": "sub", "v": "Level.HIGH"},
    "temp": {"t": "celsius", "v": "21.5"}, "cnt": {"t": "count", "v": 3},
    "link": _o("link", state={"t": "sub", "v": "State.DOWN"}, pw={"t": "masked", "v": "pw"}),
    "sts": {"t": "list", "v": [{"t": "sub", "v": "State.UP"}, {"t": "masked", "v": "abc"}, {"t": "count", "v": 7}]},
    "stf": {"t": "fn", "ret": {"t": "sub", "v": "State.DOWN"}},
    "smap": {"t": "dict", "v": {"k": {"t": "masked", "v": "zz"}, "n": {"t": "sub", "v": "Level.HIGH"}}},
    # containers of objects with methods
    "ps": {"t": "list", "v": [_o("p0"), _o("p1", p=_o("p1inner"))]},
    "pd": {"t": "dict", "v": {"k": _o("pk"), "db": _o("pdb", kids={"t": "list", "v": [_o("pdbkid")]})}},
}
NAMES = ["x", "y", "z", "n", "l", "l[1]", "l[0]", "d", "d[k]", "d[n]", "o", "o.a", "o.a[1]", "o.d[k]", "o.p", "o.m()",
         "o[3]", "o.p.m()", "f()", "g()", "g().a", "x.real", "y.upper()",
         "c", "c()", "total", "total()", "o.m", "o.p.m",
         "ps[0].m()", "ps[1].p.m()", "ps[1].m", "pd[k].m()", "pd[db].m()", "pd[db].kids[0].m()", "o.kids[1].m()",
         "o.kids[1].p.m()", "o.reg[k].m()", "o.reg[n].m", "ps[0]", "pd[db]", "o.kids[0]",
         "st", "mask", "lvl", "temp", "cnt", "link.state", "link.pw", "sts[0]", "sts[1]", "sts[2]", "sts", "stf()",
         "smap[k]", "smap[n]", "smap",
         "line", "cafe", "hd[host]", "hd", "chunks[0]", "chunks[1]", "chunks", "frame.payload", "rd()",
         "flag", "addr", "addr[1]", "addr[0]", "routes", "routes[0]", "routes[0][1]", "info[version]", "info",
         "info[version][0]", "counts", "counts[404]", "counts[200]", "nest[by]", "nest[by][1]", "nest"]
# fields over JSON-native data only (str/int/float/bool/None/list/tuple/dict): an event made of these alone
PLAIN = ["x", "y", "z", "n", "w", "l", "l[1]", "l[0]", "d", "d[k]", "d[n]", "flag", "addr", "addr[1]", "addr[0]", "routes",
         "routes[0]", "routes[0][1]", "info[version]", "info", "info[version][0]", "counts", "counts[404]", "counts[200]",
         "nest[by]", "nest[by][1]", "nest"]
# field names that make sense both called and uncalled (deterministic either way)
CALLABLE = ["c", "total", "o.m", "o.p.m", "ps[1].m", "ps[0].m", "pd[k].m", "pd[db].m", "o.kids[1].m", "o.reg[n].m",
            "pd[db].kids[0].m"]
SPECS = ["", "", "", "", ">6", "<4", "^9", "8", "05d", ".2f", "{w}", ">{w}", "s", "10.3", "é<5"]
LITS = ["", "", "a", " text ", "{", "}", "{}", "é中", ":", "!", "/2", "\n"]


def _roots(items):
    import re
    out = set()
    for it in items:
        if it.get("name") is not None:
            out.add(re.match(r"[^.\[\]()]+", it["name"]).group(0))
            for m in re.findall(r"\{([^.\[\]()}!:]+)", it.get("spec") or ""):
                out.add(m)
    return out


def rand_case(rng, faithful_only=False):
    items = []
    both = rng.choice(CALLABLE) if rng.random() < 0.35 else None    # one field used called AND uncalled
    plain = rng.random() < 0.3                                      # event of JSON-native values only
    if plain:
        both = None
    for _ in range(rng.randrange(1, 7)):
        it = {"lit": rng.choice(LITS)}
        if rng.random() < 0.85:
            k = rng.random()
            if both is not None and k < 0.55:
                it["name"] = both + rng.choice(["", "()"])
            elif k < 0.85 or not items:
                it["name"] = rng.choice(PLAIN if plain else NAMES)
            else:
                prev = next((i["name"] for i in items if i.get("name")), "x")      # repeat an earlier field ...
                it["name"] = prev
                if rng.random() < 0.4:            # ... or its called / uncalled twin
                    base = prev[:-2] if prev.endswith("()") else prev
                    if base in CALLABLE:
                        it["name"] = base if prev.endswith("()") else base + "()"
            it["conv"] = rng.choice(["", "", "s", "r", "r"] if faithful_only else ["", "", "s", "r", "r", "a"])
            it["spec"] = "" if faithful_only else rng.choice(SPECS)
            if it["spec"] == "" and rng.random() < 0.1:
                it["colon"] = True
        else:
            it["name"] = None
        items.append(it)
    # the event carries only the values its fields use (an event of plain data stays JSON-native)
    vals = {k: v for k, v in VALUES.items() if k in _roots(items)}
    if rng.random() < 0.3 and "x" in vals:
        vals["x"] = rng.choice([{"t": "int", "v": rng.randrange(-10 ** 6, 10 ** 12)}, {"t": "str", "v": "x\"q'"},
                                {"t": "float", "v": "1e300"}, {"t": "list", "v": []}])
    return {"items": items, "values": vals}


SHARED = ["x", "y", "o", "d[k]", "l[1]", "st", "addr", "o.p"]


def rand_history(rng):
    """events handled one after the other; some fail part-way (after the KeyFlattener has counted some fields),
    the well-formed ones share field names and conversions with them"""
    shared = [{"lit": rng.choice(["", " ", "u="]), "name": rng.choice(SHARED), "conv": rng.choice(["", "s", "r"]), "spec": ""}
              for _ in range(rng.randrange(1, 3))]

    def bad():
        kind = rng.choice(["flatten", "flatten", "json", "flatformat"])
        items = [dict(i) for i in shared]
        if kind != "flatformat":
            items.append({"lit": " requested ", "name": rng.choice(["resource.path", "o.nosuch", "boom", "l[9]", "d[zz]"]),
                          "conv": rng.choice(["", "s"]), "spec": ""})
        vals = {k: v for k, v in VALUES.items() if k in _roots(items)}
        if "boom" in _roots(items):
            vals["boom"] = {"t": "raiser"}
        return {"bad": kind, "items": items, "values": vals}

    def good():
        items = [dict(i) for i in shared if rng.random() < 0.8] or [dict(shared[0])]
        if rng.random() < 0.5:
            items.append(dict(rng.choice(shared), lit=" again "))
        if rng.random() < 0.4:
            items.append({"lit": " logged in ", "name": rng.choice(PLAIN), "conv": "", "spec": ""})
        return {"items": items, "values": {k: v for k, v in VALUES.items() if k in _roots(items)}}
    steps = []
    for _ in range(rng.randrange(1, 4)):
        steps.append(bad() if rng.random() < 0.6 else good())
    steps.append(good())
    return {"kind": "history", "steps": steps}


def rand_nested(rng):
    """a value whose str()/repr() flattens and formats another event, referenced between repeated fields"""
    f = lambda name, conv="", lit=" ": {"lit": lit, "name": name, "conv": conv, "spec": ""}
    a = rng.choice(["x", "y", "st", "o"])
    inner_items = [f(a, rng.choice(["", "r"]), "inner "), f(rng.choice(["x", "d[k]", a]), "", "/")]
    if rng.random() < 0.5:
        inner_items.append(f(a, "", "/"))
    inner = {"items": inner_items, "values": {k: v for k, v in VALUES.items() if k in _roots(inner_items)}}
    shape = rng.randrange(3)
    if shape == 0:
        items = [f("cause", rng.choice(["", "r"]), "["), f("cause", "", "] then ["), {"lit": "]", "name": None}]
    elif shape == 1:
        items = [f(a, "", ""), f("cause", rng.choice(["", "s", "r"])), f(a, ""), f(a, "r")]
    else:
        items = [f("cause", ""), f(a, ""), f("cause", "r"), f(a, ""), f("cause", "")]
    vals = {k: v for k, v in VALUES.items() if k in _roots(items)}
    vals["cause"] = {"t": "nested", "inner": inner}
    return {"items": items, "values": vals}


def gen(rng, tier):
    n = 1000 if tier == "quick" else 8000
    out = []
    for _ in range(n):
        k = rng.random()
        if k < 0.12:
            out.append(rand_history(rng))
        elif k < 0.2:
            out.append(rand_nested(rng))
        else:
            out.append(rand_case(rng, faithful_only=rng.random() < 0.6))
    return out


def corpus():
    I = lambda lit, name=None, conv="", spec="": {"lit": lit, "name": name, "conv": conv, "spec": spec}
    return [
        {"items": [I("", "x", "", ">6")], "values": VALUES},
        {"items": [I("", "z", "", ".2f")], "values": VALUES},
        {"items": [I("", "y", "a", "")], "values": VALUES},
        {"items": [I("", "x", "", "{w}")], "values": VALUES},
        {"items": [I("", "g().a")], "values": VALUES},
        # history: a flattenEvent that fails after counting {user}, then a well-formed event using {user}
        {"kind": "history", "steps": [
            {"bad": "flatten", "items": [I("", "y"), I(" requested ", "resource.path")], "values": {"y": VALUES["y"]}},
            {"items": [I("", "y"), I(" logged in")], "values": {"y": VALUES["y"]}}]},
        {"kind": "history", "steps": [
            {"bad": "flatformat", "items": [I("", "x", "r")], "values": {"x": VALUES["x"]}},
            {"bad": "json", "items": [I("", "x", "r"), I(" ", "boom")], "values": {"x": VALUES["x"], "boom": {"t": "raiser"}}},
            {"items": [I("", "x", "r"), I(" ", "x", "r")], "values": {"x": VALUES["x"]}}]},
        # nesting: str() of a value formats another flattened event between two uses of the same field
        {"items": [I("[", "cause"), I("] then [", "cause"), I("]")],
         "values": {"cause": {"t": "nested", "inner": {"items": [I("inner ", "x"), I("/", "x")], "values": {"x": VALUES["x"]}}}}},
        {"items": [I("", "x"), I(" ", "cause"), I(" ", "x")],
         "values": {"x": VALUES["x"],
                    "cause": {"t": "nested", "inner": {"items": [I("inner ", "x")], "values": {"x": VALUES["x"]}}}}},
        # str subclasses whose str() differs from the raw characters, through the JSON round trip
        {"items": [I("link is ", "st"), I(" ", "st", "s"), I(" ", "mask")], "values": {k: VALUES[k] for k in ("st", "mask")}},
        {"items": [I("", "link.state"), I(" ", "sts[1]"), I(" ", "stf()"), I(" ", "lvl"), I(" ", "temp"), I(" ", "cnt")],
         "values": {k: VALUES[k] for k in ("link", "sts", "stf", "lvl", "temp", "cnt")}},
        # bytes (str(bytes) is the b'..' form) and JSON-native events with tuples / non-string keys
        {"items": [I("", "line"), I(" ", "line", "s"), I(" ", "cafe")], "values": {k: VALUES[k] for k in ("line", "cafe")}},
        {"items": [I("", "frame.payload"), I(" ", "hd[host]"), I(" ", "chunks[0]"), I(" ", "rd()")],
         "values": {k: VALUES[k] for k in ("frame", "hd", "chunks", "rd")}},
        {"items": [I("connection from ", "addr")], "values": {"addr": VALUES["addr"]}},
        {"items": [I("", "addr", "r"), I(" port ", "addr[1]")], "values": {"addr": VALUES["addr"]}},
        {"items": [I("routes ", "routes"), I(" v ", "info[version]")], "values": {k: VALUES[k] for k in ("routes", "info")}},
        {"items": [I("responses ", "counts")], "values": {"counts": VALUES["counts"]}},
        {"items": [I("not found: ", "counts[404]"), I(" ", "nest[by][1]")],
         "values": {k: VALUES[k] for k in ("counts", "nest")}},
        {"items": [I("calling ", "total", "r"), I(" gave ", "total()")], "values": VALUES},
        {"items": [I("", "total()"), I(" came out of ", "total")], "values": VALUES},
        {"items": [I("", "o.m"), I(" ", "o.m()", "r"), I(" ", "o.m", "r")], "values": VALUES},
        {"items": [I("", "ps[0].m()")], "values": VALUES},
        {"items": [I("", "pd[db].m()", "r"), I(" ", "o.kids[1].m()")], "values": VALUES},
        {"items": [I("a", "x"), I("b", "x", "r"), I("", "x"), I("c")], "values": VALUES},
        {"items": [I("", "y", "s", "5"), I("", "y", "s", "6")], "values": VALUES},
        {"items": [I("", "x", "", "/2"), I("", "x"), I("", "x")], "values": VALUES},
        {"items": [I("", "o.a[1]"), I(" ", "o.d[k]"), I(" ", "o.m()"), I(" ", "o", "r"), I(" ", "o")], "values": VALUES},
    ]


def shrink(case):
    if case.get("kind") == "history":
        steps = case["steps"]
        for i in range(len(steps) - 1):
            yield dict(case, steps=steps[:i] + steps[i + 1:])
        for i, st in enumerate(steps):
            for j in range(len(st["items"])):
                if len(st["items"]) > 1:
                    yield dict(case, steps=steps[:i] + [dict(st, items=st["items"][:j] + st["items"][j + 1:])] + steps[i + 1:])
        return
    items = case["items"]
    for i in range(len(items)):
        yield dict(case, items=items[:i] + items[i + 1:])
    for i, it in enumerate(items):
        if it.get("lit"):
            yield dict(case, items=items[:i] + [dict(it, lit="")] + items[i + 1:])
        if it.get("name") and it["name"] != "x":
            yield dict(case, items=items[:i] + [dict(it, name="x")] + items[i + 1:],
                       values=dict(case["values"], x=VALUES["x"]))
    for k in list(case["values"]):
        if k not in _roots(items):
            yield dict(case, values={a: b for a, b in case["values"].items() if a != k})


def hist(case, obs):
    if case.get("kind") == "history":
        return "history:" + "".join("b" if st.get("bad") else "g" for st in case["steps"])
    if any(v.get("t") == "nested" for v in case["values"].values()):
        return "nested-reentrant-value"
    f = [it for it in case["items"] if it.get("name") is not None]
    cls = "ascii" if any(it["conv"] == "a" for it in f) else ("spec" if any(it["spec"] for it in f) else "faithful")
    rep = "repeat" if len({(it["name"], it["conv"], it["spec"]) for it in f}) < len(f) else "distinct"
    return f"{cls}:{rep}:{'orig-raises' if obs.startswith('!') else 'ok'}"


SPEC = Spec(
    pid="C56",
    gen=gen,
    impl=impl,
    oracle=oracle,
    coq_header="From C56 Require Import Model Run.\n"
               "Definition run_hist (l : list (list item)) : string := String.concat \";\" (map run_show l).",
    coq_fn="run_hist",
    to_coq=to_coq,
    model_equal=model_equal,
    corpus=corpus,
    shrink=shrink,
    histogram=hist,
    nontrivial=lambda c, o: not o.startswith("!") and any(it.get("name") for st in good_steps(c) for it in st["items"]),
    rule="1-6 items per format string: literals (incl. doubled braces, non-ASCII, ':', '!', '/2'), fields over nested "
         "values (keys, attributes, [int] / [str] indices in any mix before a trailing call, call syntax, calls returning "
         "objects, callable objects and bound methods used BOTH called and uncalled in one format string with "
         "different conversions, containers of objects with methods; bytes values (ASCII and non-ASCII UTF-8) at top "
         "level / attribute / index / returned by a call; tuples at any depth and dicts with int keys, whole and "
         "indexed; 30% of events made of JSON-native values only, each event carrying only the values its fields "
         "use; str/int/float subclasses and str/int Enums whose str() differs from the raw payload; 12% HISTORIES "
         "(events handled one after the other in the process, some failing part-way through flattenEvent / "
         "eventAsJSON / flatFormat after fields were counted, followed by well-formed events sharing those fields) "
         "and 8% values whose str()/repr() re-enter flattenEvent/formatEvent on another event between repeated "
         "fields), conversions none/s/r/a, specs "
         "(alignment, width, precision, type, nested {w}); repeated fields to exercise the occurrence numbering; 60% "
         "of cases restricted to the faithful fragment (empty spec, no !a).  non-trivial = the original formats and "
         "there is at least one field",
    trusted=[
        "hand-written model coq/C56/Model.v; keys are modelled as (name, conversion, spec, occurrence) tuples, not as "
        "the text 'name!c:spec/n' (a textual collision such as spec 'x/2' vs. second occurrence of spec 'x' is "
        "exercised by the generator but cannot be expressed in the model)",
        "CPython str/repr/format/ascii and string.Formatter().parse (the renderings fed to the model are computed "
        "with CPython by an independent field resolver); json round trip of str",
    ],
    assumptions=[
        "values format deterministically and follow format(x, '') == str(x) (no custom __format__)",
        "the event is not already flattened; field names resolve (an event whose original formatting raises is "
        "outside the property)",
    ],
)
