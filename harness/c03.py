"""C03 — a Deferred delivers one result; cancellation follows its protocol.
H-tie: the kernel model coq/Lib/DeferredK.v (theorems in coq/C03) against real Deferreds, on every history
over the property's alphabet up to a bound, plus random longer programs over the whole kernel alphabet."""
from __future__ import annotations

import itertools
import re

from harness import deferredk as K
from harness.common import Failure, Spec

# Deferred 1 is the outer one, Deferred 0 the inner one it may wait on.
LETTERS = {
    "c": ["cb", 1, 1],                                   # outer.callback
    "e": ["eb", 1, 1],                                   # outer.errback
    "x": ["cancel", 1],                                  # outer.cancel
    "a": ["add", 1, ["ret", ["D", 0]], None],            # add a callback returning the (unfired) inner Deferred
    "i": ["cb", 0, 5],                                   # fire the inner Deferred
    "y": ["cancel", 0],                                  # cancel the inner Deferred directly
    "f": ["eb", 0, 2],                                   # fail the inner Deferred
}
PROBE = [["add", 0, ["pass"], ["pass"]], ["add", 1, ["pass"], ["pass"]]]   # first callback shows the accepted result
CANC = [["none"], ["nothing"], ["cb", 7], ["eb", 2], ["raise", 1]]


def history(word, c1, c0, probe=True):
    ops = (list(PROBE) if probe else []) + [LETTERS[ch] for ch in word]
    return {"canc": [c0, c1], "ops": ops, "word": "".join(word), "family": "two"}


# three levels: Deferred 2 (outer) may wait on 1 (middle), which may wait on 0 (pending)
LETTERS3 = {
    "A": ["add", 2, ["ret", ["D", 1]], None],
    "M": ["add", 1, ["ret", ["D", 0]], None],
    "2": ["cb", 2, 1], "1": ["cb", 1, 1], "0": ["cb", 0, 5],
    "x": ["cancel", 2], "z": ["cancel", 1], "y": ["cancel", 0],
}


def history3(word, c0):
    return {"canc": [c0, ["none"], ["none"]], "ops": [LETTERS3[ch] for ch in word], "word": "".join(word), "family": "three"}


def forward_scenario(rng):
    """a chain of 2-5 Deferreds waiting on each other through fired-and-waiting middle ones; cancel at some level;
    then late results and repeated cancels"""
    levels = rng.randrange(2, 6)
    nd = levels + (1 if rng.random() < 0.3 else 0)
    canc = [K.rand_canc(rng) for _ in range(nd)]
    ops = [["add", i + 1, ["ret", ["D", i]], None] if rng.random() < 0.8 else ["add", i + 1, ["ret", ["D", i]], ["ret", ["D", i]]]
           for i in range(levels - 1)]
    fires = [[rng.choice(["cb", "cb", "eb"]) if False else "cb", i, 1] for i in range(1, levels)]
    if rng.random() < 0.5:
        fires.reverse()                 # outer first / inner first: the middle ones end up fired and waiting
    if rng.random() < 0.3:
        rng.shuffle(ops)
    ops += fires
    if rng.random() < 0.3:
        ops.insert(rng.randrange(len(ops) + 1), ["add", rng.randrange(nd), ["pass"], ["pass"]])
    ops.append(["cancel", rng.randrange(levels)] if rng.random() < 0.3 else ["cancel", levels - 1])
    for _ in range(rng.randrange(0, 4)):
        r = rng.random()
        d = rng.randrange(nd)
        ops.append(["cb", d, 3] if r < 0.4 else ["eb", d, 1] if r < 0.55 else ["cancel", d])
    return {"canc": canc, "ops": ops}


def paused_cancel_scenario(rng):
    """cancel() of Deferreds that have fired but are paused by the application, and of targets of chainDeferred:
    a fired Deferred whose current result is not a Deferred cancels nothing, whatever it once waited on or was chained
    to; one whose result IS a Deferred forwards.  Built from: waits (callback returns an unfired / paused Deferred),
    chainDeferred, pauses placed on waiting or fired Deferreds, firings, then cancels of every Deferred."""
    nd = rng.randrange(3, 6)
    canc = [K.rand_canc(rng) for _ in range(nd)]
    ops = []
    order = list(range(nd))
    rng.shuffle(order)
    for _ in range(rng.randrange(2, 5)):
        a, b = rng.sample(order, 2)
        r = rng.random()
        if r < 0.35:
            ops.append(["chain", a, b])
        elif r < 0.8:
            ops.append(["add", a, ["ret", ["D", b]], None if rng.random() < 0.7 else ["ret", ["D", b]]])
        else:
            ops.append(["add", a, rng.choice([["pass"], ["ret", ["I", 4]], ["raise", 1]]), None])
    body = []
    for d in order:
        r = rng.random()
        if r < 0.5:
            body.append(["pause", d])
        if rng.random() < 0.75:
            body.append([rng.choice(["cb", "cb", "eb"]), d, rng.randrange(5)])
    rng.shuffle(body)
    ops += body
    tail = [["cancel", d] for d in order if rng.random() < 0.7]
    for d in order:
        if rng.random() < 0.3:
            tail.append(["unpause", d])
        if rng.random() < 0.25:
            tail.append([rng.choice(["cb", "eb"]), d, 6])
    rng.shuffle(tail)
    return {"canc": canc, "ops": ops + tail}


def gen(rng, tier):
    cases = []
    base = "cexai"
    if tier == "quick":
        configs = [(["none"], ["none"]), (["nothing"], ["none"]), (["cb", 7], ["none"]), (["raise", 1], ["none"]),
                   (["none"], ["cb", 7]), (["eb", 2], ["nothing"]), (["none"], ["raise", 1])]
        depth, keep = 5, 0.06
    else:
        configs = [(a, b) for a in CANC for b in CANC]
        depth, keep = 6, 0.03
    for c1, c0 in configs:
        for n in range(1, depth + 1):
            for word in itertools.product(base, repeat=n):
                if n == depth and keep < 1.0 and rng.random() > keep:
                    continue
                if tier == "quick" and n == depth - 1 and rng.random() > 0.35:
                    continue
                if tier != "quick" and n == depth - 1 and rng.random() > 0.3:
                    continue
                cases.append(history(word, c1, c0))
    # the wider alphabet (direct cancel / failure of the inner Deferred), shorter
    wide = "cexaiyf"
    for c1, c0 in (configs if tier == "quick" else configs[::2]):
        for n in range(1, 4 if tier == "quick" else 5):
            for word in itertools.product(wide, repeat=n):
                if not set(word) & set("yf"):
                    continue
                if tier != "quick" and n == 4 and rng.random() > 0.3:
                    continue
                cases.append(history(word, c1, c0, probe=(rng.random() < 0.8)))
    # three levels: the middle Deferred fired and itself waiting
    for c0 in ([["none"], ["nothing"], ["raise", 1]] if tier == "quick" else CANC):
        for n in range(1, 6 if tier == "quick" else 7):
            for word in itertools.product("AM210xzy", repeat=n):
                if "x" not in word and "z" not in word:
                    continue
                keep3 = {4: 0.04, 5: 0.003} if tier == "quick" else {5: 0.1, 6: 0.005}
                if n in keep3 and rng.random() > keep3[n]:
                    continue
                cases.append(history3(word, c0))
    for _ in range(500 if tier == "quick" else 10000):
        cases.append(forward_scenario(rng))
    # random longer programs (arbitrary callbacks incl. returned Deferreds, 1-4 Deferreds, all cancellers)
    for _ in range(800 if tier == "quick" else 10000):
        nd = rng.randrange(1, 5)
        w = {"add": 3, "cb": 3, "eb": 2, "cancel": 3}   # no pause/unpause: independent of the C01 finding F1
        cases.append(K.rand_program(rng, nd, rng.randrange(3, 16), weights=w))
    # cancel() of fired-but-paused Deferreds and of chainDeferred targets (nothing may be cancelled through a stale
    # waiting / chaining relation)
    for _ in range(500 if tier == "quick" else 12000):
        cases.append(paused_cancel_scenario(rng))
    wp = {"add": 3, "cb": 3, "eb": 2, "cancel": 3, "pause": 1.5, "unpause": 1.2}
    for _ in range(300 if tier == "quick" else 8000):
        cases.append(K.rand_program(rng, rng.randrange(2, 5), rng.randrange(4, 16), weights=wp))
    # callbacks that run kernel operations, incl. cancel() and late results, with all canceller kinds
    for _ in range(350 if tier == "quick" else 8000):
        cases.append(K.rand_script_program(rng, rng.randrange(1, 5), rng.randrange(2, 14), cancellers=True, pauses=True))
    # how a failure is handed to errback must not matter: bare errback() inside an except block, errback(None),
    # errback(Failure) instead of errback(exc)
    cases += K.with_errback_forms(cases, rng, 0.15 if tier == "quick" else 0.10)
    # Deferred debugging switched on / off in the middle of a history must not change anything observable
    cases += K.with_debug_flips(cases, rng, 0.06 if tier == "quick" else 0.04)
    # the exact type of a Deferred must not matter: a sample once more with trivial-subclass instances
    cases += K.with_subclasses(cases, rng, 0.05 if tier == "quick" else 0.03)
    # Deferred debugging (defer.setDebugging(True)) must not change anything observable: a sample once more with it on
    cases += K.with_debug(cases, rng, 0.08 if tier == "quick" else 0.05)
    return cases


def corpus():
    return [
        history("xcc", ["none"], ["none"]),            # cancel, swallowed late result, then AlreadyCalledError
        {**history("xcc", ["none"], ["none"]), "debug": True},      # the same under defer.setDebugging(True)
        {**history("acxii", ["none"], ["none"]), "debug": True},
        history("acxii", ["none"], ["none"]),          # cancel forwarded to the inner Deferred, late inner results
        history("acxx", ["none"], ["raise", 1]),       # forwarded cancel whose canceller raises: may run again
        history("xx", ["cb", 7], ["none"]),            # canceller fires; second cancel is a no-op
        # seeded C03-G (1): d2 paused, d1.chainDeferred(d2), d1 goes on to wait on the unfired P=d0; d2.cancel(): nothing
        {"canc": [["nothing"], ["none"], ["none"]],
         "ops": [["pause", 2], ["chain", 1, 2], ["add", 1, ["ret", ["D", 0]], None], ["cb", 1, 1], ["cancel", 2], ["cb", 0, 3]]},
        # seeded C03-G (2): outer=2 waits on inner=1 and is paused by the application; inner fires, then waits on Q=0;
        # outer.cancel() must do nothing (its result is plain)
        {"canc": [["cb", 7], ["none"], ["none"]],
         "ops": [["add", 2, ["ret", ["D", 1]], None], ["cb", 2, 1], ["pause", 2], ["add", 1, ["pass"], None],
                 ["add", 1, ["ret", ["D", 0]], None], ["cb", 1, 2], ["cancel", 2], ["unpause", 2], ["cancel", 2]]},
        # seeded C03-H: created and fired with debugging off, then on: the late results
        {"canc": [["none"], ["none"]], "family": "two", "word": "",
         "ops": list(PROBE) + [["cb", 1, 1], ["dbg", 999, 1], ["cb", 1, 2], ["eb", 1, 1]]},
        {"canc": [["none"], ["none"]], "family": "two", "word": "",
         "ops": list(PROBE) + [["cancel", 1], ["dbg", 999, 1], ["cb", 1, 2], ["cb", 1, 3], ["dbg", 999, 0], ["eb", 1, 1, "bare"]]},
        # seeded C03-F: after a canceller-less cancel the one late result arrives as an argument-less errback() inside
        # an except block: ignored; the next one raises
        {"canc": [["none"], ["none"]], "family": "two", "word": "",
         "ops": list(PROBE) + [["cancel", 1], ["eb", 1, 1, "bare"], ["eb", 1, 2, "bare"], ["cb", 1, 3]]},
        {"canc": [["none"], ["none"]], "family": "two", "word": "",
         "ops": list(PROBE) + [LETTERS["a"], LETTERS["c"], ["cancel", 1], ["eb", 0, 1, "none"], ["eb", 0, 1, "bare"],
                               ["eb", 0, 2, "failure"]]},
        history("cx", ["nothing"], ["none"]),          # cancel after firing without waiting: no effect
        history3("M1A2x0", ["nothing"]),               # outer waits on a fired middle that waits on pending: 2 levels
        history3("A2M1x00", ["none"]),                 # same, outer fired first; swallowed + rejected late results
        history3("M1A2zx", ["raise", 1]),              # raising canceller reached twice through the chain
        {"canc": [["cb", 7], ["none"], ["none"], ["none"]],                                   # 3 levels
         "ops": [["add", 1, ["ret", ["D", 0]], None], ["cb", 1, 1], ["add", 2, ["ret", ["D", 1]], None], ["cb", 2, 1],
                 ["add", 3, ["ret", ["D", 2]], None], ["cb", 3, 1], ["cancel", 3], ["cancel", 3]]},
        K and {"canc": [["none"]], "ops": [["add", 0, ["ret", ["D", 0]], None], ["cb", 0, 1], ["cancel", 0]]},
    ]


# ---------------------------------------------------------------------------------------------------
# the property, evaluated on the implementation's log with independent bookkeeping

_R = re.compile(r"^R(\d+)\.(\d+)\((.*)\)$")


def _ret_of(case, k, arg_is_failure):
    """behaviour of add-operation k on the side that ran"""
    n = -1
    for o in case["ops"]:
        if o[0] == "add":
            n += 1
            if n == k:
                cb, eb = o[2], o[3]
                return eb if arg_is_failure else cb
    return None


def oracle(case, obs):
    if K.has_scripts(case):
        # operations executed inside callbacks put firings / canceller calls into any operation: only the exact
        # comparison with the reference interpreter applies
        want = K.reference(case)
        if "!" in obs.split(" | ")[0]:
            return Failure(case, "an exception raised by a callback escaped from the call", "callback-exception-escaped")
        if want != obs:
            wb, ob = want.split(" | ")[0].split(" "), obs.split(" | ")[0].split(" ")
            for k, (a, b) in enumerate(zip(wb, ob)):
                if a != b:
                    return Failure(case, f"op {k} {case['ops'][k]}: implementation {b}, reference interpreter {a}",
                                   "differs-from-reference:script-" + case["ops"][k][0])
            return Failure(case, f"final state {obs.split(' | ')[1]}, reference interpreter {want.split(' | ')[1]}",
                           "differs-from-reference:script-final")
        return None
    ops = case["ops"]
    nd = len(case["canc"])
    body, _, final = obs.partition(" | ")
    evs = body.split(" ") if ops else []
    if len(evs) != len(ops):
        return Failure(case, "malformed log", "log")
    fired = [False] * nd
    swallow = [False] * nd        # a canceller-less cancel fired it: exactly one late result is ignored
    # the Deferred a cancel() must reach is computed from the reference interpreter's state (harness/deferredk.py):
    # a fired Deferred whose current result is a Deferred forwards the cancellation, to ANY depth, and the
    # innermost unfired Deferred is the one that is cancelled
    ref = K.Reference(case["canc"])
    simple = case.get("family") == "two"      # probes first: the accepted result is visible
    accepted = [None] * nd
    for k, (o, e) in enumerate(zip(ops, evs)):
        toks = [] if e == "-" else e.split(",")
        where = f"op {k} {o} -> {e}: "
        kind, d = o[0], o[1]
        if d >= nd:
            continue
        fired_now = [int(t[1:]) for t in toks if re.fullmatch(r"F\d+", t)]
        if len(fired_now) > 1 or any(fired[t] for t in fired_now):
            return Failure(case, where + "a Deferred accepted a second result", "double-fire")
        cancellers = [int(t[1:]) for t in toks if re.fullmatch(r"K\d+", t)]
        if kind != "cancel" and cancellers:
            return Failure(case, where + "canceller invoked outside cancel()", "canceller-outside-cancel")
        if kind in ("cb", "eb"):
            if not fired[d]:
                if fired_now != [d] or toks[0] != f"F{d}" or toks[-1] in ("A", "S"):  # (fired_now non-empty => toks non-empty)
                    return Failure(case, where + "first callback/errback of an unfired Deferred must be accepted",
                                   "first-result-refused")
                want = str(o[2]) if kind == "cb" else f"E{o[2]}"
                accepted[d] = want
            else:
                if fired_now:
                    return Failure(case, where + "fired another Deferred", "double-fire")
                if swallow[d]:
                    if toks != ["S"]:
                        return Failure(case, where + "the one late result after a canceller-less cancel must be "
                                       "ignored silently", "swallow-missing")
                    swallow[d] = False
                elif toks != ["A"]:
                    return Failure(case, where + "a further callback/errback must raise AlreadyCalledError",
                                   "late-result-not-rejected")
        elif kind == "cancel":
            # where must the cancellation go?
            t, hops = ref.cancel_target(d)
            known = t != "RE"
            if known and t is None:
                if toks:
                    return Failure(case, where + "cancel() of a fired Deferred that waits on nothing must do nothing",
                                   "cancel-fired-not-noop")
            elif known:
                c = case["canc"][t]
                if c[0] == "none":
                    if cancellers or fired_now != [t] or toks[0] != f"F{t}":  # idem
                        return Failure(case, where + f"cancel must reach Deferred {t} ({hops} level(s) down the chain of results; no canceller) and fail it "
                                       "with CancelledError",
                                       "cancel-unfired-not-fired" if hops == 0 else "cancel-not-forwarded")
                    swallow[t] = True
                    accepted[t] = "EC"
                else:
                    if cancellers != [t] or toks[0] != f"K{t}":  # idem
                        return Failure(case, where + f"the canceller of Deferred {t} ({hops} level(s) down the chain of results) must be invoked "
                                       "exactly once",
                                       "canceller-not-once" if hops == 0 else "cancel-not-forwarded")
                    if c[0] == "raise":
                        if fired_now or toks != [f"K{t}", f"X{c[1]}"]:
                            return Failure(case, where + "a raising canceller: its exception must leave cancel() and "
                                           "the Deferred stays unfired", "canceller-raise")
                    else:
                        if fired_now != [t] or len(toks) < 2 or toks[1] != f"F{t}" or toks[-1].startswith("X") or toks[-1] == "RE":
                            return Failure(case, where + f"cancel must fire Deferred {t}", "cancel-unfired-not-fired")
                        accepted[t] = {"nothing": "EC", "cb": str(c[1]) if len(c) > 1 else "", "eb": f"E{c[1]}" if len(c) > 1 else ""}[c[0]]
            else:
                # target not tracked (pauses / cycles): the local rules still apply
                for t in cancellers:
                    if fired[t] or case["canc"][t][0] == "none":
                        return Failure(case, where + "canceller of a fired Deferred invoked", "canceller-after-fire")
                if len(cancellers) > 1:
                    return Failure(case, where + "two cancellers in one cancel()", "canceller-not-once")
                for t in fired_now:
                    if case["canc"][t][0] == "none":
                        swallow[t] = True
        else:
            if fired_now:
                return Failure(case, where + "a Deferred fired during add/pause/unpause", "double-fire")
        # the accepted result, as seen by the first callback (the probe), when it ran in this very operation
        # (two-Deferred family only: elsewhere a waiting Deferred's continuation may come first and take the result)
        for t in fired_now:
            if simple and accepted[t] is not None:
                i = toks.index(f"F{t}")
                if i + 1 < len(toks):
                    m = _R.match(toks[i + 1])
                    if m and int(m.group(1)) == t and m.group(3) != accepted[t]:
                        return Failure(case, where + f"Deferred {t} accepted {m.group(3)}, expected {accepted[t]}",
                                       "wrong-accepted-result")
        # the whole operation against the reference interpreter (exact events, in order)
        want = ref.op(o)
        for tok in toks:
            if tok.startswith("!"):
                return Failure(case, where + "an exception raised by a callback escaped from the call",
                               "callback-exception-escaped")
        if want != e:
            return Failure(case, where + f"the reference interpreter predicts {want}", "differs-from-reference:" + kind)
        for t in fired_now:
            fired[t] = True
    if final != ref.final():
        return Failure(case, f"final state {final}, the reference interpreter predicts {ref.final()}",
                       "differs-from-reference:final")
    # final flags agree with the log
    states = final.split(" ") if final else []
    for t, st in enumerate(states):
        if (st.split(":")[0] == "T") != fired[t]:
            return Failure(case, f"Deferred {t}: called={st.split(':')[0]} but the log says fired={fired[t]}", "called-flag")
    return None


def shrink(case):
    ops = case["ops"]
    for i in range(len(ops)):
        yield {**case, "ops": ops[:i] + ops[i + 1:]}


def histogram(case, obs):
    if K.has_scripts(case):
        return "with scripts" + (" (debug)" if case.get("debug") else "")
    if case.get("debug"):
        return "under defer.setDebugging(True)"
    c = case["canc"]
    if case.get("family") == "three":
        return f"3-level history len={len(case['word'])} pending={c[0][0]}"
    if "word" in case and case.get("word"):
        return f"history len={len(case['word'])} outer={c[1][0]} inner={c[0][0]}"
    return f"random nd={len(c)}"


SPEC = Spec(
    pid="C03",
    gen=gen, impl=K.run_program, oracle=oracle, corpus=corpus, shrink=shrink,
    coq_header="From TwLib Require Import DeferredK DeferredKShow DeferredKR DeferredKRShow.\nFrom C03 Require Import Run.",
    coq_fn="show_any",
    to_coq=K.coq_any_program,
    nontrivial=lambda c, o: any(t in o for t in ("A", "S", "K", "EC")),
    histogram=histogram,
    describe=lambda c: {"canc": c["canc"], "ops": c["ops"][:12], "debug": bool(c.get("debug"))},
    rule="every history of length <= 5 (quick; length 4 sampled 35%, length 5 sampled 6%) / <= 6 (thorough; length 5 sampled 30%, length 6 sampled 3%) over {outer.callback, "
         "outer.errback, outer.cancel, add a callback returning the unfired inner Deferred, fire the inner Deferred} "
         "x 7 (quick) / 25 (thorough) canceller pairs from {none, does nothing, fires callback, fires errback, "
         "raises}^2, each Deferred first given a pass-through probe callback; every history of length <= 3 (4) over "
         "that alphabet + {inner.cancel, inner.errback}; every history with a cancel of length <= 3 (4% of 4, 0.3% of 5; thorough <= 4, 10% of 5, 0.5% of 6) over the "
         "3-level alphabet {outer returns middle, middle returns pending, fire each, cancel each} x 3 (5) cancellers of "
         "the pending Deferred; 500 (10 000) forwarding scenarios (2-5 levels of fired-and-waiting Deferreds, cancel at "
         "any level, late results); 15% (10%) of the cases containing an errback once more with the failure handed over as bare errback() inside an except block / errback(None) / errback(Failure); 500 (12 000) scenarios cancelling fired-but-paused Deferreds and chainDeferred targets, 300 (8 000) random programs with pause/unpause and cancel; 6% (4%) of all cases once more with defer.setDebugging flipped on/off in the middle; 8% (5%) of all these cases once more under defer.setDebugging(True); 800 (10 000) random programs of 3-15 operations over the "
         "kernel alphabet without pause/unpause on 1-4 Deferreds.  non-trivial = an AlreadyCalledError, a swallowed result, a "
         "canceller call or a CancelledError occurs; distinct by (case, observation)",
    trusted=["hand-written kernel model coq/Lib/DeferredK.v (tied by this correspondence run only)",
             "callbacks and cancellers are a fixed behaviour (value / None / Failure / Deferred / raise / pass-through; "
             "canceller: none / nothing / callback / errback / raise); callbacks that call back into Deferred methods "
             "(re-entrancy, _runningCallbacks) are not modelled",
             "harness/deferredk.py driver, its recursive reference interpreter (used by the oracle for the cancel() "
             "target and the exact events) and the oracle in harness/c03.py"],
    assumptions=["a canceller that raises: the exception leaves cancel(), the Deferred stays unfired (the code's "
                 "behaviour; the property statement is read as being about cancellers that return)"],
)


def main(tier, seed, replay):
    return K.run_spec_sharded(SPEC, tier, seed, replay)
