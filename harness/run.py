"""./check entry: dispatch to harness/cNN.py (SPEC = common.Spec(...) or main(tier, seed, replay))."""
import argparse
import importlib
import os
import sys
import traceback

from harness import common


def main() -> int:
    ap = argparse.ArgumentParser()
    ap.add_argument("pid")
    ap.add_argument("--tier", default=os.environ.get("VERIF_TIER", "quick"), choices=["quick", "thorough"])
    ap.add_argument("--replay", default=None)
    ap.add_argument("--seed", type=int, default=int(os.environ.get("VERIF_SEED", "0") or 0))
    a = ap.parse_args()
    pid = a.pid.upper()
    try:
        mod = importlib.import_module("harness." + pid.lower())
    except ModuleNotFoundError as e:
        print(f"no check for {pid}: {e}")
        return 2
    try:
        if hasattr(mod, "main"):
            return int(mod.main(a.tier, a.seed, a.replay) or 0)
        return common.run_spec(mod.SPEC, a.tier, a.seed, a.replay)
    except Exception:
        # machinery error: never silently pass; not a VIOLATION line either (nothing it says is believed)
        traceback.print_exc()
        print(f"[{pid}] INTERNAL ERROR in the check machinery")
        return 3


if __name__ == "__main__":
    sys.exit(main())
