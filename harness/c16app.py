"""C16, second part — receivers with a reacting application: LineReceiver raw mode / mode switches /
pause-resume, IntNStringReceiver pause-resume and the `recvd` hand-over.

case = {"kind": "lineapp", "max", "delim": hex, "table": [[linehex, k|None, pause]], "ops": [["d", hex] | ["r"]]}
     | {"kind": "lineapp", ..., "table", "stream": hex, "family": "all" | "upto3"}         (ops = one delivery per chunk)
     | {"kind": "intapp", "k": 1|2|4, "max", "table": [[strhex, switch, pause]], "ops" | "stream"+"family"}

The application (scripted by the table, i.e. by the message just delivered):
  lineReceived(line):  table[line] = (k, pause):  k is not None -> setRawMode(), take the next k+1 bytes through
                       rawDataReceived, hand the rest back with setLineMode(rest);  pause -> pauseProducing()
  stringReceived(s):   table[s] = (switch, pause): switch -> rest = self.recvd; self.recvd = b""; every later delivery
                       goes to the other consumer;  pause -> pauseProducing()
  pause = "pr":        pauseProducing() immediately followed by resumeProducing() inside the same callback (re-entrant
                       dataReceived(b"")): the model treats it as no pause at all
"r" = resumeProducing(); at the end of every case the harness resumes until nothing is paused.
Observation: L:<hex> S:<hex> X N:<n> C as in c16.py, R:<hex> = raw bytes (consecutive pieces merged), P! = a callback ran
while the receiver was paused (never expected), " |open|closed".
"""
from __future__ import annotations

from harness.common import Failure, coq_bytes, coq_list

INT_KINDS = {1: "Int8StringReceiver", 2: "Int16StringReceiver", 4: "Int32StringReceiver"}


def _raw(events, data):
    if not data:
        return
    if events and events[-1].startswith("R:"):
        events[-1] += bytes(data).hex()
    else:
        events.append("R:" + bytes(data).hex())


def run_impl(case, ops):
    from twisted.internet.testing import StringTransport
    from twisted.protocols import basic

    events: list[str] = []

    class T(StringTransport):
        def loseConnection(self):
            events.append("C")
            StringTransport.loseConnection(self)

    if case["kind"] == "lineapp":
        table = {bytes.fromhex(l): (k, p) for l, k, p in reversed(case["table"])}

        class P(basic.LineReceiver):
            remaining = 0

            def lineReceived(self, line):
                if self.paused:
                    events.append("P!")            # a message handed over although the receiver is paused
                events.append("L:" + bytes(line).hex())
                act = table.get(bytes(line))
                if act is not None:
                    if act[0] is not None:
                        self.remaining = act[0] + 1
                        self.setRawMode()
                    if act[1]:
                        self.pauseProducing()
                        if act[1] == "pr":            # ... and resumes at once, from inside the callback
                            self.resumeProducing()

            def rawDataReceived(self, data):
                if self.paused:
                    events.append("P!")
                n = self.remaining
                if len(data) < n:
                    _raw(events, data)
                    self.remaining = n - len(data)
                else:
                    _raw(events, data[:n])
                    self.remaining = 0
                    self.setLineMode(data[n:])

            def lineLengthExceeded(self, line):
                events.append("X")
                return basic.LineReceiver.lineLengthExceeded(self, line)

        p = P()
        p.delimiter = bytes.fromhex(case["delim"])
    else:
        base = getattr(basic, INT_KINDS[case["k"]])
        table = {bytes.fromhex(s): (sw, pa) for s, sw, pa in reversed(case["table"])}

        class Q(base):
            switched = False

            def stringReceived(self, s):
                if self.paused:
                    events.append("P!")
                events.append("S:" + bytes(s).hex())
                act = table.get(bytes(s))
                if act is not None:
                    if act[0]:
                        rest = self.recvd              # the compatibility attribute: everything not yet parsed
                        self.recvd = b""
                        self.switched = True
                        _raw(events, rest)
                    if act[1]:
                        self.pauseProducing()
                        if act[1] == "pr":
                            self.resumeProducing()

            def dataReceived(self, data):
                if self.switched:
                    _raw(events, data)
                else:
                    base.dataReceived(self, data)

            def lengthLimitExceeded(self, length):
                events.append("N:%d" % length)
                return base.lengthLimitExceeded(self, length)

        p = Q()
    p.MAX_LENGTH = case["max"]
    p.makeConnection(T())
    for op in ops:
        if "C" in events:
            break
        if op[0] == "d":
            p.dataReceived(bytes.fromhex(op[1]))
        else:
            p.resumeProducing()
    n = 0
    while p.paused and "C" not in events and n < 10000:
        p.resumeProducing()
        n += 1
    closed = "C" in events
    if closed:
        events = events[: events.index("C") + 1]
    return " ".join(events) + (" |closed" if closed else " |open")


def comps(s):
    from harness.c16 import comps as c
    return c(s)


def members(case):
    from harness.c16 import comps as c, upto3
    s = bytes.fromhex(case["stream"])
    for cs in (c(s) if case["family"] == "all" else upto3(s)):
        yield [["d", x.hex()] for x in cs]


def impl(case, counter) -> str:
    from harness.c16 import summary
    if "family" in case:
        ms = list(members(case))
        counter[0] += len(ms)
        return summary(run_impl(case, ops) for ops in ms)
    counter[0] += 1
    return run_impl(case, case["ops"])


# --------------------------------------------------------------------------------------------------
# reference: the whole stream framed at once, the application's script applied to the messages


def reference(case, stream: bytes):
    """-> (events, verdict) with verdict in open / closed / either (see c16.reference)"""
    from harness.c16 import _overlap
    ev, pos = [], 0

    def raw(b):
        _raw(ev, b)

    if case["kind"] == "lineapp":
        mx, delim = case["max"], bytes.fromhex(case["delim"])
        table = {bytes.fromhex(l): k for l, k, p in reversed(case["table"])}
        while True:
            i = stream.find(delim, pos)
            if i < 0:
                tail = stream[pos:]
                if len(tail) >= mx + len(delim):
                    return ev + ["X", "C"], "closed"
                return ev, "open" if len(tail) - _overlap(tail, delim) <= mx else "either"
            if i - pos > mx:
                return ev + ["X", "C"], "closed"
            line = stream[pos:i]
            ev.append("L:" + line.hex())
            pos = i + len(delim)
            k = table.get(line)
            if k is not None:
                body = stream[pos:pos + k + 1]
                raw(body)
                pos += len(body)
                if len(body) < k + 1:
                    return ev, "open"
    k, mx = case["k"], case["max"]
    table = {bytes.fromhex(s): sw for s, sw, pa in reversed(case["table"])}
    while True:
        if len(stream) - pos < k:
            return ev, "open"
        n = int.from_bytes(stream[pos:pos + k], "big")
        if n > mx:
            return ev + ["N:%d" % n, "C"], "closed"
        if len(stream) - pos - k < n:
            return ev, "open"
        s = stream[pos + k:pos + k + n]
        ev.append("S:" + s.hex())
        pos += k + n
        if table.get(s):
            raw(stream[pos:])
            return ev, "open"


def oracle1(case, ops, obs):
    stream = b"".join(bytes.fromhex(o[1]) for o in ops if o[0] == "d")
    evs, state = obs.rsplit(" |", 1)
    got = evs.split(" ") if evs else []
    want, verdict = reference(case, stream)
    kind = case["kind"]
    single = {k: v for k, v in case.items() if k not in ("stream", "family")}
    single["ops"] = ops
    if "P!" in got:
        return Failure(single, f"a message was delivered while the receiver was paused: {got}", f"{kind}-delivered-while-paused")
    if verdict == "either":
        ok = got == want or got[:len(want)] == want and got[len(want):] == ["X", "C"]
    else:
        ok = got == want and state == verdict
    if not ok:
        n = 0
        while n < len(got) and n < len(want) and got[n] == want[n]:
            n += 1
        g = got[n] if n < len(got) else "-"
        w = want[n] if n < len(want) else "-"
        msgs = lambda l: [e for e in l if e[0] in "LS"]
        if len(msgs(got)) > len(msgs(want)) and set(msgs(got)) <= set(msgs(want)) and "X" not in got:
            tag = f"{kind}-message-delivered-more-than-once"
        elif g[0] == "R" or w[0] == "R":
            tag = f"{kind}-raw-bytes-differ"
        elif g in ("X", "C") or g.startswith("N:"):
            tag = f"{kind}-within-limit-rejected"
        elif w in ("X", "C") or w.startswith("N:"):
            tag = f"{kind}-invalid-not-rejected"
        else:
            tag = f"{kind}-framing-mismatch"
        return Failure(single, f"reference framing with the application's script gives {want} ({verdict}); the receiver gave {got} "
                               f"({state}); first difference at event {n}: got {g}, expected {w}", tag)
    if len(ops) != 1:
        whole = run_impl(case, [["d", stream.hex()]])
        if whole != obs:
            return Failure(single, f"delivered at once: {whole}; delivered as {ops}: {obs}", f"{kind}-split-differs")
    return None


def oracle(case, obs):
    if "family" in case:
        for ops in members(case):
            f = oracle1(case, ops, run_impl(case, ops))
            if f is not None:
                return f
        return None
    return oracle1(case, case["ops"], obs)


# --------------------------------------------------------------------------------------------------
# generation


def gen_line_case(rng, long=False):
    from harness.c16 import DELIMS
    mx = rng.randrange(2, 6) if not long else rng.choice([3, 7, 10, 30])
    delim = rng.choice(DELIMS)
    alpha = bytes(set(delim)) + b"xy"
    word = lambda n: bytes(rng.choice(alpha) for _ in range(n))
    # trigger lines: short, made of the same bytes as the delimiter and the payload
    triggers = []
    for _ in range(rng.choice([1, 2, 3])):
        t = word(rng.randrange(0, min(mx, 3) + 1))
        if delim not in t + delim[:-1] or True:
            triggers.append([t.hex(), rng.choice([None, 0, 1, 2, 3, 5, mx, mx + 3]), rng.choice([False, False, False, True, True, "pr"])])
    parts = []
    for _ in range(rng.randrange(1, 4 if not long else 9)):
        r = rng.random()
        if r < 0.5 and triggers:
            t = rng.choice(triggers)
            parts.append(bytes.fromhex(t[0]) + delim)
            if t[1] is not None and rng.random() < 0.85:
                body = word(t[1] + 1) if rng.random() < 0.7 else (delim * 5)[: t[1] + 1]     # bodies that look like lines
                parts.append(body[: rng.choice([len(body), len(body), rng.randrange(len(body) + 1)])])
        else:
            parts.append(word(max(0, rng.choice([0, 1, mx - 1, mx, mx + 1]))) + delim)
    parts.append(word(rng.choice([0, 0, 1, mx, mx + len(delim)])))
    return {"kind": "lineapp", "max": mx, "delim": delim.hex(), "table": triggers}, b"".join(parts)


def gen_int_case(rng, long=False):
    k = rng.choice([1, 2, 4])
    mx = rng.randrange(2, 6) if not long else rng.choice([3, 9, 40])
    msg = lambda n: bytes(rng.choice(b"ab\x00") for _ in range(n))
    table = []
    for _ in range(rng.choice([1, 2])):
        table.append([msg(rng.randrange(0, 3)).hex(), rng.random() < 0.5, rng.choice([False, False, False, True, True, "pr", "pr"])])
    parts = []
    for _ in range(rng.randrange(1, 5 if not long else 10)):
        s = bytes.fromhex(rng.choice(table)[0]) if rng.random() < 0.45 else msg(rng.choice([0, 1, mx - 1, mx, mx + 1]))
        parts.append(len(s).to_bytes(k, "big") + s)
    if rng.random() < 0.4:
        parts.append(msg(rng.randrange(0, 4)))
    return {"kind": "intapp", "k": k, "max": mx, "table": table}, b"".join(parts)


def random_ops(rng, s, resumes=True):
    ops, i = [], 0
    while i < len(s):
        n = rng.choice([1, 1, 2, 3, 5, 8, 20])
        ops.append(["d", s[i:i + n].hex()])
        i += n
        if resumes and rng.random() < 0.3:
            ops.append(["r"])
    if resumes and rng.random() < 0.3:
        ops.insert(0, ["r"])
    return ops


def gen(rng, tier):
    thorough = tier == "thorough"
    cases = []
    n_short, cap = (30, 9) if not thorough else (120, 11)
    for g in (gen_line_case, gen_int_case):
        for _ in range(n_short):
            c, s = g(rng)
            cases.append({**c, "stream": s[:cap].hex(), "family": "all"})
        for _ in range(n_short // 2):
            c, s = g(rng, long=True)
            cases.append({**c, "stream": s[:24].hex(), "family": "upto3"})
        for _ in range(4 * n_short if not thorough else 12 * n_short):
            c, s = g(rng, long=rng.random() < 0.5)
            cases.append({**c, "ops": random_ops(rng, s)})
    # pauseProducing() + resumeProducing() from inside the callback, at each message index, whole and cut everywhere
    for k in (1, 2, 4):
        msgs = [b"a", b"b", b"c", b"d"]
        s = b"".join(len(m).to_bytes(k, "big") + m for m in msgs) + b"\x00"[: k - 1]
        for m in msgs:
            cases.append({"kind": "intapp", "k": k, "max": 5, "table": [[m.hex(), False, "pr"]], "stream": s.hex(),
                          "family": "all" if k == 1 else "upto3"})
        cases.append({"kind": "intapp", "k": k, "max": 5, "table": [[m.hex(), False, "pr"] for m in msgs], "ops": [["d", s.hex()]]})
    for m in (b"a", b"b", b"c"):
        cases.append({"kind": "lineapp", "max": 5, "delim": "0d0a", "table": [[m.hex(), None, "pr"]],
                      "stream": b"a\r\nb\r\nc\r\nd\r\n".hex(), "family": "upto3"})
    # a pausing message followed, in the same delivery or while paused, by many complete short messages
    from harness.c16 import DELIMS
    for _ in range(n_short):
        mx, delim = rng.randrange(2, 7), rng.choice(DELIMS)
        short = lambda: bytes(rng.choice(b"xy") for _ in range(rng.randrange(0, mx + 1))) + delim
        burst = b"".join(short() for _ in range(rng.randrange(3, 9)))
        c = {"kind": "lineapp", "max": mx, "delim": delim.hex(), "table": [["78", None, True], ["", None, rng.random() < 0.5]]}
        s = b"x" + delim + burst
        cut = rng.choice([len(s), 1 + len(delim), rng.randrange(1, len(s))])
        ops = [["d", s[:cut].hex()]] + ([["d", s[cut:].hex()]] if cut < len(s) else []) + [["r"]] + ([["d", (b"x" + delim + burst).hex()]] if rng.random() < 0.5 else [])
        cases.append({**c, "ops": ops})
        k = rng.choice([1, 2])
        msgs = b"".join((1).to_bytes(k, "big") + bytes([rng.choice(b"ab")]) for _ in range(rng.randrange(3, 9)))
        cases.append({"kind": "intapp", "k": k, "max": rng.randrange(1, 4), "table": [["70", False, True]],
                      "ops": [["d", ((1).to_bytes(k, "big") + b"p" + msgs).hex()], ["d", msgs.hex()], ["r"], ["d", msgs.hex()]]})
    return cases


def corpus():
    http = {"kind": "lineapp", "max": 20, "delim": "0d0a", "table": [["", 4, False], ["50", None, True]]}
    return [
        # header lines, empty line -> 5 raw bytes, then lines again; the body looks like lines
        {**http, "ops": [["d", b"H: 1\r\n\r".hex()], ["d", b"\n\r\n\r\n\rNEXT\r\nP\r\n".hex()], ["d", b"after\r\n".hex()], ["r"]]},
        {**http, "stream": b"a\r\n\r\nbody!b\r\n".hex(), "family": "upto3"},
        {**http, "ops": [["d", b"P\r\nx\r\nP\r\ny\r\n".hex()], ["r"], ["d", b"z\r\n".hex()]]},
        # pause from inside lineReceived with MAX_LENGTH + len(delimiter) or more bytes of complete short lines still
        # buffered / delivered while paused: none of them is over-long, all must be delivered in order after resume
        {"kind": "lineapp", "max": 4, "delim": "0d0a", "table": [["70", None, True]],
         "ops": [["d", b"p\r\na\r\nb\r\nc\r\nd\r\n".hex()], ["r"]]},
        {"kind": "lineapp", "max": 4, "delim": "0d0a", "table": [["70", None, True]],
         "ops": [["d", b"p\r\n".hex()], ["d", b"a\r\nb\r\n".hex()], ["d", b"c\r\nd\r\ne\r\n".hex()], ["r"], ["d", b"p\r\nxy\r\nz\r\nw\r\n".hex()]]},
        {"kind": "intapp", "k": 2, "max": 10, "table": [["7377", True, False], ["70", False, True]],
         "ops": [["d", "0001"], ["d", "61000273"], ["d", "77ffff00"], ["d", "0102"]]},
        {"kind": "intapp", "k": 1, "max": 10, "table": [["70", False, True]], "ops": [["d", "0170016101"], ["d", "62"], ["r"], ["r"]]},
        {"kind": "intapp", "k": 1, "max": 10, "table": [["", True, True]], "stream": "016100ffee", "family": "all"},
        # stringReceived pauses and resumes in the same call: every string exactly once, in order
        {"kind": "intapp", "k": 1, "max": 10, "table": [["62", False, "pr"]], "ops": [["d", "0161016201630164"]]},
        {"kind": "intapp", "k": 2, "max": 10, "table": [["61", False, "pr"]], "ops": [["d", "000161"], ["d", "00016200016300"]]},
    ]


# --------------------------------------------------------------------------------------------------
# model side


def to_coq(case):
    b = lambda x: "true" if x is True else "false"        # "pr" (pause + resume in the same callback) = not paused
    if case["kind"] == "lineapp":
        rows = [f"({coq_bytes(bytes.fromhex(l))}, ({'None' if k is None else f'Some {k}%nat'}, {b(p)}))" for l, k, p in case["table"]]
        head = f"{case['max']}%nat {coq_bytes(bytes.fromhex(case['delim']))} {coq_list(rows, '(bytes * (option nat * bool))')}"
        con = "CLineApp"
    else:
        rows = [f"({coq_bytes(bytes.fromhex(s))}, ({b(sw)}, {b(pa)}))" for s, sw, pa in case["table"]]
        head = f"{case['k']}%nat {case['max']}%N {coq_list(rows, '(bytes * (bool * bool))')}"
        con = "CIntApp"
    if "family" in case:
        f = "AllComps" if case["family"] == "all" else "UpTo3"
        return f"inr ({con}Fam {head} {f} {coq_bytes(bytes.fromhex(case['stream']))})"
    ops = coq_list([f"(Data {coq_bytes(bytes.fromhex(o[1]))})" if o[0] == "d" else "(Resume N)" for o in case["ops"]], "(op N)")
    return f"inr ({con} {head} {ops})"


def shrink(case):
    if "family" in case:
        return
    ops = case["ops"]
    for i in range(len(ops)):
        yield {**case, "ops": ops[:i] + ops[i + 1:]}
    for i in range(len(ops) - 1):
        if ops[i][0] == "d" and ops[i + 1][0] == "d":
            yield {**case, "ops": ops[:i] + [["d", ops[i][1] + ops[i + 1][1]]] + ops[i + 2:]}
    if len(case["table"]) > 1:
        for i in range(len(case["table"])):
            yield {**case, "table": case["table"][:i] + case["table"][i + 1:]}
