"""C47 — HAProxy PROXY protocol wrapper + v1/v2 parsers: H-tie.

case = {"chunks": [hex, ...], "desc": str}                      one segmentation of a stream
     | {"stream": hex, "lim": n, "family": "splits", "desc"}    the whole stream, every 2-split, every 3-split with
                                                                both cuts within the first n bytes, byte by byte

Observation (per chunking), after the deliveries up to the first loseConnection():
  peer=<addr> host=<addr> in=<peer>host pairs seen by the wrapped protocol from inside its dataReceived calls, merged | none>
  data=<hex of everything handed to the wrapped protocol> |open|closed
  addr = "-" (the transport's own address: no header, UNKNOWN, LOCAL, UNSPEC) | T4(hosthex:port) | T6 | U4 | U6 | X(pathhex)
"""
from __future__ import annotations

import ipaddress
import struct

from harness.common import Failure, Spec, coq_bytes, coq_list
from harness.c16 import summary

V2PREFIX = b"\x0D\x0A\x0D\x0A\x00\x0D\x0A\x51\x55\x49\x54\x0A"


# --------------------------------------------------------------------------------------------------
# implementation driver


def _addr(a, default):
    from twisted.internet import address

    if a == default:
        return "-"
    if isinstance(a, address.UNIXAddress):
        return "X(" + bytes(a.name).hex() + ")"
    fam = "6" if isinstance(a, address.IPv6Address) else "4"
    return ("U" if a.type == "UDP" else "T") + fam + "(" + a.host.encode("utf-8", "surrogateescape").hex() + ":" + str(a.port) + ")"


def run_impl(chunks):
    from twisted.internet import address
    from twisted.internet.protocol import Factory, Protocol
    from twisted.internet.testing import StringTransport
    from twisted.protocols.haproxy._wrapper import HAProxyWrappingFactory

    got = []
    seen = []       # what getPeer()/getHost() say to the wrapped protocol from INSIDE each of its dataReceived calls

    class App(Protocol):
        def dataReceived(self, d):
            if d:
                pair = _addr(self.transport.getPeer(), t.getPeer()) + ">" + _addr(self.transport.getHost(), t.getHost())
                if not seen or seen[-1] != pair:
                    seen.append(pair)
            got.append(bytes(d))

    closed = []

    class T(StringTransport):
        def loseConnection(self):
            closed.append(1)
            StringTransport.loseConnection(self)

    f = HAProxyWrappingFactory(Factory.forProtocol(App))
    p = f.buildProtocol(address.IPv4Address("TCP", "127.1.1.1", 8080))
    t = T()
    p.makeConnection(t)
    for c in chunks:
        if closed:
            break
        p.dataReceived(c)
    return ("peer=" + _addr(p.getPeer(), t.getPeer()) + " host=" + _addr(p.getHost(), t.getHost())
            + " in=" + ("+".join(seen) if seen else "none") + " data=" + b"".join(got).hex() + (" |closed" if closed else " |open"))


def split_family(lim, s):
    n = len(s)
    out = [[s]]
    out += [[s[:i], s[i:]] for i in range(1, n)]
    m = min(lim, n - 1)
    out += [[s[:i], s[i:j], s[j:]] for i in range(1, m + 1) for j in range(i + 1, m + 1)]
    out.append([s[i:i + 1] for i in range(n)])
    return out


def members(case):
    s = bytes.fromhex(case["stream"])
    for cs in split_family(case["lim"], s):
        yield {"chunks": [c.hex() for c in cs], "desc": case.get("desc", "")}


CHUNKINGS = [0]


def impl(case) -> str:
    if "family" in case:
        ms = list(members(case))
        CHUNKINGS[0] += len(ms)
        return summary(run_impl([bytes.fromhex(c) for c in m["chunks"]]) for m in ms)
    CHUNKINGS[0] += 1
    return run_impl([bytes.fromhex(c) for c in case["chunks"]])


# --------------------------------------------------------------------------------------------------
# reference: the PROXY protocol specification (haproxy.org/download/1.8/doc/proxy-protocol.txt), strict


def _port_ok(tok: bytes) -> bool:
    return tok.isdigit() and tok.isascii() and (tok == b"0" or not tok.startswith(b"0")) and int(tok) <= 65535


def _ip_ok(tok: bytes, v6: bool) -> bool:
    try:
        s = tok.decode("ascii")
        if v6:
            ipaddress.IPv6Address(s)
        else:
            ipaddress.IPv4Address(s)
        return True
    except ValueError:
        return False


def lax_v1(line: bytes):
    """what the code's (deliberately unvalidated) field grammar makes of a v1 line, or None"""
    f = line.split(b" ")
    if len(f) < 2 or f[0] != b"PROXY":
        return None
    if f[1] == b"UNKNOWN":
        return ("-", "-")
    if f[1] not in (b"TCP4", b"TCP6") or len(f) < 6:
        return None
    try:
        src, dst, sp, dp = f[2].decode(), f[3].decode(), int(f[4]), int(f[5])
    except ValueError:
        return None
    fam = "6" if f[1] == b"TCP6" else "4"
    return (f"T{fam}({src.encode().hex()}:{sp})", f"T{fam}({dst.encode().hex()}:{dp})")


def reference(stream: bytes):
    """-> ("valid", peer, host, payload) | ("lax", peer, host, payload) | ("invalid", why) | ("incomplete",)"""
    if stream[:12] == V2PREFIX[:len(stream[:12])] and len(stream) >= 1 and (len(stream) < 13 or stream[12] & 0xF0 == 0x20):
        if len(stream) < 16:
            return ("incomplete",)
        size = 16 + struct.unpack("!H", stream[14:16])[0]
        if len(stream) < size:
            return ("incomplete",)
        h, payload = stream[:size], stream[size:]
        cmd, fam, proto = h[12] & 0x0F, h[13] >> 4, h[13] & 0x0F
        if cmd not in (0, 1):
            return ("invalid", "v2 command")
        if cmd == 0:
            return ("valid", "-", "-", payload)
        if fam > 3 or proto > 2:
            return ("invalid", "v2 family/protocol")
        if fam == 0 or proto == 0:
            return ("valid", "-", "-", payload)
        body = h[16:]
        need = {1: 12, 2: 36, 3: 216}[fam]
        if len(body) < need:
            return ("invalid", "v2 address block shorter than the family needs")
        if fam == 3:
            return ("valid", "X(" + body[:108].rstrip(b"\0").hex() + ")", "X(" + body[108:216].rstrip(b"\0").hex() + ")", payload)
        t = "T" if proto == 1 else "U"
        if fam == 1:
            s, d = str(ipaddress.IPv4Address(body[:4])), str(ipaddress.IPv4Address(body[4:8]))
            sp, dp = struct.unpack("!HH", body[8:12])
            return ("valid", f"{t}4({s.encode().hex()}:{sp})", f"{t}4({d.encode().hex()}:{dp})", payload)
        g = lambda b: ":".join("%x" % int.from_bytes(b[i:i + 2], "big") for i in range(0, 16, 2))
        sp, dp = struct.unpack("!HH", body[32:36])
        return ("valid", f"{t}6({g(body[:16]).encode().hex()}:{sp})", f"{t}6({g(body[16:32]).encode().hex()}:{dp})", payload)
    if stream[:5] == b"PROXY"[:len(stream[:5])] and len(stream) >= 1:
        if len(stream) < 8:
            return ("incomplete",)                # a receiver may wait for 8 bytes before it looks at the line
        i = stream.find(b"\r\n")
        if i < 0:
            return ("incomplete",) if len(stream) <= 107 - 1 else ("invalid", "v1 line longer than 107") if len(stream) > 107 else ("incomplete",)
        if i + 2 > 107:
            return ("invalid", "v1 line longer than 107")
        line, payload = stream[:i], stream[i + 2:]
        f = line.split(b" ")
        if f[0] != b"PROXY" or len(f) < 2:
            return ("invalid", "v1 signature")
        if f[1] == b"UNKNOWN":
            return ("valid", "-", "-", payload)
        strict = (len(f) == 6 and f[1] in (b"TCP4", b"TCP6") and _ip_ok(f[2], f[1] == b"TCP6") and _ip_ok(f[3], f[1] == b"TCP6")
                  and _port_ok(f[4]) and _port_ok(f[5]))
        lx = lax_v1(line)
        if strict:
            return ("valid", lx[0], lx[1], payload)
        if lx is not None:
            return ("lax", lx[0], lx[1], payload)
        return ("invalid", "v1 fields")
    if len(stream) == 0:
        return ("incomplete",)
    return ("invalid", "signature")


def oracle(case, obs):
    if "family" in case:
        for m in members(case):
            f = oracle1(m, run_impl([bytes.fromhex(c) for c in m["chunks"]]))
            if f is not None:
                return f
        return None
    return oracle1(case, obs)


def oracle1(case, obs):
    chunks = [bytes.fromhex(c) for c in case["chunks"]]
    stream = b"".join(chunks)
    head, state = obs.rsplit(" |", 1)
    peer, host, seen, data = (x.split("=", 1)[1] for x in head.split(" "))
    ref = reference(stream)
    first = next((c for c in chunks if c), b"")
    if ref[0] in ("valid", "lax"):
        _, rpeer, rhost, payload = ref
        good = state == "open" and peer == rpeer and host == rhost and data == payload.hex()
        if good and seen != ("none" if not payload else f"{rpeer}>{rhost}"):
            return Failure(case, f"the wrapped protocol, asking getPeer()/getHost() from inside its dataReceived, saw {seen} instead of "
                                 f"{rpeer}>{rhost}: the header's addresses must be in place before the first application byte is delivered "
                                 f"(deliveries of {[len(c) for c in chunks]} bytes)", "addresses-not-known-inside-first-delivery")
        if ref[0] == "lax":
            if state == "closed" and data == "":
                return None                      # the strict behaviour: silently fine
            if good:
                return Failure(case, f"a version 1 header with fields the specification does not allow ({stream[:stream.find(bytes([13, 10]))]!r}) "
                                     f"was accepted as {rpeer} -> {rhost}", "v1-lax-fields-accepted")
            return Failure(case, f"lax header neither refused nor parsed as the code's grammar reads it: {obs}", "v1-lax-inconsistent")
        if good:
            return None
        if state == "closed":
            if stream.startswith(b"PROXY") and len(first) < 8:
                tag = "v1-first-delivery-shorter-than-8-closed"
            elif stream.startswith(V2PREFIX) and len(first) < 16:
                tag = "v2-first-delivery-shorter-than-16-closed"
            elif stream.startswith(b"PROXY UNKNOWN\r\n"):
                tag = "v1-unknown-without-trailing-space-closed"
            elif stream.startswith(b"PROXY") and any(len(b"".join(chunks[:k])) > 107 and b"\r\n" not in b"".join(chunks[:k])
                                                      for k in range(1, len(chunks))):
                tag = "v1-valid-header-closed-long-payload-first-delivery"
            else:
                tag = "valid-header-closed"
            return Failure(case, f"valid header (reference: {rpeer} -> {rhost}, {len(payload)} payload bytes) but the connection was "
                                 f"closed; deliveries of {[len(c) for c in chunks]} bytes", tag)
        if data != payload.hex():
            return Failure(case, f"application bytes differ: got {data}, expected {payload.hex()}", "payload-mismatch")
        return Failure(case, f"addresses differ: got {peer} -> {host}, expected {rpeer} -> {rhost}", "address-mismatch")
    if ref[0] == "invalid":
        if state == "closed" and data == "":
            return None
        if data != "" or peer != "-":
            tag = "v1-overlong-line-accepted" if ref[1] == "v1 line longer than 107" else "invalid-header-accepted"
            return Failure(case, f"stream does not begin with a valid header ({ref[1]}) but was accepted: {obs}", tag)
        # invalid, nothing passed on, still open: only allowed while the receiver cannot know yet
        if ref[1] == "v1 line longer than 107" and b"\r\n" not in stream and len(stream) <= 107:
            return None
        return Failure(case, f"stream does not begin with a valid header ({ref[1]}) but the connection stays open: {obs}",
                       "invalid-header-not-closed")
    # incomplete header: nothing may reach the application, no address may be reported
    if data != "" or peer != "-" or host != "-":
        return Failure(case, f"header incomplete but something was reported: {obs}", "incomplete-header-leaks")
    if state == "closed":
        if stream == b"PROXY"[:len(stream)] or stream == V2PREFIX[:len(stream)] or b"\r\n" not in stream[2:] and stream.startswith(b"PROXY ") and len(stream) < 16:
            return Failure(case, f"connection closed although the {len(stream)} bytes received so far begin a valid header", "header-prefix-closed")
    return None


# --------------------------------------------------------------------------------------------------
# generation


def v1_header(rng, kind=None):
    kind = kind or rng.choice(["TCP4", "TCP4", "TCP6", "TCP6", "UNKNOWN", "UNKNOWN0"])
    port = lambda: str(rng.choice([0, 1, 80, 443, 8080, 65535, rng.randrange(65536)])).encode()
    if kind == "TCP4":
        a = lambda: ".".join(str(rng.choice([0, 1, 10, 127, 255, rng.randrange(256)])) for _ in range(4)).encode()
        return b"PROXY TCP4 " + a() + b" " + a() + b" " + port() + b" " + port() + b"\r\n"
    if kind == "TCP6":
        a = lambda: rng.choice([b"::1", b"::", b"fe80::1", b"2001:db8::ff00:42:8329", b"ffff:ffff:ffff:ffff:ffff:ffff:ffff:ffff",
                                b"::ffff:10.0.0.1"])
        return b"PROXY TCP6 " + a() + b" " + a() + b" " + port() + b" " + port() + b"\r\n"
    if kind == "UNKNOWN0":
        return b"PROXY UNKNOWN\r\n"
    pad = rng.choice([0, 1, 5, 90, 91, 92, 93, 94])        # total line 107 is the limit: 15 + pad
    return b"PROXY UNKNOWN " + bytes(rng.choice(b"xyz: 09\r\n"[:7]) for _ in range(pad)) + b"\r\n"


def v2_header(rng, kind=None):
    kind = kind or rng.choice(["TCP4", "UDP4", "TCP6", "UDP6", "UNIX", "LOCAL", "UNSPEC", "UNSPECP"])
    tlv = bytes(rng.randrange(256) for _ in range(rng.choice([0, 0, 3, 7])))
    rb = lambda n: bytes(rng.choice([0, 1, 255, rng.randrange(256)]) for _ in range(n))
    ports = struct.pack("!HH", rng.choice([0, 80, 65535, rng.randrange(65536)]), rng.choice([0, 443, 65535, rng.randrange(65536)]))
    if kind == "LOCAL":
        vc, fp, body = 0x20, rng.choice([0x00, 0x11, 0x21]), rb(rng.choice([0, 12]))
    elif kind == "UNSPEC":
        vc, fp, body = 0x21, 0x00, rb(rng.choice([0, 4]))
    elif kind == "UNSPECP":
        vc, fp, body = 0x21, rng.choice([0x10, 0x20, 0x30, 0x01, 0x02]), rb(rng.choice([0, 12]))
    elif kind in ("TCP4", "UDP4"):
        vc, fp, body = 0x21, 0x11 if kind == "TCP4" else 0x12, rb(8) + ports + tlv
    elif kind in ("TCP6", "UDP6"):
        vc, fp, body = 0x21, 0x21 if kind == "TCP6" else 0x22, rb(32) + ports + tlv
    else:
        path = lambda: (b"/" + bytes(rng.choice(b"abc/\x00") for _ in range(rng.choice([0, 3, 20, 107])))).ljust(108, b"\0")[:108]
        vc, fp, body = 0x21, rng.choice([0x31, 0x32]), path() + path() + tlv
    return V2PREFIX + bytes([vc, fp]) + struct.pack("!H", len(body)) + body


def payload(rng):
    return rng.choice([b"", b"x", b"GET / HTTP/1.1\r\n\r\n", b"\r\n", b"PROXY TCP4 1.1.1.1 2.2.2.2 1 2\r\n", V2PREFIX,
                       bytes(rng.randrange(256) for _ in range(rng.randrange(1, 40)))])


def mutate(rng, h):
    h = bytearray(h)
    r = rng.random()
    if r < 0.3 and h:
        i = rng.randrange(min(len(h), 20))
        h[i] = rng.choice([h[i] ^ 1, h[i] ^ 0x20, 0, 32, 255, 48])
    elif r < 0.45:
        del h[rng.randrange(len(h))]
    elif r < 0.6:
        h.insert(rng.randrange(len(h) + 1), rng.choice(b" \r\nP0\x00\xff"))
    elif r < 0.75:
        h = h[:rng.randrange(len(h))]
    else:
        pool = [b"PROXY TCP4 1.1.1.1 2.2.2.2 a 2\r\n", b"PROXY TCP4 1.1.1.1 2.2.2.2 1 \r\n", b"PROXY TCP4 1.1.1.1 2.2.2.2 1\r\n",
                b"PROXY  TCP4 1.1.1.1 2.2.2.2 1 2\r\n", b"PROXY TCP4  1.1.1.1 2.2.2.2 1 2\r\n", b"PROXY TCP4 \xff 2.2.2.2 1 2\r\n",
                b"PROXY TCP4 foo bar 1_0 +2 extra stuff\r\n", b"PROXY TCP4 1.1.1.1 2.2.2.2 -1 99999\r\n",
                b"PROXY TCP6 1.1.1.1 2.2.2.2 1 2\r\n", b"PROXY TCP4 ::1 ::2 1 2\r\n", b"PROXY TCP4 1.1.1.1 2.2.2.2 01 2\r\n",
                b"PROXY TCP5 1.1.1.1 2.2.2.2 1 2\r\n", b"PROXY UNKNOWN" + b"x" * 100 + b"\r\n", b"PROXY TCP4 1.1.1.1 2.2.2.2 1 2 \r\n",
                b"PROXY TCP4 1.1.1.1 2.2.2.2 1 2\n", b"PROXY\r\n", b"PROXY \r\n", b"PROXY TCP4\r\n", b"NOTPROXY x\r\n", b"proxy unknown\r\n",
                b"PROXY UNKNOWN " + b"y" * 120 + b"\r\n", b"PROXY TCP4 1.1.1.1 2.2.2.2 \t1 2\r\n",
                V2PREFIX + b"\x31\x11\x00\x0c" + bytes(12), V2PREFIX + b"\x22\x11\x00\x0c" + bytes(12), V2PREFIX + b"\x21\x41\x00\x00",
                V2PREFIX + b"\x21\x13\x00\x0c" + bytes(12), V2PREFIX + b"\x21\x11\x00\x05" + bytes(5), V2PREFIX + b"\x21\x21\x00\x23" + bytes(35),
                V2PREFIX + b"\x21\x31\x00\xd7" + bytes(215), V2PREFIX[:11] + b"\x0b\x21\x11\x00\x0c" + bytes(12)]
        h = bytearray(rng.choice(pool))
    return bytes(h)


def random_split(rng, s):
    out, i = [], 0
    while i < len(s):
        k = rng.choice([1, 2, 3, 5, 7, 8, 9, 15, 16, 17, 30, 120])
        out.append(s[i:i + k])
        i += k
    if out and rng.random() < 0.15:
        out.insert(rng.randrange(len(out) + 1), b"")
    return out


def fam(stream, lim, desc):
    return {"stream": stream.hex(), "lim": lim, "family": "splits", "desc": desc}


def gen(rng, tier):
    cases = []
    thorough = tier == "thorough"
    n = 60 if not thorough else 1500
    for _ in range(n):
        v = rng.choice([1, 2])
        h = v1_header(rng) if v == 1 else v2_header(rng)
        s = h + payload(rng)
        cases.append(fam(s, 18 if not thorough else 24, f"v{v}-valid"))
    for _ in range(n):
        v = rng.choice([1, 2])
        h = mutate(rng, v1_header(rng) if v == 1 else v2_header(rng))
        s = h + payload(rng)
        cases.append(fam(s, 6 if not thorough else 17, f"v{v}-mutated"))
    # version 2: EVERY family/protocol byte, with the LOCAL command (always accepted, byte ignored) and with the PROXY
    # command (12 defined address families x protocols + UNSPEC accepted, the rest refused)
    for fp in range(256):
        for vc in (0x20, 0x21):
            need = {1: 12, 2: 36, 3: 216}.get(fp >> 4, 0)
            blen = rng.choice([0, 0, 5, need, need + 3]) if vc == 0x20 else rng.choice([need, need, need + 4, max(0, need - 1)])
            body = bytes(rng.choice([0, 1, 255, rng.randrange(256)]) for _ in range(blen))
            s = V2PREFIX + bytes([vc, fp]) + struct.pack("!H", blen) + body + rng.choice([b"", b"x", b"GET /\r\n"])
            desc = "v2-local-anybyte" if vc == 0x20 else "v2-proxy-anybyte"
            cases.append({"chunks": [s.hex()], "desc": desc})
            cut = rng.randrange(1, len(s))
            cases.append({"chunks": [s[:cut].hex(), s[cut:].hex()], "desc": desc})
            if fp % 16 in (0, 3, 15) or fp >> 4 in (0, 4, 15):
                if len(s) < 80:
                    cases.append(fam(s, 6 if not thorough else 17, desc))
    # the 107-byte limit of version 1, with and without the CRLF, whole and cut around the limit
    for total in range(104, 111):
        body = b"PROXY UNKNOWN " + bytes(rng.choice(b"xyz 09:") for _ in range(total - 14))
        for s in (body, body + b"\r", body[:-2] + b"\r\n", body[:-2] + b"\r\npayload"):
            cases.append({"chunks": [s.hex()], "desc": "v1-limit"})
            for cut in (100, 105, 106, 107, 108):
                if cut < len(s):
                    cases.append({"chunks": [s[:cut].hex(), s[cut:].hex()], "desc": "v1-limit"})
    for _ in range(4 * n):
        v = rng.choice([1, 2])
        h = v1_header(rng) if v == 1 else v2_header(rng)
        if rng.random() < 0.4:
            h = mutate(rng, h)
        s = h + payload(rng) + payload(rng)
        cases.append({"chunks": [c.hex() for c in random_split(rng, s)], "desc": f"v{v}-random-split"})
    return cases


def corpus():
    h4 = V2PREFIX + b"\x21\x11" + struct.pack("!H", 12) + bytes([1, 2, 3, 4, 5, 6, 7, 8]) + struct.pack("!HH", 80, 81)
    c = lambda chunks, desc: {"chunks": [x.hex() for x in chunks], "desc": desc}
    return [
        # DESIGN.md section 6, F19
        c([b"PROXY", b" TCP4 1.1.1.1 2.2.2.2 1 2\r\nabc"], "F19 v1 first delivery < 8"),
        c([h4[:10], h4[10:] + b"xyz"], "F19 v2 first delivery < 16"),
        c([b"PROXY TCP4 1.1.1.1 2.2.2.2 1 2\r\nabc"], "v1 whole"),
        c([h4 + b"xyz"], "v2 whole"),
        # LOCAL command: the family/protocol byte is ignored, whatever it is
        c([V2PREFIX + b"\x20\xff\x00\x00" + b"health"], "v2 LOCAL with family/protocol byte 0xff"),
        c([V2PREFIX + b"\x20\x03\x00\x03abc", b"xyz"], "v2 LOCAL with protocol nibble 3 and 3 ignored bytes"),
        c([V2PREFIX + b"\x20\x40\x00\x00"], "v2 LOCAL with family nibble 4"),
        # found while modelling
        c([b"PROXY UNKNOWN " + b"x" * 150 + b"\r\nabc"], "v1 line of 166 bytes accepted at once"),
        c([b"PROXY UNKNOWN " + b"x" * 100, b"x" * 50 + b"\r\nabc"], "... refused when split"),
        c([b"PROXY UNKNOWN\r\nabc"], "minimal UNKNOWN header of the specification"),
        c([b"PROXY TCP4 1.1.1.1 2.2.2.2 a 2\r\nabc"], "non-numeric port: ValueError escapes"),
        c([b"PROXY TCP4 \xff 2.2.2.2 1 2\r\nabc"], "undecodable address: UnicodeDecodeError escapes"),
        c([b"PROXY TCP4 foo bar 1_0 +2 extra stuff\r\nabc"], "lax fields"),
        c([b"PROXY TCP4 1.1.1.1 2.2.2.2 1 2\r\n" + b"z" * 200], "long payload in the first delivery"),
    ]


# --------------------------------------------------------------------------------------------------
# model side


def _modelled(stream: bytes) -> bool:
    """v1 lines whose port tokens are not plain ASCII digits although int() accepts them, or whose
    address tokens are not ASCII, are outside the modelled fragment (see coq/C47/Model.v)"""
    if not stream.startswith(b"PROXY"):
        return True
    i = stream.find(b"\r\n")
    if i < 0:
        return True
    f = stream[:i].split(b" ")
    if len(f) < 6 or f[1] not in (b"TCP4", b"TCP6"):
        return True
    for tok in f[4:6]:
        if not (tok.isdigit() and tok.isascii()):
            try:
                int(tok)
                return False
            except ValueError:
                pass
    return all(t.isascii() for t in f[2:4])


def to_coq(case):
    if "family" in case:
        s = bytes.fromhex(case["stream"])
        if not _modelled(s):
            return None
        return f"inr (false, {case['lim']}%nat, {coq_bytes(s)})"
    chunks = [bytes.fromhex(c) for c in case["chunks"]]
    if not _modelled(b"".join(chunks)):
        return None
    return "inl (false, " + coq_list([coq_bytes(c) for c in chunks], "(list N)") + ")"


def shrink(case):
    if "family" in case:
        return
    chunks = case["chunks"]
    for i in range(len(chunks) - 1):
        yield {**case, "chunks": chunks[:i] + [chunks[i] + chunks[i + 1]] + chunks[i + 2:]}
    if len(chunks) > 1 and len(chunks[-1]) > 0:
        yield {**case, "chunks": chunks[:-1] + [chunks[-1][:-2]]}


SPEC = Spec(
    pid="C47",
    gen=gen, impl=impl, oracle=oracle, corpus=corpus, shrink=shrink,
    coq_header="From TwLib Require Import PyBytes Seg.\nFrom C47 Require Import Model Run.",
    coq_fn="run_case",
    to_coq=to_coq,
    nontrivial=lambda c, o: "data=" in o and ("T4" in o or "T6" in o or "U" in o or "X(" in o or "closed" in o),
    histogram=lambda c, o: c.get("desc", "?").split(" ")[0],
    extra=lambda ctx: {"chunkings_run": CHUNKINGS[0]},
    rule="PROXY v1 (TCP4, TCP6, UNKNOWN with and without trailing text, lines of 105-109 bytes) and v2 (PROXY/LOCAL x "
         "TCP4/UDP4/TCP6/UDP6/UNIX/UNSPEC, with TLV bytes) headers followed by payloads (incl. payloads that look like "
         "headers); for each stream the whole delivery, EVERY 2-split, every 3-split with both cuts in the first 18 (6 "
         "for mutated; thorough 24/17) bytes and the byte-by-byte delivery, plus random splits; a separate malformed "
         "stream (byte flips, deletions, truncations, 30 hand-written invalid/lax headers); "
         "non-trivial = an address was reported or the connection closed; distinct by (case, observation)",
    trusted=["hand-written model coq/C47/Model.v (tied by this correspondence run only)",
             "coq/Lib/PyBytes.v: split(sep, 1) / int.from_bytes / str(int) as the assumed semantics of the CPython builtins",
             "struct.unpack('!4s4s2H' ...) = fixed-offset slices + big-endian integers; '%x' / '%i' formatting"],
    assumptions=["v1 port tokens are modelled when they are ASCII digits only (int() of other accepted spellings such as "
                 "'+1', '1_0', ' 1' is outside the model and reported under the known finding), address tokens when ASCII"],
)
