"""C27 — RedirectAgent / BrowserLikeRedirectAgent (twisted.web.client).

H-tie: coq/C27/Model.v (+ coq/Lib/Uri.v, the transcription of urllib's urljoin/urldefrag and of
URI.fromBytes) evaluated by vm_compute against the real agents wrapped around a fake inner agent.
Cases of kind "join" validate Uri.v against twisted's _urljoin / URI.fromBytes (i.e. CPython's
urllib.parse) directly.  Oracle: the property evaluated on the recorded requests with the standard
library's urljoin as the reference resolver and an independent walk of the redirect rules.
"""
from __future__ import annotations

import re
from urllib.parse import urldefrag, urljoin, urlsplit

from harness.common import Failure, Spec, coq_bytes, coq_list, coq_N, coq_option

H = bytes.fromhex
DEFAULT_SENSITIVE = [b"Authorization", b"Cookie", b"Cookie2", b"Proxy-Authorization", b"WWW-Authenticate"]
R_CODES = {False: ([301, 302, 307, 308], [303]), True: ([307], [301, 302, 303, 308])}

# ------------------------------------------------------------------------------------------
# implementation driver


def _canon(name: bytes) -> bytes:
    return b"-".join(w.capitalize() for w in name.split(b"-"))


def _show_h(hs):
    if hs is None:
        return "-"
    return "{" + ";".join(n.hex() + "=" + ",".join(v.hex() for v in vs) for n, vs in hs) + "}"


def impl_multi(case) -> str:
    """2-3 redirect chains in flight through ONE agent object; the wrapped agent's Deferreds are fired in the order
    given by case['sched'] (['start', i] / ['answer', i])"""
    from twisted.internet.defer import Deferred
    from twisted.web import client
    from twisted.web._newclient import Response
    from twisted.web.http_headers import Headers

    chains = case["chains"]
    n = len(chains)
    issued = [[] for _ in range(n)]
    pending = [None] * n
    scripts = [list(c["resps"]) for c in chains]
    outs = [[] for _ in range(n)]
    cur = {"i": None}

    class FakeAgent:
        def request(self, method, uri, headers=None, bodyProducer=None):
            i = cur["i"]
            hs = None if headers is None else [(nm, list(vs)) for nm, vs in headers.getAllRawHeaders()]
            issued[i].append((method, uri, hs))
            pending[i] = Deferred()
            return pending[i]

    cls = client.BrowserLikeRedirectAgent if case["browser"] else client.RedirectAgent
    agent = cls(FakeAgent(), redirectLimit=case["limit"], sensitiveHeaderNames=[H(x) for x in case["extra_sensitive"]])

    def ok(i, resp):
        k = 0
        r = resp
        while getattr(r, "previousResponse", None) is not None:
            k += 1
            r = r.previousResponse
        outs[i].append(f"final:{resp.code}/{k}")

    def err(i, f):
        if f.check(client.ResponseFailed) and len(f.value.reasons) == 1:
            outs[i].append(f"err:{f.value.reasons[0].type.__name__}:{f.value.response.code}")
        else:
            outs[i].append("err?" + f.type.__name__)

    for step, i in case["sched"]:
        cur["i"] = i
        c = chains[i]
        if step == "start":
            headers = None
            if c["headers"] is not None:
                headers = Headers()
                for nm, vs in c["headers"]:
                    headers.setRawHeaders(H(nm), [H(v) for v in vs])
            d = agent.request(H(c["method"]), H(c["uri"]), headers)
            d.addCallbacks(lambda r, i=i: ok(i, r), lambda f, i=i: err(i, f))
        else:
            d, pending[i] = pending[i], None
            if d is None or not scripts[i]:
                pending[i] = d
                continue
            code, locs = scripts[i].pop(0)
            rh = Headers()
            if locs:
                rh.setRawHeaders(b"location", [H(x) for x in locs])
            d.callback(Response((b"HTTP", 1, 1), code, b"OK", rh, None))
    parts = []
    for i in range(n):
        if len(outs[i]) > 1:
            return "fired-twice"
        parts.append(" ".join(f"{m.hex()}:{u.hex()}:{_show_h(hs)}" for m, u, hs in issued[i]) + "|"
                     + (outs[i][0] if outs[i] else "waiting"))
    return " ## ".join(parts)


def impl(case) -> str:
    from twisted.internet.defer import Deferred, succeed
    from twisted.web import client
    from twisted.web._newclient import Response
    from twisted.web.http_headers import Headers

    if case["kind"] == "join":
        j = client._urljoin(H(case["base"]), H(case["ref"]))
        u = client.URI.fromBytes(j)
        return f"{j.hex()}|{u.scheme.hex()},{u.host.hex()},{u.port}"

    if case["kind"] == "multi":
        return impl_multi(case)
    issued = []
    script = list(case["resps"])

    class FakeAgent:
        def request(self, method, uri, headers=None, bodyProducer=None):
            hs = None if headers is None else [(n, list(vs)) for n, vs in headers.getAllRawHeaders()]
            issued.append((method, uri, hs))
            if not script:
                return Deferred()
            code, locs = script.pop(0)
            rh = Headers()
            if locs:
                rh.setRawHeaders(b"location", [H(x) for x in locs])
            return succeed(Response((b"HTTP", 1, 1), code, b"OK", rh, None))

    cls = client.BrowserLikeRedirectAgent if case["browser"] else client.RedirectAgent
    agent = cls(FakeAgent(), redirectLimit=case["limit"], sensitiveHeaderNames=[H(x) for x in case["extra_sensitive"]])
    headers = None
    if case["headers"] is not None:
        headers = Headers()
        for n, vs in case["headers"]:
            headers.setRawHeaders(H(n), [H(v) for v in vs])
    d = agent.request(H(case["method"]), H(case["uri"]), headers)
    out = []

    def ok(resp):
        n = 0
        r = resp
        while getattr(r, "previousResponse", None) is not None:
            n += 1
            r = r.previousResponse
        out.append(f"final:{resp.code}/{n}")

    def err(f):
        if f.check(client.ResponseFailed) and len(f.value.reasons) == 1:
            out.append(f"err:{f.value.reasons[0].type.__name__}:{f.value.response.code}")
        else:
            out.append("err?" + f.type.__name__)

    d.addCallbacks(ok, err)
    if len(out) > 1:
        return "fired-twice"

    def show_h(hs):
        if hs is None:
            return "-"
        return "{" + ";".join(n.hex() + "=" + ",".join(v.hex() for v in vs) for n, vs in hs) + "}"

    return " ".join(f"{m.hex()}:{u.hex()}:{show_h(hs)}" for m, u, hs in issued) + "|" + (out[0] if out else "waiting")


# ------------------------------------------------------------------------------------------
# the property on the implementation's observation


def ref_join(base: bytes, ref: bytes) -> bytes:
    """reference resolution (RFC 3986 5.2 as the standard library implements it) + the documented rule that the
    base's fragment survives unless the reference has one"""
    b, bf = urldefrag(base)
    u, uf = urldefrag(urljoin(b, ref))
    return urljoin(u, b"#" + (uf or bf))


def lax_origin(u: bytes):
    s = urlsplit(u)
    try:
        port = s.port
    except ValueError:
        port = "?" + s.netloc.decode("latin1")
    if port is None:
        port = 443 if s.scheme == b"https" else 80
    return (s.scheme, s.hostname, port)


def strict_same(u: bytes, v: bytes) -> bool:
    a, b = urlsplit(u), urlsplit(v)
    return a.scheme == b.scheme and a.netloc == b.netloc


def parse_obs(obs):
    reqs_s, out = obs.rsplit("|", 1)
    reqs = []
    for r in reqs_s.split(" "):
        m, u, hs = r.split(":")
        if hs == "-":
            h = None
        else:
            h = []
            for item in hs[1:-1].split(";"):
                if item:
                    n, vs = item.split("=")
                    h.append((H(n), [H(v) for v in vs.split(",")] if vs else []))
        reqs.append((H(m), H(u), h))
    return reqs, out


def answers(case, i):
    """how many responses chain i has been given by the schedule"""
    return sum(1 for st, j in case["sched"] if st == "answer" and j == i)


def oracle(case, obs):
    if case["kind"] == "multi":
        if obs == "fired-twice":
            return Failure(case, "a chain's Deferred fired twice", "driver")
        parts = obs.split(" ## ")
        if len(parts) != len(case["chains"]):
            return Failure(case, "driver anomaly: " + obs[:100], "driver")
        for i, (c, part) in enumerate(zip(case["chains"], parts)):
            sub = {"kind": "chain", "browser": case["browser"], "limit": case["limit"],
                   "extra_sensitive": case["extra_sensitive"], "method": c["method"], "uri": c["uri"],
                   "headers": c["headers"], "resps": c["resps"][:answers(case, i)]}
            f = oracle(sub, part)
            if f is not None:
                return Failure(case, f"chain {i} of {len(parts)} in flight through one agent: " + f.reason,
                               "concurrent-" + f.tag)
        return None
    if case["kind"] == "join":
        j = H(obs.split("|")[0])
        want = ref_join(H(case["base"]), H(case["ref"]))
        if j != want:
            return Failure(case, f"_urljoin gives {j!r}, the standard library composition {want!r}", "join")
        return None
    if "|" not in obs or obs.startswith(("fired", "err?")):
        return Failure(case, "driver anomaly: " + obs[:100], "driver")
    reqs, out = parse_obs(obs)
    method, uri = H(case["method"]), H(case["uri"])
    h0 = None if case["headers"] is None else [(H(n), [H(v) for v in vs]) for n, vs in case["headers"]]
    if reqs[0] != (method, uri, h0):
        return Failure(case, "the first request is not the caller's", "first-request")
    rcodes, scodes = R_CODES[case["browser"]]
    sens = set(DEFAULT_SENSITIVE) | {_canon(H(x)) for x in case["extra_sensitive"]}
    resps = case["resps"]
    # --- independent walk of the redirect rules: how far may the agent go, and how must it end -----
    m = method
    k = 0
    expect_out = "waiting"
    methods = [m]
    while k < len(resps):
        code, locs = resps[k]
        if code in rcodes:
            if m not in (b"GET", b"HEAD"):
                expect_out = f"err:PageRedirect:{code}"
                break
        elif code in scodes:
            m = b"GET"
        else:
            expect_out = f"final:{code}/{k}"
            break
        if k >= case["limit"]:
            expect_out = f"err:InfiniteRedirection:{code}"
            break
        if not locs:
            expect_out = f"err:RedirectWithNoLocation:{code}"
            break
        methods.append(m)
        k += 1
    followed = len(reqs) - 1
    if followed > case["limit"]:
        return Failure(case, f"{followed} redirects followed with redirectLimit={case['limit']}", "limit-exceeded")
    if followed != k or out != expect_out:
        tag = "limit" if "Infinite" in (out + expect_out) else "outcome"
        return Failure(case, f"followed {followed} redirects and ended with {out}; the documented rules give {k} and "
                       f"{expect_out}", tag)
    # --- per hop -------------------------------------------------------------------------------
    for i in range(1, len(reqs)):
        mi, ui, hi = reqs[i]
        prev_uri = reqs[i - 1][1]
        loc = H(resps[i - 1][1][0])
        want = ref_join(prev_uri, loc)
        if ui != want:
            if i >= 2 and ui == ref_join(uri, loc):
                return Failure(case, f"hop {i}: Location {loc!r} received by {prev_uri!r} was resolved against the ORIGINAL "
                               f"uri {uri!r}: requested {ui!r}, should be {want!r}",
                               "location-resolved-against-original-uri")
            return Failure(case, f"hop {i}: Location {loc!r} received by {prev_uri!r}: requested {ui!r}, should be {want!r}",
                           "location-resolution")
        if mi != methods[i]:
            return Failure(case, f"hop {i}: method {mi!r}, the rules give {methods[i]!r}", "method")
        if (hi is None) != (h0 is None):
            return Failure(case, f"hop {i}: headers None-ness changed", "headers-none")
        if h0 is not None:
            if [h for h in hi if h[0] not in sens] != [h for h in h0 if h[0] not in sens]:
                return Failure(case, f"hop {i}: a non-sensitive header was dropped or changed", "headers-nonsensitive")
            kept = [h for h in hi if h[0] in sens]
            if kept and lax_origin(ui) != lax_origin(uri):
                return Failure(case, f"hop {i}: sensitive header(s) {[h[0] for h in kept]} sent to {ui!r}, a different "
                               f"origin than {uri!r}", "sensitive-leak")
            if kept and kept != [h for h in h0 if h[0] in sens]:
                return Failure(case, f"hop {i}: sensitive headers partially kept", "sensitive-partial")
            if not kept and any(h[0] in sens for h in h0) and all(strict_same(reqs[j][1], uri) for j in range(1, i + 1)):
                return Failure(case, f"hop {i}: sensitive headers dropped although every hop stayed on the origin",
                               "sensitive-overstrip")
    return None


# ------------------------------------------------------------------------------------------
# generator

SAFE = set(b"ABCDEFGHIJKLMNOPQRSTUVWXYZabcdefghijklmnopqrstuvwxyz0123456789-.~/?#:@=&%,")
HOSTS = [b"a.example", b"b.example", b"a.example:8080", b"a.example:80", b"A.example", b"user@a.example",
         b"a.example:443", b"c.example:x", b"a.example:"]
SEGS = [b"p", b"q", b"x", b"y", b"..", b".", b"", b"a.b", b"z"]


def _path(rng, absolute=True, n=None):
    n = rng.choice([0, 1, 1, 2, 3, 4]) if n is None else n
    segs = [rng.choice(SEGS) for _ in range(n)]
    p = b"/".join(segs)
    if absolute:
        p = b"/" + p
    if rng.random() < 0.3 and p and not p.endswith(b"/"):
        p += b"/"
    return p


def _suffix(rng):
    s = b""
    if rng.random() < 0.25:
        s += b"?" + rng.choice([b"q=1", b"a=b&c=d", b"x/y", b"x?y"])
    if rng.random() < 0.2:
        s += b"#" + rng.choice([b"f", b"frag/x", b"a?b"])
    return s


def _abs(rng, scheme=None, host=None):
    scheme = scheme or rng.choice([b"http", b"http", b"https"])
    host = host or rng.choice(HOSTS)
    return scheme + b"://" + host + (rng.choice([b"", _path(rng)]) if rng.random() < 0.2 else _path(rng)) + _suffix(rng)


def _location(rng):
    k = rng.random()
    if k < 0.3:
        return _abs(rng)
    if k < 0.36:
        return b"//" + rng.choice(HOSTS) + _path(rng) + _suffix(rng)
    if k < 0.55:
        return _path(rng, absolute=True) + _suffix(rng)
    if k < 0.85:
        p = _path(rng, absolute=False, n=rng.choice([1, 1, 2, 3]))
        return p + _suffix(rng)
    if k < 0.9:
        return b"?" + rng.choice([b"q=2", b"z"]) + rng.choice([b"", b"#g"])
    if k < 0.94:
        return b"#" + rng.choice([b"g", b"top"])
    if k < 0.96:
        return rng.choice([b"ftp://f.example/d/", b"mailto:me@a.example", b"HTTP://a.example/UP", b"x:y", b"http:rel",
                           b"http:/one", b"https:///nohost"])
    if k < 0.98:
        return b""
    return bytes(rng.choice(sorted(SAFE)) for _ in range(rng.choice([1, 2, 4, 9])))


def _headers(rng):
    if rng.random() < 0.15:
        return None
    pool = [(b"Authorization", [b"Basic abc"]), (b"Cookie", [b"a=1", b"b=2"]), (b"Accept", [b"*/*"]),
            (b"X-Token", [b"t"]), (b"User-Agent", [b"ua"]), (b"Proxy-Authorization", [b"p"]), (b"Cookie2", [b"c"]),
            (b"X-Empty", [])]
    hs = rng.sample(pool, rng.choice([0, 1, 2, 3, 4]))
    return [[n.hex(), [v.hex() for v in vs]] for n, vs in hs]


def _chain(rng, nmax=8):
    browser = rng.random() < 0.3
    n = rng.randrange(nmax + 1)
    resps = []
    for i in range(n):
        code = rng.choice([301, 302, 302, 303, 307, 308])
        if rng.random() < 0.04:
            locs = []
        else:
            locs = [_location(rng).hex()]
            if rng.random() < 0.05:
                locs.append(_abs(rng).hex())
        resps.append([code, locs])
    if rng.random() < 0.9:
        resps.append([rng.choice([200, 200, 404, 304, 300, 204]), [] if rng.random() < 0.8 else [_abs(rng).hex()]])
    limit = rng.choice([20, 20, 20, n, max(0, n - 1), n + 1, 0, 1, 2])
    method = rng.choice([b"GET", b"GET", b"GET", b"HEAD", b"POST", b"PUT", b"get"])
    return {"kind": "chain", "browser": browser, "limit": limit,
            "extra_sensitive": [b"x-token".hex()] if rng.random() < 0.3 else [],
            "method": method.hex(), "uri": _abs(rng, host=rng.choice(HOSTS[:6])).hex(), "headers": _headers(rng),
            "resps": resps}


def _interleave(rng, chains):
    """a random schedule: every chain is started, then answered as often as its script is long, in any interleaving
    (a chain's first answer comes after its start)"""
    tokens = []
    for i, c in enumerate(chains):
        tokens.append([["start", i]] + [["answer", i]] * (len(c["resps"]) + rng.choice([0, 0, 1])))
    sched = []
    while any(tokens):
        i = rng.choice([k for k, t in enumerate(tokens) if t])
        sched.append(tokens[i].pop(0))
    return sched


def _multi(rng, nchains=None):
    base = _chain(rng, nmax=4)
    chains = []
    for _ in range(nchains or rng.choice([2, 2, 3])):
        c = _chain(rng, nmax=4)
        chains.append({k: c[k] for k in ("method", "uri", "headers", "resps")})
    return {"kind": "multi", "browser": base["browser"], "limit": rng.choice([20, 20, 2, 1]),
            "extra_sensitive": base["extra_sensitive"], "chains": chains, "sched": _interleave(rng, chains)}


def _cross_talk_block(rng, tier):
    """chain 0 to origin A with credentials, chain 1 to origin B started through the same agent before chain 0 is
    answered, chain 0 then redirected to B (and variants: three chains, relative redirects, every order of answers)"""
    out = []
    creds = [[b"Authorization".hex(), [b"Basic abc".hex()]], [b"Cookie".hex(), [b"a=1".hex()]],
             [b"Proxy-Authorization".hex(), [b"p".hex()]], [b"X-Token".hex(), [b"t".hex()]],
             [b"Accept".hex(), [b"*/*".hex()]]]
    A, B, C = b"http://a.example/p/q", b"http://b.example/x/y", b"https://a.example/s"
    for browser in (False, True):
        for code in (301, 302, 303, 307, 308):
            for target in (B + b"/z", b"//b.example/n", C, b"/same/origin", b"http://b.example:8080/"):
                chain0 = {"method": b"GET".hex(), "uri": A.hex(), "headers": creds,
                          "resps": [[code, [target.hex()]], [200, []]]}
                chain1 = {"method": b"GET".hex(), "uri": B.hex(), "headers": [[b"Cookie".hex(), [b"b=2".hex()]]],
                          "resps": [[200, []]]}
                chain2 = {"method": b"HEAD".hex(), "uri": C.hex(), "headers": None, "resps": [[302, [b"/t".hex()]], [204, []]]}
                for chains in ([chain0, chain1], [chain1, chain0], [chain0, chain1, chain2]):
                    i0 = chains.index(chain0)
                    scheds = [
                        [["start", k] for k in range(len(chains))] + [["answer", i0], ["answer", i0]]
                        + [["answer", k] for k in range(len(chains)) if k != i0],
                        [["start", i0]] + [["start", k] for k in range(len(chains)) if k != i0]
                        + [["answer", k] for k in range(len(chains)) if k != i0] + [["answer", i0], ["answer", i0]],
                    ]
                    if tier != "quick":
                        scheds += [_interleave(rng, chains) for _ in range(3)]
                    for sched in scheds:
                        out.append({"kind": "multi", "browser": browser, "limit": 20, "extra_sensitive": [b"x-token".hex()],
                                    "chains": chains, "sched": sched})
    return out


def gen(rng, tier):
    big = tier != "quick"
    cases = _cross_talk_block(rng, tier)
    for _ in range(150 if not big else 8000):
        cases.append(_multi(rng))
    for _ in range(700 if not big else 30000):
        cases.append(_chain(rng))
    # second hop relative, systematically (the F9 class): every kind of relative reference after a cross-origin hop
    rels = [b"z", b"./z", b"../z", b"z/", b"?k=v", b"#f", b"/abs", b"", b"../../z", b"a/b/../c", b"//b.example/n"]
    for r1 in [b"http://b.example/x/y/", b"/m/n/o", b"d/e", b"https://a.example/s/t"]:
        for r2 in rels:
            for code in ([302, 307] if not big else [301, 302, 303, 307, 308]):
                cases.append({"kind": "chain", "browser": False, "limit": 20, "extra_sensitive": [],
                              "method": b"GET".hex(), "uri": b"http://a.example/p/q".hex(),
                              "headers": [[b"Authorization".hex(), [b"s".hex()]], [b"Accept".hex(), [b"*".hex()]]],
                              "resps": [[code, [r1.hex()]], [code, [r2.hex()]], [200, []]]})
    # Uri.v against urllib / URI.fromBytes
    for _ in range(500 if not big else 30000):
        base = _abs(rng) if rng.random() < 0.9 else _location(rng)
        cases.append({"kind": "join", "base": base.hex(), "ref": _location(rng).hex()})
    # RFC 3986 5.4 reference examples
    for ref in RFC_EXAMPLES:
        cases.append({"kind": "join", "base": b"http://a/b/c/d?q".hex(), "ref": ref.hex()})
        cases.append({"kind": "join", "base": b"http://a/b/c/d?q#bf".hex(), "ref": ref.hex()})
    return cases


RFC_EXAMPLES = [b"g:h", b"g", b"./g", b"g/", b"/g", b"//g", b"?y", b"g?y", b"#s", b"g#s", b"g?y#s", b"", b".", b"./",
                b"..", b"../", b"../g", b"../..", b"../../", b"../../g", b"../../../g", b"../../../../g", b"/./g",
                b"/../g", b"g.", b".g", b"g..", b"..g", b"./../g", b"./g/.", b"g/./h", b"g/../h", b"g?y/./x",
                b"g#s/./x", b"http:g"]


def corpus():
    f9 = {"kind": "chain", "browser": False, "limit": 20, "extra_sensitive": [], "method": b"GET".hex(),
          "uri": b"http://a.example/p/q".hex(), "headers": None,
          "resps": [[302, [b"http://b.example/x/y/".hex()]], [302, [b"z".hex()]], [200, []]]}
    return [
        f9,
        {**f9, "headers": [[b"Authorization".hex(), [b"secret".hex()]]]},
        {**f9, "resps": [[302, [b"/x/y/".hex()]], [302, [b"z".hex()]], [302, [b"../w".hex()]], [200, []]]},
        {**f9, "limit": 1},
        {**f9, "method": b"POST".hex(), "resps": [[303, [b"/see".hex()]], [307, [b"other".hex()]], [200, []]]},
        {**f9, "browser": True, "method": b"POST".hex(), "resps": [[308, [b"/x".hex()]], [200, []]]},
    ]


# ------------------------------------------------------------------------------------------
# model side


def _modelled_bytes(b: bytes) -> bool:
    return all(c in SAFE for c in b) and b":-" not in b


def _cfg(case):
    rcodes, scodes = R_CODES[case["browser"]]
    sens = [_canon(H(x)) for x in case["extra_sensitive"]]
    return (f"(mkConfig {coq_list((coq_N(c) for c in rcodes), 'N')} {coq_list((coq_N(c) for c in scodes), 'N')} "
            f"{coq_N(case['limit'])} ({coq_list((coq_bytes(s) for s in sens), '(list N)')} ++ default_sensitive))")


def _coq_headers(hs):
    if hs is None:
        return "(@None headers)"
    return "(Some " + coq_list((f"({coq_bytes(H(n))}, {coq_list((coq_bytes(H(v)) for v in vs), '(list N)')})"
                                for n, vs in hs), "(list N * list (list N))%type") + ")"


def _coq_resps(resps):
    return coq_list((f"(mkResponse {coq_N(c)} {coq_list((coq_bytes(H(x)) for x in locs), '(list N)')})"
                     for c, locs in resps), "response")


def to_coq(case):
    if case["kind"] == "multi":
        strs = [H(c["uri"]) for c in case["chains"]] + [H(x) for c in case["chains"] for _, locs in c["resps"] for x in locs]
        if not all(_modelled_bytes(s) for s in strs):
            return None
        chains = coq_list((f"({coq_bytes(H(c['method']))}, {coq_bytes(H(c['uri']))}, {_coq_headers(c['headers'])}, "
                           f"{_coq_resps(c['resps'])})" for c in case["chains"]),
                          "(list N * list N * option headers * list response)%type")
        sched = coq_list((f"{j}%nat" for st, j in case["sched"] if st == "answer"), "nat")
        return f"(CMulti {_cfg(case)} {chains} {sched})"
    if case["kind"] == "join":
        b, r = H(case["base"]), H(case["ref"])
        if not (_modelled_bytes(b) and _modelled_bytes(r)):
            return None
        return f"(CJoin {coq_bytes(b)} {coq_bytes(r)})"
    strs = [H(case["uri"])] + [H(x) for _, locs in case["resps"] for x in locs]
    if not all(_modelled_bytes(s) for s in strs):
        return None
    rcodes, scodes = R_CODES[case["browser"]]
    sens = [_canon(H(x)) for x in case["extra_sensitive"]]
    cfg = (f"(mkConfig {coq_list((coq_N(c) for c in rcodes), 'N')} {coq_list((coq_N(c) for c in scodes), 'N')} "
           f"{coq_N(case['limit'])} ({coq_list((coq_bytes(s) for s in sens), '(list N)')} ++ default_sensitive))")
    if case["headers"] is None:
        hs = "(@None headers)"
    else:
        hs = "(Some " + coq_list((f"({coq_bytes(H(n))}, {coq_list((coq_bytes(H(v)) for v in vs), '(list N)')})"
                                  for n, vs in case["headers"]), "(list N * list (list N))%type") + ")"
    resps = coq_list((f"(mkResponse {coq_N(c)} {coq_list((coq_bytes(H(x)) for x in locs), '(list N)')})"
                      for c, locs in case["resps"]), "response")
    return f"(CChain {cfg} {coq_bytes(H(case['method']))} {coq_bytes(H(case['uri']))} {hs} {resps})"


def shrink(case):
    if case["kind"] == "multi":
        cs = case["chains"]
        if len(cs) > 2:
            for i in range(len(cs)):
                keep = [k for k in range(len(cs)) if k != i]
                ren = {k: j for j, k in enumerate(keep)}
                yield {**case, "chains": [cs[k] for k in keep],
                       "sched": [[st, ren[j]] for st, j in case["sched"] if j != i]}
        for i, c in enumerate(cs):
            if c["headers"]:
                for h in range(len(c["headers"])):
                    yield {**case, "chains": cs[:i] + [{**c, "headers": c["headers"][:h] + c["headers"][h + 1:]}] + cs[i + 1:]}
        return
    if case["kind"] == "join":
        for k in ("base", "ref"):
            b = H(case[k])
            for i in range(len(b)):
                yield {**case, k: (b[:i] + b[i + 1:]).hex()}
        return
    rs = case["resps"]
    for i in range(len(rs)):
        yield {**case, "resps": rs[:i] + rs[i + 1:]}
    if case["headers"]:
        for i in range(len(case["headers"])):
            yield {**case, "headers": case["headers"][:i] + case["headers"][i + 1:]}
    if case["extra_sensitive"]:
        yield {**case, "extra_sensitive": []}
    for i, (c, locs) in enumerate(rs):
        for j, l in enumerate(locs):
            b = H(l)
            if len(b) > 1:
                for cut in (b[: len(b) // 2], b[len(b) // 2:], b[1:], b[:-1]):
                    yield {**case, "resps": rs[:i] + [[c, locs[:j] + [cut.hex()] + locs[j + 1:]]] + rs[i + 1:]}


def histogram(case, obs):
    if case["kind"] == "multi":
        return f"multi:{len(case['chains'])}-chains"
    if case["kind"] == "join":
        return "join"
    n = obs.count(" ")
    return f"{'browser' if case['browser'] else 'strict'}:hops={min(n, 5)}{'+' if n > 5 else ''}:{obs.rsplit('|', 1)[-1].split(':')[0].split('/')[0]}"


SPEC = Spec(
    pid="C27",
    gen=gen, impl=impl, oracle=oracle, corpus=corpus, shrink=shrink,
    coq_header="From TwLib Require Import Uri.\nFrom C27 Require Import Model Run.",
    coq_fn="run_show",
    to_coq=to_coq,
    nontrivial=lambda c, o: c["kind"] in ("join", "multi") or " " in o,
    histogram=histogram,
    rule="random redirect chains of 0-8 hops (301/302/303/307/308, then a final 200/204/300/304/404 or none) over "
         "9 authorities (same host with default/explicit/other port, other case, userinfo, malformed port) x "
         "http/https, Locations absolute / scheme-relative / absolute-path / relative with . and .. / query-only / "
         "fragment-only / empty / other schemes / random bytes of the URI alphabet, missing and repeated Location, "
         "methods GET HEAD POST PUT, headers None or subsets of 8 (5 sensitive incl. a configured one), limits "
         "around the chain length, both agent classes; a systematic block 'second hop relative after 4 first hops "
         "x 11 relative forms'; plus urljoin/URI.fromBytes cases (random and the RFC 3986 5.4 examples); "
         "non-trivial = at least one redirect followed; distinct by (case, observation)",
    trusted=["coq/Lib/Uri.v: transcription of urllib.parse urlsplit/urlunsplit/urljoin/urldefrag (CPython 3.12.1) and of "
             "URI.fromBytes on the fragment 'URI alphabet without white space, controls, [ ] ; _ +' (validated by the "
             "join cases of this run, not proved)",
             "hand-written model coq/C27/Model.v of _handleResponse/_handleRedirect (tied by this correspondence run only)",
             "the oracle's reference resolver is urllib.parse.urljoin itself"],
    assumptions=["the wrapped agent returns one response per request (a Deferred that fires once)",
                 "bodyProducer is not forwarded on redirects (as in the code); not part of the property"],
)
