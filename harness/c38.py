"""C38 — telnet transparency: H-tie (hand-written model coq/C38; correspondence on generated write
groupings / wire segmentations / malformed wire streams against real TelnetTransport objects)."""
from __future__ import annotations

import itertools

from harness.common import Failure, Spec, coq_bytes, coq_list

# case = {"ops": [["w", hex] | ["ws", [hex, ...], kind] | ["neg", hex1, hex] | ["raw", hex]], "lens": [int, ...]}
#          ["bw", hex] / ["bws", [hex, ...], kind]: the same calls made on the TelnetBootstrapProtocol that sits on top
#          of the transport (only with "stack": "boot"), i.e. by the protocol the bootstrap carries
#   stack "plain" (default): the sending TelnetTransport carries a plain TelnetProtocol; "boot": it carries a
#         TelnetBootstrapProtocol (a ProtocolTransportMixin, the manhole stacking) which carries an inner protocol
#   accept (optional, default false) the RECEIVING application's enableLocal/enableRemote accept every option (so option
#         commands in the stream -- IAC WILL BINARY, DO ECHO, ... -- really switch options on before/between the data)
#   kind  (optional, default "list") how the chunks are handed to writeSequence: "list", "tuple", "gen" (a generator)
#         or "iter" (a list iterator) -- ITransport.writeSequence takes "an iterable of byte strings", which may be one-shot
#   ops   write / writeSequence / requestNegotiation(about, data) calls made on the sending TelnetTransport;
#         "raw" = bytes the harness hands to the underlying transport directly (what _do/_will/... do; also
#         malformed / command-bearing streams)
#   lens  delivery sizes minus one; the remainder of the wire is the last delivery

IAC, CR, LF = 255, 13, 10
STATES = ("data", "escaped", "command", "newline", "subnegotiation", "subnegotiation-escaped")


def split_by(lens, bs: bytes):
    out, i = [], 0
    for n in lens:
        if i >= len(bs):
            break
        out.append(bs[i:i + n + 1])
        i += n + 1
    if i < len(bs):
        out.append(bs[i:])
    return out


BASE = {"bw": "w", "bws": "ws"}


def _k(o) -> str:
    """the call an operation makes, whichever object it is made on"""
    return BASE.get(o[0], o[0])


def _send(case) -> bytes:
    from twisted.conch import telnet
    from twisted.internet import protocol
    from twisted.internet.testing import StringTransport

    tr = StringTransport()
    if case.get("stack", "plain") == "boot":
        t = telnet.TelnetTransport(telnet.TelnetBootstrapProtocol, protocol.Protocol)
        t.makeConnection(tr)
        tr.clear()                      # the bootstrap's opening DO/WILL requests are not part of the case
    else:
        t = telnet.TelnetTransport(telnet.TelnetProtocol)
        t.makeConnection(tr)
    for o in case["ops"]:
        target = t.protocol if o[0] in BASE else t
        if _k(o) == "w":
            target.write(bytes.fromhex(o[1]))
        elif _k(o) == "ws":
            chunks = [bytes.fromhex(x) for x in o[1]]
            kind = o[2] if len(o) > 2 else "list"
            if kind == "tuple":
                seq = tuple(chunks)
            elif kind == "gen":
                seq = (c for c in chunks)
            elif kind == "iter":
                seq = iter(chunks)
            else:
                seq = chunks
            target.writeSequence(seq)
        elif o[0] == "neg":
            t.requestNegotiation(bytes.fromhex(o[1]), bytes.fromhex(o[2]))
        else:
            tr.write(bytes.fromhex(o[1]))
    return tr.value()


def _receive(chunks, accept=False):
    from twisted.conch import telnet
    from twisted.internet.testing import StringTransport

    evs = []

    class P(telnet.TelnetProtocol):
        def dataReceived(self, data):
            evs.append("D:" + bytes(data).hex())

        def unhandledSubnegotiation(self, command, data):
            evs.append("S:" + bytes(command).hex() + ":" + b"".join(data).hex())

        def enableLocal(self, option):
            return accept

        def enableRemote(self, option):
            return accept

        def disableLocal(self, option):
            pass

        def disableRemote(self, option):
            pass

    class R(telnet.TelnetTransport):
        def commandReceived(self, command, argument):
            evs.append("C:" + bytes(command).hex() + ":" + ("-" if argument is None else bytes(argument).hex()))
            telnet.TelnetTransport.commandReceived(self, command, argument)

    r = R(P)
    r.makeConnection(StringTransport())
    for c in chunks:
        try:
            r.dataReceived(c)
        except ValueError:
            evs.append("!ValueError")
        except IndexError:
            evs.append("!IndexError")
    st = r.state
    if st not in STATES:
        st = "?" + str(st)
    return evs, st


def impl(case) -> str:
    w = _send(case)
    evs, st = _receive(split_by(case["lens"], w), case.get("accept", False))
    return "w=" + w.hex() + " e=" + " ".join(evs) + " s=" + st


# ----- the property, stated on the observation without the model ---------------------------------------


def ref_escape(p: bytes) -> bytes:
    out = bytearray()
    for b in p:
        if b == IAC:
            out += b"\xff\xff"
        elif b == LF:
            out += b"\r\n"
        else:
            out.append(b)
    return bytes(out)


def _op_payload(o) -> bytes:
    if _k(o) == "w":
        return bytes.fromhex(o[1])
    if _k(o) == "ws":
        return b"".join(bytes.fromhex(x) for x in o[1])
    return b""


def _payload(case) -> bytes:
    return b"".join(_op_payload(o) for o in case["ops"])


def ref_wire(o) -> bytes:
    """reference wire form of one operation, written from RFC 854/855 (independent of the model)"""
    if _k(o) in ("w", "ws"):
        return ref_escape(_op_payload(o))
    if o[0] == "neg":
        return b"\xff\xfa" + bytes.fromhex(o[1]) + bytes.fromhex(o[2]).replace(b"\xff", b"\xff\xff") + b"\xff\xf0"
    return bytes.fromhex(o[1])


def ref_events(o):
    """what a well-formed operation must deliver (flattened), or None when the reference does not say"""
    if _k(o) in ("w", "ws"):
        p = _op_payload(o)
        return list(p) if CR not in p else None
    if o[0] == "neg":
        return ["S:" + o[1] + ":" + o[2]] if o[1] != "ff" and len(o[1]) == 2 else None
    b = bytes.fromhex(o[1])
    if len(b) == 2 and b[0] == IAC and b[1] in (239, 241, 242, 243, 244, 245, 246, 247, 248, 249):
        return ["C:%02x:-" % b[1]]
    if len(b) == 3 and b[0] == IAC and b[1] in (251, 252, 253, 254):
        return ["C:%02x:%02x" % (b[1], b[2])]
    return None


def _parse(obs):
    w, rest = obs[2:].split(" e=", 1)
    e, st = rest.rsplit(" s=", 1)
    return bytes.fromhex(w), (e.split(" ") if e else []), st


def _flat(evs):
    """callback grouping factored out: application bytes one by one, everything else verbatim"""
    out = []
    for e in evs:
        if e.startswith("D:"):
            out += list(bytes.fromhex(e[2:]))
        else:
            out.append(e)
    return out


def oracle(case, obs):
    w, evs, st = _parse(obs)
    ops = case["ops"]
    p = _payload(case)
    data_only = all(_k(o) in ("w", "ws") for o in ops)
    stack = case.get("stack", "plain")
    # (1) wire form: IAC doubled, LF sent as CR LF, nothing else touched
    want = b"".join(ref_wire(o) for o in ops)
    if w != want:
        cls = "write"
        for o in ops:           # which call produced the deviating bytes
            if _send({"stack": stack, "ops": [o]}) != ref_wire(o):
                cls = {"ws": "writeSequence", "w": "write", "neg": "requestNegotiation", "raw": "raw"}[_k(o)]
                if _k(o) == "ws" and len(o) > 2 and o[2] in ("gen", "iter") \
                        and _send({"stack": stack, "ops": [[o[0], o[1], "list"]]}) == ref_wire(o):
                    cls = "writeSequence-one-shot-iterable"     # the same chunks as a list are written correctly
                if o[0] in BASE:
                    cls = "bootstrap-" + cls                     # the call was made on the TelnetBootstrapProtocol
                elif stack == "boot" and _send({"ops": [o]}) == ref_wire(o):
                    cls += "-under-bootstrap"                    # the same call is fine when a plain protocol is on top
                break
        return Failure(case, f"wire bytes {w.hex()} are not the escaped payload {want.hex()}", cls + "-wire-not-escaped")
    if any(e == "D:" for e in evs):
        return Failure(case, "applicationDataReceived called with no bytes", "empty-data-callback")
    if data_only:
        # (2) application IAC bytes never become commands and are never lost (any payload)
        nond = [e for e in evs if not e.startswith("D:")]
        if nond:
            return Failure(case, f"application data produced {nond[:3]}", "data-became-command")
        got = bytes(b for e in evs for b in bytes.fromhex(e[2:]))
        if got.count(IAC) != p.count(IAC):
            return Failure(case, "IAC bytes lost or invented", "iac-lost")
    # (3) well-formed streams (CR-free data, commands, subnegotiations) arrive exactly, in order
    refs = [ref_events(o) for o in ops]
    if all(r is not None for r in refs):
        exp = [x for r in refs for x in r]
        if _flat(evs) != exp:
            tag = "payload-altered" if data_only else "mixed-stream-altered"
            return Failure(case, f"delivered {' '.join(evs)[:160]} for {ops}", tag)
        if st != "data":
            return Failure(case, f"parser left in state {st}", "state-not-data")
    # (3b) RFC 854 NVT rule for streams without IAC: CR NUL -> CR, CR LF -> LF, CR x -> CR x
    if IAC not in w and not w.endswith(b"\r"):
        exp, i = bytearray(), 0
        while i < len(w):
            if w[i] == CR:
                nxt = w[i + 1]
                exp += b"\r" if nxt == 0 else (b"\n" if nxt == LF else bytes([CR, nxt]))
                i += 2
            else:
                exp.append(w[i])
                i += 1
        if _flat(evs) != list(exp):
            return Failure(case, f"IAC-free stream {w.hex()} delivered as {' '.join(evs)[:160]}", "nvt-cr-rule")
    # (4) every segmentation delivers the same stream (when the stream raises nothing when delivered whole)
    if len(case["lens"]) > 0 and w:
        whole, st1 = _receive([w], case.get("accept", False))
        if not any(e.startswith("!") for e in whole):
            if _flat(whole) != _flat(evs) or st1 != st:
                return Failure(case, f"segmentation {case['lens']} changes the delivered stream: "
                                     f"{' '.join(evs)[:120]} vs whole {' '.join(whole)[:120]}", "segmentation-dependent")
    return None


# ----- generation --------------------------------------------------------------------------------------

HOT = [255, 255, 255, 10, 10, 13, 0, 240, 250, 251, 253, 254, 241, 249, 239, 65, 66, 1]
SIMPLE = [239, 241, 242, 243, 244, 245, 246, 247, 248, 249]
SEQ_KINDS = ["list", "tuple", "gen", "iter"]


def _bytes(rng, n, cr=True):
    out = bytearray()
    for _ in range(n):
        b = rng.choice(HOT) if rng.random() < 0.8 else rng.randrange(256)
        if not cr and b == CR:
            b = 10
        out.append(b)
    return bytes(out)


def _wire_len(ops):
    return sum(len(ref_wire(o)) for o in ops)


def _lens(rng, total):
    k = rng.random()
    if k < 0.2:
        return []
    if k < 0.45:
        return [0] * total
    out = []
    s = 0
    while s < total:
        n = rng.choice([0, 0, 1, 2, 3, 7])
        out.append(n)
        s += n + 1
    return out


def _data_op(rng, cr):
    if rng.random() < 0.5:
        return ["w", _bytes(rng, rng.randrange(0, 7), cr).hex()]
    return ["ws", [_bytes(rng, rng.randrange(0, 4), cr).hex() for _ in range(rng.randrange(0, 4))],
            rng.choice(SEQ_KINDS)]


def _stacked(rng, case, p=0.4):
    """with probability p the sender carries a TelnetBootstrapProtocol; each data call is then made either on the
    transport or on the bootstrap"""
    if rng.random() >= p:
        return case
    ops = []
    for o in case["ops"]:
        if o[0] in ("w", "ws") and rng.random() < 0.5:
            o = ["b" + o[0]] + o[1:]
        ops.append(o)
    return {**case, "stack": "boot", "ops": ops}


def _cmd_op(rng):
    k = rng.randrange(3)
    if k == 0:
        return ["raw", bytes([IAC, rng.choice(SIMPLE)]).hex()]
    if k == 1:
        return ["raw", bytes([IAC, rng.choice([251, 252, 253, 254]), rng.choice([0, 1, 3, 31, 255, 250, 13])]).hex()]
    about = rng.choice([31, 34, 0, 240, 250, 13, 1])
    return ["neg", bytes([about]).hex(), _bytes(rng, rng.randrange(0, 6)).hex()]


RAW_PIECES = [b"\xff\xfb\x01", b"\xff\xfd\x03", b"\xff\xfe\xff", b"\xff\xfc\x00", b"\xff\xf1", b"\xff\xf9", b"\xff\xef",
              b"\xff\xfa\x1f\x00\x50\x00\x18\xff\xf0", b"\xff\xfa\x01\xff\xff\x02\xff\xf0", b"\xff\xfa\xff\xf0",
              b"\xff\xfa\xff\x01\xff\xf0", b"\xff\x05", b"\xff\xf0", b"\r\xff\xfb\x01", b"\r\xff\xff", b"\r\x00", b"\r\n",
              b"\r\r\n", b"\rA", b"abc", b"\xff\xff", b"\n", b"\r", b"\xff", b"\xff\xfa", b"\xff\xfb"]


NEG_OPTS = [0, 0, 1, 3, 34, 31]          # BINARY, ECHO, SGA, LINEMODE, NAWS


def _negotiated(rng, case, p=0.35):
    """with probability p the receiving application accepts every option and option commands (WILL/DO, sometimes
    WONT/DONT) for BINARY, ECHO, SGA, LINEMODE, NAWS are put on the wire before and between the operations"""
    if rng.random() >= p:
        return case
    ops = []
    for o in [None] + case["ops"]:
        if o is not None:
            ops.append(o)
        if o is None or rng.random() < 0.3:
            for _ in range(rng.randrange(1, 4) if o is None else 1):
                verb = rng.choice([251, 251, 253, 253, 252, 254])
                ops.append(["raw", bytes([IAC, verb, rng.choice(NEG_OPTS)]).hex()])
    return {**case, "accept": True, "ops": ops}


def gen(rng, tier):
    return [_negotiated(rng, _stacked(rng, c)) for c in _gen(rng, tier)]


def _gen(rng, tier):
    cases = []
    quick = tier == "quick"
    # (a) CR-free payloads in random write / writeSequence groupings, random segmentation
    for _ in range(300 if quick else 6000):
        ops = [_data_op(rng, False) for _ in range(rng.randrange(1, 5))]
        cases.append({"ops": ops, "lens": _lens(rng, _wire_len(ops))})
    # (b) payloads with CR
    for _ in range(120 if quick else 2000):
        ops = [_data_op(rng, True) for _ in range(rng.randrange(1, 5))]
        cases.append({"ops": ops, "lens": _lens(rng, _wire_len(ops))})
    # (c) every two-way split of short hot payloads, via write and via writeSequence
    alpha = [255, 10, 65, 250, 240] if quick else [255, 10, 65, 250, 240, 251, 13, 0]
    maxn = 3 if quick else 4
    for n in range(1, maxn + 1):
        for word in itertools.product(alpha, repeat=n):
            if quick and n == maxn and rng.random() > 0.35:
                continue
            p = bytes(word)
            wl = len(ref_escape(p))
            how = rng.randrange(3)
            if how == 0:
                ops = [["w", p.hex()]]
            elif how == 1:
                ops = [["ws", [p[:1].hex(), p[1:].hex()], rng.choice(SEQ_KINDS)]]
            else:
                k = rng.randrange(len(p) + 1)
                ops = [["w", p[:k].hex()], ["ws", [p[k:].hex()], rng.choice(SEQ_KINDS)]]
            cut = rng.randrange(wl)
            cases.append({"ops": ops, "lens": [cut] if cut < wl - 1 else [0] * wl})
    # (d) well-formed mixed streams: CR-free data interleaved with commands and requestNegotiation
    for _ in range(250 if quick else 5000):
        ops = [(_data_op(rng, False) if rng.random() < 0.5 else _cmd_op(rng)) for _ in range(rng.randrange(1, 6))]
        cases.append({"ops": ops, "lens": _lens(rng, _wire_len(ops))})
    # (e) wire streams with malformed escapes, bare CR sequences, truncated commands, all kinds of splits
    for _ in range(300 if quick else 6000):
        ops = []
        for _ in range(rng.randrange(1, 6)):
            r = rng.random()
            if r < 0.6:
                ops.append(["raw", rng.choice(RAW_PIECES).hex()])
            elif r < 0.75:
                ops.append(["raw", _bytes(rng, 2).hex()])
            elif r < 0.9:
                ops.append(_data_op(rng, True))
            else:
                ops.append(_cmd_op(rng))
        cases.append({"ops": ops, "lens": _lens(rng, _wire_len(ops))})
    return cases


def corpus():
    return [
        {"ops": [["ws", ["61ff", "f40a62"]]], "lens": []},           # IAC IP through writeSequence
        {"ops": [["ws", ["0a"]]], "lens": []},                       # LF through writeSequence
        # options switched on first (the receiving application accepts): WILL BINARY, DO BINARY, WILL ECHO, DO SGA
        {"accept": True, "ops": [["raw", "fffb00"], ["raw", "fffd00"], ["w", "610a62ff0a"], ["raw", "fffb01"], ["raw", "fffd03"],
                                 ["ws", ["0a", "ff0a"], "list"]], "lens": [2, 0, 4]},
        # the manhole stacking: a TelnetBootstrapProtocol on top; writes at the transport and through the bootstrap
        {"stack": "boot", "ops": [["w", "6f6e650a74776f0a"], ["ws", ["610a", "ff62"], "tuple"]], "lens": []},
        {"stack": "boot", "ops": [["bw", "780a79ff"], ["bws", ["780a", "79ff"], "list"]], "lens": [2, 0, 3]},
        {"ops": [["ws", ["61", "62ff", "63"], "gen"]], "lens": []},   # one-shot iterable, escaping needed after chunk 1
        {"ops": [["ws", ["61", "62"], "iter"], ["w", "63"]], "lens": []},   # one-shot iterable, nothing to escape
        {"ops": [["w", "61ff0a62"], ["ws", ["ff", "ff"]]], "lens": [0, 0, 0, 0, 0, 0, 0, 0, 0, 0]},
        {"ops": [["w", "ffff0a0aff"]], "lens": [0, 1, 0, 2]},
        {"ops": [["w", "41ff0afb"], ["raw", "fffd01"], ["ws", ["ff", "f40a"]], ["neg", "1f", "00fff0"], ["w", "ff"]],
         "lens": [0] * 25},
        {"ops": [["raw", "61fffa1f0050ff" + "ff0018fff062"]], "lens": [3, 2, 0]},
        {"ops": [["raw", "6162ff0563"]], "lens": []},                 # Stumped: buffer of the call lost
        {"ops": [["raw", "61fffafff062"]], "lens": [1]},              # empty subnegotiation
        {"ops": [["raw", "0dfffb01610d00620d0a0d63"]], "lens": [0, 0]},
        {"ops": [["neg", "ff", "01"]], "lens": []},                   # about = IAC (outside the theorem's guard)
    ]


def to_coq(case):
    def op(o):
        if _k(o) == "w":
            return f"Write {coq_bytes(bytes.fromhex(o[1]))}"
        if _k(o) == "ws":
            return "WriteSeq " + coq_list([coq_bytes(bytes.fromhex(x)) for x in o[1]], "(list N)")
        if o[0] == "neg":
            a = bytes.fromhex(o[1])
            if len(a) != 1:
                return None
            return f"ReqNeg {a[0]}%N {coq_bytes(bytes.fromhex(o[2]))}"
        return f"Raw {coq_bytes(bytes.fromhex(o[1]))}"

    ops = [op(o) for o in case["ops"]]
    if any(o is None for o in ops):
        return None
    lens = coq_list([f"{n}%nat" for n in case["lens"]], "nat")
    return f"({coq_list(ops, 'op')}, {lens})"


def shrink(case):
    ops, lens = case["ops"], case["lens"]
    for i in range(len(ops)):
        yield {**case, "ops": ops[:i] + ops[i + 1:]}
    for i, o in enumerate(ops):
        rest = lambda new: {**case, "ops": ops[:i] + [new] + ops[i + 1:]}
        if o[0] in ("w", "bw", "raw") and len(o[1]) > 2:
            for k in range(0, len(o[1]), 2):
                yield rest([o[0], o[1][:k] + o[1][k + 2:]])
        if o[0] == "neg" and len(o[2]) > 0:
            for k in range(0, len(o[2]), 2):
                yield rest(["neg", o[1], o[2][:k] + o[2][k + 2:]])
        if _k(o) == "ws":
            for k in range(len(o[1])):
                yield rest([o[0], o[1][:k] + o[1][k + 1:]] + o[2:])
                if len(o[1][k]) > 2:
                    yield rest([o[0], o[1][:k] + [o[1][k][2:]] + o[1][k + 1:]] + o[2:])
                    yield rest([o[0], o[1][:k] + [o[1][k][:-2]] + o[1][k + 1:]] + o[2:])
    if lens:
        yield {**case, "lens": []}
        for i in range(len(lens)):
            yield {**case, "lens": lens[:i] + lens[i + 1:]}


def histogram(case, obs):
    kinds = {_k(o) for o in case["ops"]}
    if kinds <= {"w", "ws"}:
        k = "data-cr" if CR in _payload(case) else "data-crfree"
    elif all(ref_events(o) is not None for o in case["ops"]):
        k = "mixed-wellformed"
    else:
        k = "raw/malformed"
    k += "+seq" if "ws" in kinds else ""
    k += "(one-shot)" if any(_k(o) == "ws" and len(o) > 2 and o[2] in ("gen", "iter") for o in case["ops"]) else ""
    k += " boot" if case.get("stack") == "boot" else ""
    k += " negotiated" if case.get("accept") else ""
    k += " split" if case["lens"] else " whole"
    return k


SPEC = Spec(
    pid="C38",
    gen=gen, impl=impl, oracle=oracle, corpus=corpus, shrink=shrink,
    coq_header="From C38 Require Import Model Run.",
    coq_fn="run_show",
    to_coq=to_coq,
    nontrivial=lambda c, o: ("ff" in o.split(" e=")[0]) or ("0d0a" in o) or (" C:" in o) or (" S:" in o) or ("!" in o),
    histogram=histogram,
    rule="CR-free and CR-bearing payloads over a hot alphabet (IAC, LF, CR, NUL, SB, SE, WILL..DONT, simple commands) "
         "in random write/writeSequence groupings (40% of the cases with a TelnetBootstrapProtocol stacked on the sending transport, each data call then made on the transport or on the bootstrap; writeSequence given a list, tuple, generator or iterator, chosen per call) with random / byte-by-byte / whole delivery; every payload of "
         "length <= 3 (quick, longest 35% sampled; thorough <= 4 over 8 symbols) with a two-way wire split; well-formed "
         "mixed streams (data, simple and option commands, requestNegotiation with IAC-bearing payloads); wire streams "
         "assembled from malformed escapes, empty/truncated subnegotiations and CR sequences; "
         "non-trivial = the wire contains IAC or CR LF, or a command / subnegotiation / exception was observed",
    trusted=["hand-written model coq/C38/Model.v (tied by this correspondence run only)",
             "bytes.replace with a one-byte pattern = flat_map (validated by the wire comparison on every case)",
             "the receiving protocol refuses every option, or (35% of the cases) accepts every option with WILL/DO/WONT/DONT "
             "for BINARY, ECHO, SGA, LINEMODE, NAWS on the wire before and between the data; negotiation replies are not "
             "observed here (C39)"],
    assumptions=["writeSequence modelled as repaired by fixes/C38-writesequence-escaping.patch (= write(b''.join(seq)))",
                 "write/writeSequence made on a TelnetBootstrapProtocol stacked on the transport are modelled as the same call "
                 "on the transport (repaired by fixes/C38-bootstrap-double-newline.patch; the pinned bootstrap write sends CR CR LF)"],
)
