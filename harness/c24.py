"""C24 — HTTP client request serialisation (twisted.web._newclient.Request.writeTo and helpers).

T-tie for the two validators (translate/c24.py -> coq/C24/Gen.v) + H-tie for the rest
(coq/C24/Model.v evaluated by vm_compute against the real Request on a StringTransport).
Oracle: an RFC 9112 request parser written here in Python (independent of the Coq model) and,
as a second opinion, h11 0.16.
"""
from __future__ import annotations

import re

from harness.common import REPO, VERIF, Failure, Spec, coq_bool, coq_bytes, coq_list, coq_N
from translate import c24 as tr

H = bytes.fromhex


CASE_MAPPINGS = {b"Content-Md5": b"Content-MD5", b"Dnt": b"DNT", b"Etag": b"ETag", b"P3p": b"P3P", b"Te": b"TE",
                 b"Www-Authenticate": b"WWW-Authenticate", b"X-Xss-Protection": b"X-XSS-Protection"}


def canon_name(name: bytes) -> bytes:
    """Http-Header-Case, as Headers stores names (the harness's own statement of it)"""
    r = b"-".join(w.capitalize() for w in name.split(b"-"))
    return CASE_MAPPINGS.get(r, r)


def canon_headers(case):
    """the caller's header set as Headers.getAllRawHeaders() must present it: [(canonical name, [values])]"""
    return [(canon_name(H(n)), [H(v) for v in vs]) for n, vs in case["headers"]]


def connection_options(values):
    """the connection options of a list of Connection field values (RFC 9110 7.6.1), lower-cased, in order"""
    out = []
    for v in values:
        out += [t.strip(b" \t").lower() for t in v.split(b",") if t.strip(b" \t")]
    return out


def effective_order(b):
    """indices of the producer ops in the order their effects take place: a Deferred fired inside
    startProducing runs its callbacks only once startProducing has returned it, i.e. after every write
    made before returning"""
    ops, k = b["ops"], b.get("sync", 0)
    pre_w = [i for i in range(min(k, len(ops))) if ops[i][0] == "w"]
    pre_t = [i for i in range(min(k, len(ops))) if ops[i][0] != "w"]
    return pre_w + pre_t + list(range(min(k, len(ops)), len(ops)))


def effective_ops(b):
    return [b["ops"][i] for i in effective_order(b)]

# ------------------------------------------------------------------------------------------
# implementation driver

_silenced = False


def _silence_log():
    """Request logs 'Producer is buggy' for a late producer failure; keep stderr clean"""
    global _silenced
    if not _silenced:
        _silenced = True
        from twisted.logger import globalLogBeginner
        try:
            globalLogBeginner.beginLoggingTo([lambda e: None], redirectStandardIO=False, discardBuffer=True)
        except Exception:
            pass



def impl(case) -> str:
    from twisted.internet.defer import Deferred
    from twisted.internet.testing import StringTransport
    from twisted.python.failure import Failure as TFailure
    from twisted.web._newclient import BadHeaders, ExcessWrite, Request
    from twisted.web.http_headers import Headers
    from twisted.web.iweb import UNKNOWN_LENGTH, IBodyProducer
    from zope.interface import implementer

    class ProducerError(Exception):
        pass

    method, uri = H(case["method"]), H(case["uri"])
    given = [(H(n), [H(v) for v in vs]) for n, vs in case["headers"]]
    headers = Headers()
    for n, vs in given:
        headers.setRawHeaders(n, vs)
    if [(n, list(vs)) for n, vs in headers.getAllRawHeaders()] != canon_headers(case):
        return "GENERATOR-HEADERS-NOT-CANONICAL"

    marks: dict[int, str] = {}
    _silence_log()

    @implementer(IBodyProducer)
    class Producer:
        def __init__(self, length, ops, sync):
            self.length = UNKNOWN_LENGTH if length is None else length
            self.ops, self.sync = list(ops), sync
            self.started = 0
            self.stops = 0
            self.consumer = None
            self.d = None

        def run(self, lo, hi):
            for i in range(lo, hi):
                op = self.ops[i]
                marks[i] = "0"
                if op[0] == "w":
                    try:
                        self.consumer.write(H(op[1]))
                    except ExcessWrite:
                        marks[i] = "1"
                elif op[0] == "f":
                    self.d.callback(None)
                else:
                    self.d.errback(TFailure(ProducerError()))

        def startProducing(self, consumer):
            self.started += 1
            self.consumer = consumer
            self.d = Deferred()
            self.run(0, min(self.sync, len(self.ops)))
            return self.d

        def stopProducing(self):
            self.stops += 1

        def pauseProducing(self):
            pass

        def resumeProducing(self):
            pass

    b = case["body"]
    producer = None if b is None else Producer(b["length"], b["ops"], b.get("sync", 0))
    transport = StringTransport()
    try:
        if case["late"]:
            req = Request(b"GET", b"/", headers, producer, persistent=case["persistent"])
            req.method, req.uri = method, uri
        else:
            req = Request(method, uri, headers, producer, persistent=case["persistent"])
        d = req.writeTo(transport)
    except (ValueError, BadHeaders) as e:
        extra = ""
        if transport.value():
            extra += "+wrote"
        if producer is not None and producer.started:
            extra += "+started"
        if transport.producer is not None:
            extra += "+registered"
        return "refused:" + ("BadHeaders" if isinstance(e, BadHeaders) else "ValueError") + extra
    fired: list[str] = []
    d.addCallbacks(lambda v: fired.append("ok" if v is None else "ok?" + repr(v)),
                   lambda f: fired.append("err:" + f.type.__name__))
    if producer is not None:
        if producer.started != 1:
            return f"startProducing-called-{producer.started}-times"
        producer.run(min(producer.sync, len(producer.ops)), len(producer.ops))
    if len(fired) > 1:
        return "fired-twice"
    res = fired[0] if fired else "pending"
    return (f"{res}|{transport.value().hex()}|r{'T' if transport.producer is not None else 'F'}"
            f"|s{producer.stops if producer else 0}|{''.join(marks[i] for i in effective_order(b)) if b else ''}")


# ------------------------------------------------------------------------------------------
# the property, stated on the implementation's observation (independent of the Coq model)

TCHAR = rb"[!#$%&'*+\-.^_`|~0-9A-Za-z]"
TOKEN_RE = re.compile(rb"\A" + TCHAR + rb"+\Z")
TARGET_RE = re.compile(rb"\A[\x21-\x7e]+\Z")
FRAMING = (b"content-length", b"transfer-encoding")


class RefParseError(Exception):
    pass


def ref_parse_head(data: bytes):
    """RFC 9112 request-line + field section -> (method, target, [(name, value)], rest)"""
    i = data.find(b"\r\n")
    if i < 0:
        raise RefParseError("no request line")
    parts = data[:i].split(b" ")
    if len(parts) != 3 or parts[2] != b"HTTP/1.1" or not TOKEN_RE.match(parts[0]) or not TARGET_RE.match(parts[1]):
        raise RefParseError("bad request line")
    pos = i + 2
    hs = []
    while True:
        j = data.find(b"\r\n", pos)
        if j < 0:
            raise RefParseError("unterminated field section")
        line = data[pos:j]
        pos = j + 2
        if not line:
            break
        name, sep, value = line.partition(b":")
        if not sep or not TOKEN_RE.match(name):
            raise RefParseError("bad field line")
        hs.append((name, value.strip(b" \t")))
    return parts[0], parts[1], hs, data[pos:]


def ref_parse_body(hs, rest: bytes):
    """RFC 9112 6.3 -> (body, rest)"""
    te = [v for n, v in hs if n.lower() == b"transfer-encoding"]
    cl = [v for n, v in hs if n.lower() == b"content-length"]
    if te:
        if cl or len(te) != 1 or te[0].lower() != b"chunked":
            raise RefParseError("bad framing")
        body = b""
        while True:
            j = rest.find(b"\r\n")
            if j < 0 or not re.match(rb"\A[0-9a-fA-F]+\Z", rest[:j]):
                raise RefParseError("bad chunk size")
            n = int(rest[:j], 16)
            rest = rest[j + 2:]
            if n == 0:
                if rest[:2] != b"\r\n":
                    raise RefParseError("bad last chunk")
                return body, rest[2:]
            if len(rest) < n + 2 or rest[n:n + 2] != b"\r\n":
                raise RefParseError("bad chunk")
            body += rest[:n]
            rest = rest[n + 2:]
    if cl:
        if any(not re.match(rb"\A[0-9]+\Z", v) for v in cl) or len({int(v) for v in cl}) != 1:
            raise RefParseError("bad content-length")
        n = int(cl[0])
        if len(rest) < n:
            raise RefParseError("short body")
        return rest[:n], rest[n:]
    return b"", rest


def h11_parse(data: bytes):
    import h11
    c = h11.Connection(h11.SERVER)
    c.receive_data(data)
    req, body, done = None, b"", False
    while True:
        e = c.next_event()
        if isinstance(e, h11.Request):
            req = e
        elif isinstance(e, h11.Data):
            body += bytes(e.data)
        elif isinstance(e, h11.EndOfMessage):
            done = True
            break
        else:
            break
    return req, body, done, c.trailing_data[0]


def _expected_wire_headers(case):
    out = []
    if not case["persistent"]:
        out.append((b"Connection", b"close"))
    b = case["body"]
    method = H(case["method"])
    if b is None:
        if method in (b"PUT", b"POST"):
            out.append((b"Content-Length", b"0"))
    elif b["length"] is None:
        out.append((b"Transfer-Encoding", b"chunked"))
    else:
        out.append((b"Content-Length", str(b["length"]).encode()))
    for n, vs in canon_headers(case):
        for v in vs:
            out.append((n, v.strip(b" \t")))
    return out


def _h11_clean(case) -> bool:
    for n, vs in case["headers"]:
        for v in vs:
            v = H(v).strip(b" \t")
            if not re.match(rb"\A[\x21-\x7e\x80-\xff]([\x20\x09\x21-\x7e\x80-\xff]*[\x21-\x7e\x80-\xff])?\Z", v) and v != b"":
                return False
    return True


def oracle(case, obs):
    method, uri = H(case["method"]), H(case["uri"])
    nhost = sum(len(vs) for n, vs in canon_headers(case) if n == b"Host")
    bad_m, bad_u = not TOKEN_RE.match(method), not TARGET_RE.match(uri)
    if obs.startswith("refused:"):
        if "+" in obs:
            return Failure(case, "request refused, but only after something was written / the producer was started: " + obs,
                           "refused-after-write")
        if not (bad_m or bad_u or nhost != 1):
            return Failure(case, "a valid request was refused: " + obs, "valid-request-refused")
        return None
    if "|" not in obs:
        return Failure(case, "driver anomaly: " + obs, "driver:" + obs.split("-")[0])
    res, hexout, reg, stops, marks = obs.split("|")
    out = H(hexout)
    if bad_m:
        return Failure(case, f"method {method!r} is not an RFC 9110 token but was written", "invalid-method-written")
    if bad_u:
        return Failure(case, f"request-target {uri!r} contains an invalid byte but was written", "invalid-target-written")
    if nhost != 1:
        return Failure(case, f"{nhost} Host values but the request was written", "host-count-written")
    user_framing = any(n.lower() in FRAMING for n, vs in canon_headers(case) if vs)
    # --- the head parses back ---------------------------------------------------------------
    try:
        m, t, hs, rest = ref_parse_head(out)
    except RefParseError as e:
        return Failure(case, f"written bytes do not parse as a request head ({e})", "head-unparsable")
    if (m, t) != (method, uri):
        return Failure(case, f"request line parses as {m!r} {t!r}", "request-line-differs")
    # the caller's header set is on the wire: every field other than Connection as the same (name, value) lines in the
    # same order; for Connection the connection options (a recipient reads the field as one comma-separated list):
    # every option of every caller value, plus `close` when the request is not persistent
    want = _expected_wire_headers(case)
    not_conn = lambda l: [(n.lower(), v) for n, v in l if n.lower() != b"connection"]
    conn = lambda l: connection_options([v for n, v in l if n.lower() == b"connection"])
    if set(conn(hs)) != set(conn(want)):
        lost = [t for t in conn(want) if t not in conn(hs)]
        return Failure(case, f"connection options on the wire {conn(hs)!r}, the caller's header set (+close unless "
                       f"persistent) has {conn(want)!r}", "connection-options-lost" if lost else "connection-options-added")
    if not_conn(hs) != not_conn(want):
        return Failure(case, f"field section parses as {hs!r}", "headers-differ")
    b = case["body"]
    ops = [] if b is None else effective_ops(b)
    term = next((i for i, o in enumerate(ops) if o[0] != "w"), None)
    before = [H(o[1]) for o in (ops if term is None else ops[:term])]
    intended = b"".join(before)
    first_term = None if term is None else ops[term][0]
    # --- framing / body ---------------------------------------------------------------------
    if b is None:
        if res != "ok" or rest != b"" or reg != "rF":
            return Failure(case, "body-less request: " + obs[:80], "nobody")
        want_body = b""
    elif b["length"] is None:
        chunked_tag = "chunked-empty-write" if any(len(x) == 0 for x in before) else "chunked-body"
        if first_term == "f":
            if res != "ok":
                return Failure(case, f"producer finished but writeTo result is {res}", "chunked-result")
        elif first_term == "e":
            if res != "err:ProducerError":
                return Failure(case, f"producer failed but writeTo result is {res}", "chunked-result")
        elif res != "pending":
            return Failure(case, f"producer still running but writeTo result is {res}", "chunked-result")
        want_body = intended
        if res != "ok" and not user_framing:
            # no terminating chunk may have been sent: the message must be incomplete for a parser
            try:
                ref_parse_body(hs, rest)
                return Failure(case, "body not finished by the producer, but the bytes on the wire are a complete "
                               "chunked message", chunked_tag if chunked_tag == "chunked-empty-write" else "chunked-premature-end")
            except RefParseError:
                pass
    else:
        L = b["length"]
        body_bytes = rest
        if len(body_bytes) > L:
            return Failure(case, f"{len(body_bytes)} body bytes forwarded for Content-Length {L}", "length-overrun")
        # writes are forwarded whole and in order until one is refused: a prefix of what was written before the end
        if not intended.startswith(body_bytes):
            return Failure(case, "forwarded body bytes are not a prefix of what the producer wrote", "length-body-differs")
        if res == "ok":
            if first_term != "f" or len(intended) != L or body_bytes != intended:
                return Failure(case, f"writeTo succeeded but the producer wrote {len(intended)} bytes before finishing "
                               f"(Content-Length {L}), forwarded {len(body_bytes)}", "length-wrong-accepted")
        if first_term == "f" and len(intended) == L and res != "ok":
            return Failure(case, f"exact-length body but writeTo result is {res}", "length-exact-refused")
        if len(intended) > L and res != "err:WrongBodyLength":
            return Failure(case, f"too many bytes written but writeTo result is {res}", "length-overrun-result")
        if len(intended) > L and stops == "s0":
            return Failure(case, "too many bytes written but stopProducing was not called", "length-overrun-nostop")
        if first_term == "f" and len(intended) < L and res != "err:WrongBodyLength":
            return Failure(case, f"too few bytes written but writeTo result is {res}", "length-short-result")
        if first_term == "e" and len(intended) <= L and res != "err:ProducerError":
            return Failure(case, f"producer failed but writeTo result is {res}", "length-producer-failure-result")
        if first_term is None and len(intended) <= L and res != "pending":
            return Failure(case, f"producer still running but writeTo result is {res}", "length-pending-result")
        if res != "pending" and reg != "rF":
            return Failure(case, "writeTo finished but the producer is still registered with the transport", "length-registered")
        want_body = intended
    # writes after the end must be refused with ExcessWrite and forward nothing (checked through the body equality
    # above for ok results); every write after a terminal op is marked
    if b is not None and term is not None:
        late = [i for i, o in enumerate(ops) if i > term and o[0] == "w"]
        if any(marks[i] != "1" for i in late if i < len(marks)):
            return Failure(case, "a write after the producer finished was not met with ExcessWrite", "late-write-accepted")
    if res == "ok" and not user_framing:
        try:
            body, tail = ref_parse_body(hs, rest)
        except RefParseError as e:
            tag = "body-unparsable"
            if b is not None and b["length"] is None and any(len(x) == 0 for x in before):
                tag = "chunked-empty-write"
            return Failure(case, f"complete request but the body does not parse ({e})", tag)
        if body != want_body or tail != b"":
            tag = "body-differs"
            if b is not None and b["length"] is None and any(len(x) == 0 for x in before):
                tag = "chunked-empty-write"
            return Failure(case, f"body parses as {body[:40]!r} (+{len(tail)} trailing bytes), the producer wrote "
                           f"{want_body[:40]!r}", tag)
        if _h11_clean(case):
            try:
                req, hbody, done, trailing = h11_parse(out)
            except Exception as e:  # h11.RemoteProtocolError
                return Failure(case, f"h11 rejects the request: {e}", "h11-rejects")
            want_h = [(n.lower(), v) for n, v in _expected_wire_headers(case)]
            got_h = [(bytes(n), bytes(v)) for n, v in (req.headers if req is not None else [])]
            if req is None or not done or (req.method, req.target) != (method, uri) or \
                    not_conn(got_h) != not_conn(want_h) or set(conn(got_h)) != set(conn(want_h)) or \
                    hbody != want_body or trailing:
                return Failure(case, "h11 parses the request differently", "h11-differs")
    return None


# ------------------------------------------------------------------------------------------
# generator

TOKCH = b"ABCDEFGHIJKLMNOPQRSTUVWXYZabcdefghijklmnopqrstuvwxyz0123456789!#$%&'*+-.^_`|~"
NAMES = [b"Accept", b"User-Agent", b"X-Foo", b"Cookie", b"A", b"X-A-B", b"Content-Type", b"Authorization", b"X1"]


def _value(rng):
    k = rng.random()
    if k < 0.1:
        return b""
    n = rng.choice([1, 2, 3, 8, 20])
    alphabet = b"abcXYZ019 ;=,/\"\t" if k < 0.7 else bytes(x for x in range(256) if x not in (10, 13))
    v = bytes(rng.choice(alphabet) for _ in range(n))
    if rng.random() < 0.15:
        v = rng.choice([b" ", b"\t", b"  "]) + v
    if rng.random() < 0.15:
        v = v + rng.choice([b" ", b"\t", b" \t"])
    return v


CONN_VALUES = [b"Upgrade", b"HTTP2-Settings", b"keep-alive", b"Upgrade, HTTP2-Settings", b"TE", b"close", b"X-Hop",
               b"x-hop ,  TE", b"Keep-Alive,Upgrade"]


def _raw_name(rng, n: bytes) -> bytes:
    """a caller may spell a header name in any case; Headers canonicalises it"""
    k = rng.random()
    return n if k < 0.6 else n.lower() if k < 0.8 else n.upper() if k < 0.9 else n.swapcase()


def _connection_header(rng, nvals=None):
    nvals = rng.choice([1, 2, 2, 3]) if nvals is None else nvals
    return [_raw_name(rng, b"Connection").hex(), [rng.choice(CONN_VALUES).hex() for _ in range(nvals)]]


def _headers(rng, host="one"):
    hs = []
    names = rng.sample(NAMES, rng.choice([0, 0, 1, 2, 3]))
    for n in names:
        hs.append([_raw_name(rng, n).hex(), [_value(rng).hex() for _ in range(rng.choice([1, 1, 1, 2, 2, 3, 4, 0]))]])
    if rng.random() < 0.25:
        hs.insert(rng.randrange(len(hs) + 1), _connection_header(rng))
        if rng.random() < 0.5:
            hs.append([_raw_name(rng, b"Upgrade").hex(), [b"h2c".hex()]])
    hv = {"one": [b"example.com"], "none": None, "empty": [], "two": [b"a", b"b"]}[host]
    if host == "one" and rng.random() < 0.3:
        hv = [rng.choice([b"h", b"[::1]:8080", b"example.com:80"])]
    if hv is not None:
        hs.insert(rng.randrange(len(hs) + 1), [b"Host".hex(), [v.hex() for v in hv]])
    return hs


def _split(rng, data: bytes, empties=True):
    out = []
    i = 0
    while i < len(data):
        k = rng.choice([1, 1, 2, 3, 5, 15, 16, 17, len(data)])
        out.append(data[i:i + k])
        i += k
        if empties and rng.random() < 0.12:
            out.append(b"")
    if empties and rng.random() < 0.1:
        out.insert(0, b"")
    return out


def _data(rng, n):
    return bytes(rng.choice(b"abc\r\n0 GET/HTP1.:") if rng.random() < 0.7 else rng.randrange(256) for _ in range(n))


def _body(rng):
    k = rng.random()
    if k < 0.2:
        return None
    known = rng.random() < 0.5
    n = rng.choice([0, 0, 1, 2, 9, 10, 15, 16, 17, 31, 255, 256, 257, rng.randrange(0, 40)])
    data = _data(rng, n)
    ws = _split(rng, data)
    ops = [["w", w.hex()] for w in ws]
    length = None
    if known:
        length = len(data)
        r = rng.random()
        if r < 0.35:
            length = max(0, len(data) + rng.choice([-2, -1, 1, 2, 5]))
    r = rng.random()
    if r < 0.7:
        ops.append(["f"])
    elif r < 0.85:
        ops.append(["e"])
    if rng.random() < 0.25 and len(ops) > 0:
        # a terminal in the middle / writes after the end
        ops.insert(rng.randrange(len(ops) + 1), ["w", _data(rng, rng.choice([0, 1, 3])).hex()])
        if ops and ops[-1][0] != "w":
            t = ops.pop()
            ops.insert(rng.randrange(len(ops) + 1), t)
    return {"length": length, "ops": ops, "sync": rng.randrange(len(ops) + 1)}


def _method(rng):
    if rng.random() < 0.6:
        return rng.choice([b"GET", b"POST", b"PUT", b"HEAD", b"DELETE", b"OPTIONS", b"PATCH", b"post", b"Put"])
    return bytes(rng.choice(TOKCH) for _ in range(rng.choice([1, 2, 3, 7])))


def _uri(rng):
    if rng.random() < 0.5:
        return rng.choice([b"/", b"/foo/bar?baz=quux", b"*", b"http://example.com/x", b"/a%20b", b"/~u/{x}|y"])
    return bytes(rng.randrange(0x21, 0x7f) for _ in range(rng.choice([1, 2, 5, 12])))


def _mk(rng, method=None, uri=None, host="one", body="rand", late=None, headers=None):
    return {
        "method": (method if method is not None else _method(rng)).hex(),
        "uri": (uri if uri is not None else _uri(rng)).hex(),
        "persistent": rng.random() < 0.5,
        "late": (rng.random() < 0.3) if late is None else late,
        "headers": headers if headers is not None else _headers(rng, host),
        "body": _body(rng) if body == "rand" else body,
    }


def gen(rng, tier):
    _tier["name"] = tier
    cases = []
    big = tier != "quick"
    # every byte value inside the method and inside the target (all invalid ones included), both ways of
    # getting it there (constructor / attribute assignment)
    for x in range(256):
        for late in (False, True):
            if not big and late and rng.random() < 0.5:
                continue
            base = rng.choice([b"GET", b"POST", b"X"])
            pos = rng.randrange(len(base) + 1)
            cases.append(_mk(rng, method=base[:pos] + bytes([x]) + base[pos:], uri=b"/", late=late,
                             body=rng.choice([None, "rand"])))
            ub = rng.choice([b"/", b"/a/b", b"/?q"])
            pos = rng.randrange(len(ub) + 1)
            cases.append(_mk(rng, method=b"GET", uri=ub[:pos] + bytes([x]) + ub[pos:], late=late,
                             body=rng.choice([None, "rand"])))
    for late in (False, True):
        cases.append(_mk(rng, method=b"", uri=b"/", late=late))
        cases.append(_mk(rng, method=b"GET", uri=b"", late=late))
        cases.append(_mk(rng, method=b"GET", uri=b"/a b", late=late))
        cases.append(_mk(rng, method=b"GET\r\nX: y", uri=b"/", late=late))
        cases.append(_mk(rng, method=b"GET", uri=b"/ HTTP/1.1\r\nX: y\r\n\r\n", late=late))
    # Host count
    for host in ("none", "empty", "two"):
        for _ in range(6 if not big else 40):
            cases.append(_mk(rng, host=host))
    # the main stream: valid requests with every kind of body script
    for _ in range(350 if not big else 6000):
        cases.append(_mk(rng))
    # chunk-size boundaries
    for n in [0, 1, 9, 10, 15, 16, 17, 255, 256] + ([4095, 4096, 65535, 65536, 70000] if big else []):
        d = _data(rng, n)
        cases.append(_mk(rng, method=b"POST", uri=b"/u", body={"length": None, "ops": [["w", d.hex()], ["f"]], "sync": 1}))
        cases.append(_mk(rng, method=b"POST", uri=b"/u", body={"length": n, "ops": [["w", d.hex()], ["f"]], "sync": 0}))
    # caller-supplied Connection headers: 0-3 separate values (some of them comma lists) x persistent or not x every
    # kind of body; the options of every value must reach the wire
    for nvals in (0, 1, 2, 3):
        for persistent in (True, False):
            for bodykind in ("none", "known", "unknown"):
                for _ in range(1 if not big else 6):
                    hs = [[b"Host".hex(), [b"example.com".hex()]]]
                    hs.insert(rng.randrange(2), _connection_header(rng, nvals))
                    if rng.random() < 0.5:
                        hs.append([b"Http2-Settings".hex(), [b"AAMAAABkAAQAAP__".hex()]])
                    body = None if bodykind == "none" else \
                        {"length": 5 if bodykind == "known" else None, "ops": [["w", b"hello".hex()], ["f"]],
                         "sync": rng.randrange(3)}
                    c = _mk(rng, method=rng.choice([b"GET", b"POST"]), uri=b"/res?q=1", late=False, headers=hs, body=body)
                    c["persistent"] = persistent
                    cases.append(c)
    # very large single writes at the multiples of 64 KiB (and one either side): oracle-only in the quick tier (the
    # bytes go through the reference request parser and h11, not through vm_compute)
    for k in (1, 2, 3):
        for delta in (-1, 0, 1):
            n = 65536 * k + delta
            d = bytes((i * 7 + k) % 251 for i in range(n))
            pre = [["w", b"ab".hex()]] if rng.random() < 0.5 else []
            post = [["w", b"tail".hex()]] if rng.random() < 0.5 else []
            cases.append(_mk(rng, method=b"POST", uri=b"/big", late=False, headers=[[b"Host".hex(), [b"h".hex()]]],
                             body={"length": None, "ops": pre + [["w", d.hex()]] + post + [["f"]],
                                   "sync": rng.randrange(2)}))
    d = bytes(i % 253 for i in range(65536))
    cases.append(_mk(rng, method=b"PUT", uri=b"/big", late=False, headers=[[b"Host".hex(), [b"h".hex()]]],
                     body={"length": 65536, "ops": [["w", d.hex()], ["f"]], "sync": 0}))
    # user-supplied framing headers (outside the theorem's guard; correspondence only)
    for _ in range(10 if not big else 100):
        hs = _headers(rng)
        hs.append([rng.choice([b"Content-Length", b"Transfer-Encoding"]).hex(), [rng.choice([b"3", b"chunked"]).hex()]])
        cases.append(_mk(rng, headers=hs))
    return cases


def corpus():
    ex = b"example.com".hex()
    host = [[b"Host".hex(), [ex]]]
    return [
        # an empty write in a chunked body (DESIGN section 6 had no C24 entry; found by request_parses_back)
        {"method": b"POST".hex(), "uri": b"/x".hex(), "persistent": False, "late": False, "headers": host,
         "body": {"length": None, "sync": 0,
                  "ops": [["w", b"abc".hex()], ["w", ""], ["w", b"GET /evil HTTP/1.1\r\nHost: h\r\n\r\n".hex()], ["f"]]}},
        {"method": b"POST".hex(), "uri": b"/x".hex(), "persistent": True, "late": False, "headers": host,
         "body": {"length": None, "sync": 1, "ops": [["w", ""]]}},
        {"method": b"GET".hex(), "uri": b"/".hex(), "persistent": False, "late": False, "headers": host, "body": None},
        {"method": b"PUT".hex(), "uri": b"/".hex(), "persistent": True, "late": False, "headers": host, "body": None},
        {"method": b"POST".hex(), "uri": b"/".hex(), "persistent": True, "late": False, "headers": host,
         "body": {"length": 3, "sync": 0, "ops": [["w", b"ab".hex()], ["w", b"cd".hex()], ["f"], ["w", b"x".hex()]]}},
        {"method": b"POST".hex(), "uri": b"/".hex(), "persistent": True, "late": False, "headers": host,
         "body": {"length": 3, "sync": 2, "ops": [["w", b"ab".hex()], ["f"], ["w", b"x".hex()]]}},
        {"method": b"G T".hex(), "uri": b"/".hex(), "persistent": True, "late": True, "headers": host, "body": None},
    ]


# ------------------------------------------------------------------------------------------
# model side


MODEL_MAX_BODY = {"quick": 5000, "thorough": 20000}      # bigger bodies are oracle-only
_tier = {"name": "quick"}


def to_coq(case):
    b0 = case["body"]
    if b0 is not None:
        total = sum(len(o[1]) // 2 for o in b0["ops"] if o[0] == "w")
        if total > MODEL_MAX_BODY.get(_tier["name"], 10 ** 9):
            return None

    def op(o):
        if o[0] == "w":
            return f"PWrite {coq_bytes(H(o[1]))}"
        return "PFinish" if o[0] == "f" else "PFail"

    b = case["body"]
    if b is None:
        body = "NoBody"
    elif b["length"] is None:
        body = f"(Unknown {coq_list(map(op, effective_ops(b)), 'pop')})"
    else:
        body = f"(Known {coq_N(b['length'])} {coq_list(map(op, effective_ops(b)), 'pop')})"
    hs = coq_list((f"({coq_bytes(n)}, {coq_list((coq_bytes(v) for v in vs), '(list N)')})"
                   for n, vs in canon_headers(case)), "(list N * list (list N))%type")
    return (f"(mkReq {coq_bytes(H(case['method']))} {coq_bytes(H(case['uri']))} {coq_bool(case['persistent'])} "
            f"{hs} {body} {coq_bool(case['late'])})")


def shrink(case):
    hs = case["headers"]
    for i in range(len(hs)):
        if canon_name(H(hs[i][0])) != b"Host":
            yield {**case, "headers": hs[:i] + hs[i + 1:]}
        if len(hs[i][1]) > 1 and canon_name(H(hs[i][0])) != b"Host":
            for j in range(len(hs[i][1])):
                yield {**case, "headers": hs[:i] + [[hs[i][0], hs[i][1][:j] + hs[i][1][j + 1:]]] + hs[i + 1:]}
    b = case["body"]
    if b is not None:
        ops = b["ops"]
        for i in range(len(ops)):
            yield {**case, "body": {**b, "ops": ops[:i] + ops[i + 1:], "sync": min(b.get("sync", 0), len(ops) - 1)}}
        for i, o in enumerate(ops):
            if o[0] == "w" and len(o[1]) > 2:
                yield {**case, "body": {**b, "ops": ops[:i] + [["w", o[1][:len(o[1]) // 4 * 2]]] + ops[i + 1:]}}
        if b.get("sync", 0):
            yield {**case, "body": {**b, "sync": 0}}
    if case["persistent"]:
        yield {**case, "persistent": False}
    if case["late"]:
        yield {**case, "late": False}


def histogram(case, obs):
    b = case["body"]
    kind = "nobody" if b is None else ("chunked" if b["length"] is None else "content-length")
    return kind + ":" + obs.split("|")[0]


SPEC = Spec(
    pid="C24",
    gen=gen, impl=impl, oracle=oracle, corpus=corpus, shrink=shrink,
    regen=lambda: tr.regen(VERIF, REPO),
    coq_header="From C24 Require Import Model Run.",
    coq_fn="run_show",
    to_coq=to_coq,
    nontrivial=lambda c, o: True,
    describe=lambda c: c if c["body"] is None else
    {**c, "body": {**c["body"], "ops": [o if o[0] != "w" or len(o[1]) <= 200 else
                                        ["w", o[1][:60] + f"...({len(o[1]) // 2} bytes)"] for o in c["body"]["ops"]]}},
    histogram=histogram,
    rule="every byte value 0-255 placed inside the method and inside the request-target (constructor and late "
         "attribute assignment), 0/1/2 Host values, random token methods / VCHAR targets / header sets (values "
         "over all bytes but CR LF, with leading/trailing blanks), body absent / known length / unknown length "
         "with producer scripts: random write splits incl. empty writes, totals at length +-1,2,5, finish / fail / "
         "still pending, writes after the end, every split point between synchronous and asynchronous production; "
         "chunk sizes at 15/16/17, 255/256, 4095/4096; distinct by (case, observation)",
    trusted=["translate/c24.py (fail-closed extraction of the _istoken byte set and the _VALID_URI range)",
             "hand-written model coq/C24/Model.v of writeTo/_writeHeaders/ChunkedEncoder/LengthEnforcingConsumer "
             "(tied by this correspondence run only)",
             "coq/C24/Spec.v RFC 9112 request parser (transcription; the harness's Python reference parser and h11 "
             "0.16 play the same role on the implementation side)",
             "Headers (http_headers.py) is an input: names canonical tokens, values without CR/LF as Headers "
             "guarantees; the harness checks getAllRawHeaders() returns what it was given"],
    assumptions=["the producer's Deferred fires at most once (a second firing raises AlreadyCalledError in the "
                 "producer, outside Request)",
                 "the transport accepts every write (StringTransport)"],
)
